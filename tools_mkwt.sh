#!/bin/bash
# usage: tools_mkwt.sh <dir>  — scratch git worktree of /repo HEAD with the prebuilt extension modules copied in
set -e
d="$1"
git -C /repo worktree add --detach "$d" HEAD >/dev/null 2>&1
(cd /repo && find mdtraj -name "*.so" | while read f; do cp "$f" "$d/$f"; done)
cp /repo/mdtraj/_version.py "$d/mdtraj/_version.py" 2>/dev/null || true
echo "$d"
