"""C04 (carriers) — a topology through pickle, a data frame, the HDF5 topology record and a PDB file (E1 CrossHair).

Same fixed small SHAPE as harness/c04.py (2 chains; residues of 2,1 | 1 atoms; four bonds incl. cross-residue and cross-chain) with symbolic
attributes: names, residue names / numbers (equal or different across the residue and chain boundaries), segment ids, chain ids (incl. None and both
chains carrying the same id), serials (contiguous or not, or None), elements (incl. deuterium and the virtual site), bond types / orders.

  pickle      every observable attribute, ==, hash
  data frame  from_dataframe(*to_dataframe()) : atoms, residues, chains' membership, bonds with type and order; chain IDENTIFIERS separately
  HDF5        HDF5TrajectoryFile.topology setter -> JSON record -> getter, over an in-memory handle: names, elements, serials, residue names, numbers,
              segment ids, chain identifiers and membership, the bond graph (this carrier has no field for bond type / order)
  PDB         PDBTrajectoryFile.write + footer into an in-memory text, read by an INDEPENDENT fixed-column reader: the CONECT records, resolved
              through the serial numbers of the ATOM records, must give exactly the bonds the writer is meant to list (a bond with an atom of a
              non-standard residue, or an SG-SG bond between cysteines), for ter on/off, one or two chains, explicit or default serials and an atom
              with up to five partners; names, residue names, chain ids, residue numbers and elements of the ATOM records"""
import vtlib.xhfix  # noqa: F401
import io
import json
import pickle
import types

import numpy as np

import mdtraj.formats.hdf5 as _h5
import mdtraj.formats.pdb.pdbfile as _pdb
from harness.c04 import BOND_PAIRS, BTYPES, ORDERS, build, snapshot, wellformed
from mdtraj.core import element as _el
from mdtraj.core import topology as _T
from mdtraj.core.topology import Topology
from vtlib.fakes import NoSuchNodeError
from vtlib.xhfix import conc

ELEMS2 = [_el.carbon, _el.hydrogen, _el.deuterium, _el.virtual, _el.oxygen]


def _make(e0, e1, bt, bo, cmode, smode, rsame, nsame):
    """cmode: 0 ids A,B; 1 both None; 2 both 'A'.  smode: 0 serials 1..4; 1 non-contiguous; 2 None.  rsame: the two residues at the chain boundary
    carry the same number; nsame: ... and the same name"""
    import harness.c04 as c04
    old = c04.ELEMS
    c04.ELEMS = ELEMS2
    try:
        cid = [("A", "B"), (None, None), ("A", "A")][cmode]
        ser = [(1, 2, 3, 4), (11, 12, 15, 16), (None, None, None, None)][smode]
        rs = (5, 7, 7 if rsame else 9)
        rn = ("ALA", "HOH", "HOH" if nsame else "NA")
        return build(["N", "CA", "O", "O" if nsame else "NA"], rn, ["S1", "S2", ""], cid, ser, rs, [e0, e1, 4, 4], [bt, 0, 1, 2], [bo, 0, 1, 3])
    finally:
        c04.ELEMS = old


def pickle_roundtrip(e0: int, e1: int, bt: int, bo: int, cmode: int, smode: int, proto: int) -> bool:
    """
    pre: 0 <= e0 <= 4 and 0 <= e1 <= 4 and 0 <= bt <= 5 and 0 <= bo <= 3 and 0 <= cmode <= 2 and 0 <= smode <= 2 and 2 <= proto <= 5
    post: __return__
    """
    t = _make(conc(e0, 0, 4), conc(e1, 0, 4), conc(bt, 0, 5), conc(bo, 0, 3), conc(cmode, 0, 2), conc(smode, 0, 2), False, False)
    t2 = pickle.loads(pickle.dumps(t, protocol=conc(proto, 2, 5)))
    return snapshot(t2) == snapshot(t) and wellformed(t2) and t2 == t and hash(t2) == hash(t) and [a.element is b.element for a, b in zip(t.atoms, t2.atoms)] == [True] * 4


def _df_roundtrip(t):
    df, bonds = t.to_dataframe()
    return Topology.from_dataframe(df, bonds)


def dataframe_structure(e0: int, e1: int, bt: int, bo: int, smode: int, rsame: bool, nsame: bool) -> bool:
    """
    pre: 0 <= e0 <= 4 and 0 <= e1 <= 4 and 0 <= bt <= 5 and 0 <= bo <= 3 and 0 <= smode <= 1
    post: __return__
    """
    t = _make(conc(e0, 0, 4), conc(e1, 0, 4), conc(bt, 0, 5), conc(bo, 0, 3), 0, conc(smode, 0, 1), rsame, nsame)
    t2 = _df_roundtrip(t)
    a, b = snapshot(t), snapshot(t2)
    a["chains"] = [(i, None, r) for i, _, r in a["chains"]]       # identifiers: see dataframe_chain_ids
    b["chains"] = [(i, None, r) for i, _, r in b["chains"]]
    return a == b and wellformed(t2)


def dataframe_chain_ids(cmode: int) -> bool:
    """
    pre: 0 <= cmode <= 2
    post: __return__
    """
    t = _make(0, 1, 1, 1, conc(cmode, 0, 2), 0, False, False)
    t2 = _df_roundtrip(t)
    return [c.chain_id for c in t2.chains] == [c.chain_id for c in t.chains]


class _H5Mem:
    """the pytables handle behind HDF5TrajectoryFile.topology: one array node holding the JSON record"""
    def __init__(self):
        self.nodes = {}
        self.root = types.SimpleNamespace(_v_attrs=types.SimpleNamespace())

    def create_array(self, where, name, obj=None, **k):
        self.nodes[name] = list(obj)

    def get_node(self, where, name):
        if name not in self.nodes:
            raise NoSuchNodeError(name)
        return self.nodes[name]

    def remove_node(self, where, name):
        if name not in self.nodes:
            raise NoSuchNodeError(name)
        del self.nodes[name]

    getNode, removeNode, createArray = get_node, remove_node, create_array

    def close(self):
        pass

    def flush(self):
        pass


def _h5file(mode):
    f = object.__new__(_h5.HDF5TrajectoryFile)
    f._open, f.mode, f._handle, f._frame_index, f._needs_initialization = True, mode, _H5Mem(), 0, False
    f.tables = types.SimpleNamespace(NoSuchNodeError=NoSuchNodeError)
    return f


def hdf5_record(e0: int, e1: int, cmode: int, smode: int, rsame: bool, nsame: bool, twice: bool) -> bool:
    """
    pre: 0 <= e0 <= 4 and 0 <= e1 <= 4 and 0 <= cmode <= 2 and 0 <= smode <= 2
    post: __return__
    """
    t = _make(conc(e0, 0, 4), conc(e1, 0, 4), 1, 1, conc(cmode, 0, 2), conc(smode, 0, 2), rsame, nsame)
    f = _h5file("w")
    f.topology = t
    if twice:
        f.topology = t          # replacing the record
    rec = json.loads(f._handle.nodes["topology"][0].decode() if isinstance(f._handle.nodes["topology"][0], bytes) else f._handle.nodes["topology"][0])
    f.mode = "r"
    t2 = f.topology
    a, b = snapshot(t), snapshot(t2)
    strip = lambda s: dict(s, bonds=sorted((i, j) for i, j, _, _ in s["bonds"]))        # the record holds index pairs only
    # deuterium shares the symbol-less... every element is stored by symbol: D and VS included
    return strip(a) == strip(b) and wellformed(t2) and isinstance(rec, dict) and len(f._handle.nodes) == 1


# ------------------------------------------------------------------ PDB text

def _pdb_text(t, ter, header=True):
    sink = io.StringIO()
    _pdb.print = lambda *x, file=None, **k: file.write(" ".join(str(v) for v in x) + "\n")     # (CrossHair silences the builtin print)
    f = object.__new__(_pdb.PDBTrajectoryFile)
    f._open, f._mode, f._file, f._header_written, f._footer_written, f._last_topology = True, "w", sink, False, False, None
    n = t.n_atoms
    pos = np.zeros((n, 3)) + np.arange(n)[:, None] * 1.5
    f.write(pos, t, modelIndex=0, ter=ter, header=header)
    f._write_footer()
    return sink.getvalue()


def _spec_read_pdb_bonds(text):
    """wwPDB v3.3: ATOM/HETATM serial cols 7-11; CONECT cols 7-11 the atom, 12-16, 17-21, 22-26, 27-31 its partners (serial numbers)"""
    serial_to_pos, recs = {}, []
    for ln in text.split("\n"):
        if ln[:6] in ("ATOM  ", "HETATM"):
            serial_to_pos[int(ln[6:11])] = len(recs)
            recs.append({"serial": int(ln[6:11]), "name": ln[12:16].strip(), "resName": ln[17:20].strip(), "chain": ln[21], "resSeq": int(ln[22:26]), "element": ln[76:78].strip(), "segid": ln[72:76].strip()})
    bonds = set()
    ok = True
    for ln in text.split("\n"):
        if ln.startswith("CONECT"):
            nums = [int(ln[c:c + 5]) for c in range(6, len(ln.rstrip()), 5) if ln[c:c + 5].strip()]
            a, rest = nums[0], nums[1:]
            for b in rest:
                if a not in serial_to_pos or b not in serial_to_pos:
                    ok = False
                    continue
                bonds.add(tuple(sorted((serial_to_pos[a], serial_to_pos[b]))))
    return recs, bonds, ok


STD = {"ALA", "GLY", "CYS", "HOH"}


RESSEQ = [3, -999, -5, -1, 0, 9999]          # residue numbers a 4-column field can hold (wwPDB: columns 23-26)


def _star(n_leaves, two_chains, smode, std_centre, cys, rs0=3):
    """centre atom 0 bonded to n_leaves atoms (1..5); a second chain with one more bonded pair when two_chains"""
    t = Topology()
    ch = t.add_chain("A")
    ser = (lambda i: None) if smode == 2 else (lambda i: 1 + i) if smode == 0 else (lambda i: 11 + 2 * i)
    r0 = t.add_residue("CYS" if cys else ("ALA" if std_centre else "LIG"), ch, rs0)
    c = t.add_atom("SG" if cys else "C1", _el.sulfur if cys else _el.carbon, r0, serial=ser(0))
    atoms = [c]
    for k in range(n_leaves):
        r = t.add_residue("CYS" if cys else "MOL", ch, 4 + k)
        a = t.add_atom("SG" if cys else "X%d" % k, _el.sulfur if cys else _el.oxygen, r, serial=ser(1 + k))
        atoms.append(a)
        t.add_bond(c, a)
    if two_chains:
        ch2 = t.add_chain("B")
        r = t.add_residue("LG2", ch2, 1)
        p = t.add_atom("P1", _el.phosphorus, r, serial=ser(1 + n_leaves))
        q = t.add_atom("P2", _el.phosphorus, r, serial=ser(2 + n_leaves))
        t.add_bond(p, q)
        t.add_bond(atoms[1], p)          # across chains
    return t


def pdb_conect(n_leaves: int, two_chains: bool, smode: int, ter: bool, std_centre: bool, cys: bool, rsk: int) -> bool:
    """
    pre: 1 <= n_leaves <= 5 and 0 <= smode <= 2 and 0 <= rsk <= 5
    post: __return__
    """
    n_leaves, smode = conc(n_leaves, 1, 5), conc(smode, 0, 2)
    t = _star(n_leaves, two_chains, smode, std_centre, cys, RESSEQ[conc(rsk, 0, 5)])
    text = _pdb_text(t, ter)
    recs, bonds, ok = _spec_read_pdb_bonds(text)
    if not ok or len(recs) != t.n_atoms:
        return False
    atoms = list(t.atoms)
    want = set()
    for b in t.bonds:
        x, y = b[0], b[1]
        nonstd = x.residue.name not in STD or y.residue.name not in STD
        ss = x.name == "SG" and y.name == "SG" and x.residue.name == "CYS" and y.residue.name == "CYS"
        if nonstd or ss:
            want.add(tuple(sorted((x.index, y.index))))
    if bonds != want:
        return False
    for a, r in zip(atoms, recs):
        if r["name"] != a.name or r["resName"] != a.residue.name or r["resSeq"] != a.residue.resSeq or r["chain"] != a.residue.chain.chain_id or r["element"].upper() != a.element.symbol.upper():
            return False
    return len({r["serial"] for r in recs}) == len(recs)
