"""C01 (text layer) — the fixed-width / free-format text writers, run on SYMBOLIC numbers, and their readers (E2 symnum with tokenised
formatting).

The real write() of each text format runs with coordinates, times and cell entries that are z3 reals.  Formatting a symbolic value
(`"%8.3f" % v`, f-strings, str()) yields a TOKEN: a distinct small number that stands for the value's z3 term, so the file text
records which expression landed in which field while every arithmetic step before formatting (box bounds, tilt factors, minima)
stays symbolic.  An INDEPENDENT reader written from the format specifications parses the text; z3 then decides that the numbers an
independent reader extracts are the trajectory's (in the documented layout), for every feasible path through the writer (branches on
symbolic values -- e.g. on a time stamp -- are explored, not sampled).  The same text is handed to mdtraj's own reader, which must
extract the same tokens in the same places (reader and writer agree with the specification, not merely with each other).

Outside: the number formatting itself (rounding to the printed precision, field overflow) -- tokens are exact in every field width
used here; unit conversion and field plumbing above the writer are C01.save.* / C01.load.*."""
import io
import math
import os
import time
import types

import numpy as np
import z3

from vtlib import symnum as S
from vtlib.symnum import NP, Goals, SA, Sym, sym_array, tz

# ------------------------------------------------------------------ tokens

TOKEN_BASE = [101]   # first token value (a reader heuristic that looks at magnitudes sees the TOKEN: choose the base accordingly)
TOK = {}        # token value -> z3 term
_BY_ID = {}     # z3 term id -> token value


def _token(self):
    e = z3.simplify(self.e)
    if z3.is_rational_value(e):            # a constant formats as itself
        return float(e.numerator_as_long()) / float(e.denominator_as_long())
    k = e.get_id()
    if k not in _BY_ID:
        v = float(TOKEN_BASE[0] + len(TOK))
        _BY_ID[k] = v
        TOK[v] = e
    return _BY_ID[k]


Sym.__float__ = _token
Sym.__format__ = lambda self, spec: format(_token(self), spec)
Sym.__str__ = lambda self: repr(_token(self))


def term(x):
    """a number read from the text -> the z3 term it stands for (tokens) or the constant itself"""
    x = float(x)
    if x in TOK:
        return TOK[x]
    return S.rat(x)


_ensure = S.ensure_type_sym


class _Text(io.StringIO):
    """text sink that also accepts bytes (mdcrd writes encoded pieces)"""
    def write(self, s):
        return super().write(s.decode("ascii") if isinstance(s, bytes) else s)

    def close(self):
        pass


def _top(n):
    import mdtraj as md
    from mdtraj.core import element as el
    t = md.Topology()
    ch = t.add_chain()
    r = t.add_residue("ALA", ch, resSeq=7)
    for i in range(n):
        t.add_atom(["N", "CA", "CB"][i % 3], el.carbon, r, serial=11 + i)
    return t


# ------------------------------------------------------------------ independent readers (from the format specifications)

def spec_read_gro(text, precision):
    """GROMACS manual, 'gro' file format: title (free; optional 't= <ps>'), atom count, atom lines
    '%5d%-5s%5s%5d' + 3 positions of width precision+5, then the box line: v1(x) v2(y) v3(z) v1(y) v1(z) v2(x) v2(z) v3(x) v3(y)"""
    import re
    lines = text.split("\n")
    frames, i = [], 0
    w = precision + 5
    while i < len(lines) and lines[i].strip() != "":
        title = lines[i]
        m = re.search(r"t=\s*([-+0-9.eE]+)", title)
        t = term(m.group(1)) if m else None
        n = int(lines[i + 1])
        xyz = []
        for j in range(n):
            ln = lines[i + 2 + j]
            xyz.append([term(ln[20 + k * w:20 + (k + 1) * w]) for k in range(3)])
        b = [term(x) for x in lines[i + 2 + n].split()]
        b += [S.rat(0)] * (9 - len(b))
        box = [[b[0], b[3], b[4]], [b[5], b[1], b[6]], [b[7], b[8], b[2]]]
        frames.append({"time": t, "xyz": xyz, "box": box})
        i += n + 3
    return frames


def spec_read_mdcrd(text, n_atoms, has_box, strict_box=False):
    """AMBER trajectory (.crd/.mdcrd): title line, then per frame 3N values in 10F8.3 records (a new record at each frame), followed by
    one 3F8.3 record with the box lengths when the file has a box"""
    lines = text.split("\n")[1:]
    frames, i = [], 0
    per = (3 * n_atoms + 9) // 10
    while i < len(lines) and lines[i].strip() != "":
        vals = []
        for ln in lines[i:i + per]:
            vals += [term(ln[k:k + 8]) for k in range(0, len(ln), 8)]
        i += per
        fr = {"xyz": [vals[3 * a:3 * a + 3] for a in range(n_atoms)], "n_values": len(vals)}
        if has_box:
            ln = lines[i]
            # the box record is 3F8.3 (AMBER file-format page).  C-style readers (sscanf "%8lf") skip separators, a FORTRAN-style
            # fixed-column reader does not: `strict_box` reads columns 1-8, 9-16, 17-24 exactly
            fr["lengths"] = [term(ln[k:k + 8]) for k in range(0, 24, 8)] if strict_box else [term(v) for v in ln.split()]
            fr["box_record"] = ln
            i += 1
        frames.append(fr)
    return frames


def spec_read_xyz(text):
    """XYZ: atom count, comment line, then 'symbol x y z' per atom, whitespace separated"""
    lines = text.split("\n")
    frames, i = [], 0
    while i < len(lines) and lines[i].strip() != "":
        n = int(lines[i])
        frames.append({"xyz": [[term(v) for v in lines[i + 2 + j].split()[1:4]] for j in range(n)], "names": [lines[i + 2 + j].split()[0] for j in range(n)]})
        i += n + 2
    return frames


def spec_read_lammpstrj(text):
    """LAMMPS dump (custom), 'dump' command documentation: ITEM: TIMESTEP / ITEM: NUMBER OF ATOMS / ITEM: BOX BOUNDS [xy xz yz] pp pp pp with
    'xlo_bound xhi_bound [xy]' etc. / ITEM: ATOMS id type x y z.  Triclinic: xlo = xlo_bound - min(0,xy,xz,xy+xz), xhi = xhi_bound - max(0,xy,xz,xy+xz),
    ylo = ylo_bound - min(0,yz), yhi = yhi_bound - max(0,yz)"""
    lines = text.split("\n")
    frames, i = [], 0
    while i < len(lines) and lines[i].startswith("ITEM: TIMESTEP"):
        n = int(lines[i + 3])
        hdr = lines[i + 4]
        tri = "xy xz yz" in hdr
        rows = [[term(v) for v in lines[i + 5 + k].split()] for k in range(3)]
        cols = lines[i + 8].split()[2:]
        ix = [cols.index(c) for c in (("xu", "yu", "zu") if "xu" in cols else ("x", "y", "z"))]
        atoms = {}
        for j in range(n):
            p = lines[i + 9 + j].split()
            atoms[int(p[cols.index("id")])] = [term(p[k]) for k in ix]
        frames.append({"tri": tri, "rows": rows, "xyz": [atoms[k + 1] for k in range(n)]})
        i += 9 + n
    return frames


def spec_read_rst7(text):
    """AMBER ASCII restart: title; '%5d%15.7e' atom count and time (ps); coordinates 6F12.7 per line; box line 6F12.7: lengths then angles"""
    lines = text.split("\n")
    n = int(lines[1][:5])
    t = term(lines[1][5:20])
    vals = []
    k = 2
    while len(vals) < 3 * n:
        ln = lines[k]
        vals += [term(ln[c:c + 12]) for c in range(0, len(ln), 12)]
        k += 1
    out = {"time": t, "xyz": [vals[3 * a:3 * a + 3] for a in range(n)], "extra_values": len(vals) - 3 * n}
    if k < len(lines) and lines[k].strip():
        b = [term(lines[k][c:c + 12]) for c in range(0, 72, 12)]
        out["lengths"], out["angles"] = b[:3], b[3:]
    return out


def spec_read_pdb(text):
    """wwPDB format v3.3: CRYST1 cols 7-15, 16-24, 25-33 (a, b, c), 34-40, 41-47, 48-54 (alpha, beta, gamma); MODEL cols 11-14; ATOM/HETATM: serial 7-11, name 13-16,
    resName 18-20, chainID 22, resSeq 23-26, x 31-38, y 39-46, z 47-54, occupancy 55-60, tempFactor 61-66, element 77-78"""
    cryst, models, cur = [], [], None
    for ln in text.split("\n"):
        rec = ln[:6]
        if rec == "CRYST1":
            cryst.append({"lengths": [term(ln[6:15]), term(ln[15:24]), term(ln[24:33])], "angles": [term(ln[33:40]), term(ln[40:47]), term(ln[47:54])]})
        elif rec == "MODEL ":
            cur = {"index": int(ln[10:14]), "atoms": []}
            models.append(cur)
        elif rec in ("ATOM  ", "HETATM"):
            if cur is None:
                cur = {"index": None, "atoms": []}
                models.append(cur)
            cur["atoms"].append({"serial": int(ln[6:11]), "name": ln[12:16].strip(), "resName": ln[17:20].strip(), "chain": ln[21], "resSeq": int(ln[22:26]),
                                 "xyz": [term(ln[30:38]), term(ln[38:46]), term(ln[46:54])], "element": ln[76:78].strip(), "width": len(ln)})
        elif rec == "ENDMDL":
            cur = None
    return {"cryst": cryst, "models": models}


# ------------------------------------------------------------------ the obligations

def _eq(G, name, prem, got, want, inputs, tol=None):
    if got is None:
        G.add(name, prem, z3.BoolVal(False), inputs)
    elif tol is None:
        G.add(name, prem, tz(got) == tz(want), inputs)
    else:
        G.add(name, prem, S.close(got, want, tol, tol), inputs)


def _fail(name, why, rep):
    r, script, key = rep(name, {})
    return {"status": "cex", "detail": why, "queries": 0, "solver_s": 0.0, "cex": {"goal": name, "key": key, "inputs": {}, "reproduced": r, "replay_script": script}}


def writer(fmt: str = "gro", cell: str = "tri", n_atoms: int = 3, strict_box: bool = False):
    """cell in none / ortho / tri"""
    import importlib
    t0 = time.time()
    S.new_ctx(timeout_ms=30000)
    TOK.clear()
    _BY_ID.clear()
    TOKEN_BASE[0] = 7 if cell == "rhomb60" else 101      # rhomb60: every written number except the 60-degree angles stays below 60
    F = 1 if fmt == "rst7" else 2
    N = n_atoms
    X = sym_array("x", (F, N, 3))
    T = sym_array("t", (F,))
    Lh = sym_array("L", (F, 3)) if cell != "none" else None
    ANG = {"ortho": [90.0, 90.0, 90.0], "tri": [80.0, 100.0, 70.0], "tri2": [80.0, 95.0, 100.0], "rhomb60": [60.0, 60.0, 60.0], "none": None}[cell]
    S.CTX.cons += [z3.And(tz(v) >= -90, tz(v) <= 90) for v in X.flat] + [z3.And(tz(v) >= 0, tz(v) <= 9000) for v in T.flat]
    if Lh is not None:
        S.CTX.cons += [z3.And(tz(v) >= 1, tz(v) <= (59 if cell == "rhomb60" else 90)) for v in Lh.flat]
    inputs = {f"x{f}_{i}_{k}": X[f, i, k] for f in range(F) for i in range(N) for k in range(3)}
    inputs.update({f"t{f}": T[f] for f in range(F)})
    if Lh is not None:
        inputs.update({f"L{f}_{k}": Lh[f, k] for f in range(F) for k in range(3)})
    modname, clsname = {"gro": ("mdtraj.formats.gro", "GroTrajectoryFile"), "mdcrd": ("mdtraj.formats.mdcrd", "MDCRDTrajectoryFile"), "xyz": ("mdtraj.formats.xyzfile", "XYZTrajectoryFile"),
                        "lammpstrj": ("mdtraj.formats.lammpstrj", "LAMMPSTrajectoryFile"), "rst7": ("mdtraj.formats.amberrst", "AmberRestartFile"), "pdb": ("mdtraj.formats.pdb.pdbfile", "PDBTrajectoryFile")}[fmt]
    mod = importlib.import_module(modname)
    Cls = getattr(mod, clsname)
    mod.ensure_type = _ensure
    mod.np = NP()
    top = _top(N)
    box = None
    if fmt == "gro" and cell != "none":
        # the writer receives box VECTORS: symbolic lengths on the standard-orientation unit vectors of the concrete angles
        import mdtraj.utils.unitcell as uc
        unit = np.array(uc.lengths_and_angles_to_box_vectors(1.0, 1.0, 1.0, *ANG))
        unit[np.abs(unit) < 1e-12] = 0.0
        box = np.empty((F, 3, 3), dtype=object)
        for f in range(F):
            for r in range(3):
                for c in range(3):
                    box[f, r, c] = Lh[f, r] * float(unit[r, c]) if unit[r, c] != 0.0 else 0.0
        box = box.view(SA)

    def run():
        mod.ensure_type = _ensure
        mod.np = NP()
        sink = _Text()
        w = Cls.__new__(Cls)
        for k, v in {"_open": True, "_mode": "w", "_is_open": True, "_file": sink, "_fh": sink, "_handle": sink, "_closed": False, "_frame_index": 0, "_w_has_box": None, "_n_atoms": N, "n_atoms": N,
                     "_needs_initialization": True}.items():
            try:
                object.__setattr__(w, k, v)
            except AttributeError:
                pass
        if fmt == "gro":
            w.write(X, top, T, box, precision=3)
        elif fmt == "mdcrd":
            w.write(X, Lh)
        elif fmt == "xyz":
            w.write(X, types=[a.name for a in top.atoms])
        elif fmt == "lammpstrj":
            ang = np.array([ANG] * F)
            w.write(X, Lh, ang)
        elif fmt == "pdb":
            w._header_written = False
            w._footer_written = False
            for f in range(F):
                if Lh is not None:
                    w.write(X[f], top, modelIndex=f, unitcell_lengths=Lh[f], unitcell_angles=np.array(ANG))
                else:
                    w.write(X[f], top, modelIndex=f)
        else:
            w.write(X, time=T, cell_lengths=Lh, cell_angles=None if Lh is None else np.array([ANG]))
        return sink.getvalue()

    if fmt == "mdcrd" and cell == "tri":
        return {"status": "holds", "twin_ok": True, "queries": 0, "solver_s": 0.0, "detail": "mdcrd stores box lengths only: not applicable"}
    if fmt == "lammpstrj" and cell == "none":
        return {"status": "holds", "twin_ok": True, "queries": 0, "solver_s": 0.0, "detail": "lammpstrj always carries a box: not applicable"}
    rep = _replay(fmt, cell, N, strict_box)
    try:
        paths = S.explore(run, max_paths=64)
    except Exception as e:
        return _fail("writer_raised", f"{type(e).__name__}: {e}", rep)
    G = Goals(30000)
    tol = z3.RealVal("1/100000000")
    for pi, (path, cons, assumed, text) in enumerate(paths):
        prem = cons + path + assumed
        tag = f"p{pi}."
        try:
            if fmt == "gro":
                frs = spec_read_gro(text, 3)
            elif fmt == "mdcrd":
                frs = spec_read_mdcrd(text, N, cell != "none", strict_box)
            elif fmt == "xyz":
                frs = spec_read_xyz(text)
            elif fmt == "lammpstrj":
                frs = spec_read_lammpstrj(text)
            elif fmt == "pdb":
                pdb = spec_read_pdb(text)
                frs = [{"xyz": [a["xyz"] for a in m["atoms"]], "model": m} for m in pdb["models"]]
            else:
                frs = [spec_read_rst7(text)]
        except Exception as e:
            G.add(tag + "text_follows_the_specification", prem, z3.BoolVal(False), inputs)
            G.notes.append(f"independent reader failed on path {pi}: {type(e).__name__}: {e}")
            continue
        if len(frs) != F:
            G.add(tag + "frame_count", prem, z3.BoolVal(False), inputs)
            continue
        for f, fr in enumerate(frs):
            if len(fr["xyz"]) != N:
                G.add(f"{tag}atom_count[f{f}]", prem, z3.BoolVal(False), inputs)
                continue
            for i in range(N):
                for k in range(3):
                    _eq(G, f"{tag}xyz[f{f}.{i}.{k}]", prem, fr["xyz"][i][k], X[f, i, k], inputs)
            if fmt in ("gro", "rst7"):
                _eq(G, f"{tag}time[f{f}]", prem, fr["time"], T[f], inputs)
            if fmt == "xyz":
                G.add(f"{tag}names[f{f}]", prem, z3.BoolVal(fr["names"] == [a.name for a in top.atoms]), inputs)
            if fmt == "mdcrd" and strict_box:
                G.add(f"{tag}box_record_is_3F8.3[f{f}]", prem, z3.BoolVal(len(fr["box_record"].rstrip("\n")) == 24), inputs)
            if fmt == "mdcrd":
                G.add(f"{tag}record_length[f{f}]", prem, z3.BoolVal(fr["n_values"] == 3 * N), inputs)
                if cell != "none":
                    for k in range(3):
                        _eq(G, f"{tag}box[f{f}.{k}]", prem, fr["lengths"][k], Lh[f, k], inputs)
            if fmt == "rst7":
                G.add(f"{tag}no_stray_values", prem, z3.BoolVal(fr["extra_values"] == 0), inputs)
                if cell != "none":
                    for k in range(3):
                        _eq(G, f"{tag}box_length[{k}]", prem, fr.get("lengths", [None] * 3)[k], Lh[f, k], inputs)
                        _eq(G, f"{tag}box_angle[{k}]", prem, fr.get("angles", [None] * 3)[k], S.rat(ANG[k]), inputs)
                else:
                    G.add(f"{tag}no_box_line", prem, z3.BoolVal("lengths" not in fr), inputs)
            if fmt == "gro":
                if cell == "none":
                    G.add(f"{tag}zero_box[f{f}]", prem, z3.And(*[tz(v) == 0 for row in fr["box"] for v in row]), inputs)
                else:
                    for r in range(3):
                        for c in range(3):
                            _eq(G, f"{tag}box[f{f}.{r}{c}]", prem, fr["box"][r][c], box[f, r, c], inputs, tol)
            if fmt == "lammpstrj":
                _lammps_goals(G, tag, f, fr, prem, X, Lh, ANG, N, inputs)
            if fmt == "pdb":
                m = fr["model"]
                atoms = list(top.atoms)
                G.add(f"{tag}model_index[f{f}]", prem, z3.BoolVal(m["index"] == f), inputs)
                G.add(f"{tag}atom_records[f{f}]", prem, z3.BoolVal(all(a["width"] == 80 and a["name"] == atoms[i].name and a["resName"] == atoms[i].residue.name and a["resSeq"] == atoms[i].residue.resSeq
                                                                        and a["serial"] == atoms[i].serial and a["element"].upper() == atoms[i].element.symbol.upper() for i, a in enumerate(m["atoms"]))), inputs)
                if f == 0:
                    if cell == "none":
                        G.add(f"{tag}no_cryst1", prem, z3.BoolVal(len(pdb["cryst"]) == 0), inputs)
                    else:
                        G.add(f"{tag}one_cryst1", prem, z3.BoolVal(len(pdb["cryst"]) == 1), inputs)
                        if len(pdb["cryst"]) == 1:
                            for k in range(3):
                                _eq(G, f"{tag}cryst1.length[{k}]", prem, pdb["cryst"][0]["lengths"][k], Lh[0, k], inputs)
                                _eq(G, f"{tag}cryst1.angle[{k}]", prem, pdb["cryst"][0]["angles"][k], S.rat(ANG[k]), inputs)
        # mdtraj's own reader must extract the same tokens at the same places
        try:
            back = _own_reader(fmt, text, N, top, cell)
        except Exception as e:
            G.add(tag + "own_reader_accepts_the_text", prem, z3.BoolVal(False), inputs)
            G.notes.append(f"mdtraj reader failed on path {pi}: {type(e).__name__}: {e}")
            continue
        for f in range(F):
            for i in range(N):
                for k in range(3):
                    _eq(G, f"{tag}own_reader.xyz[f{f}.{i}.{k}]", prem, term(back["xyz"][f, i, k]), X[f, i, k], inputs)
            if "time" in back:
                _eq(G, f"{tag}own_reader.time[f{f}]", prem, None if back["time"] is None else term(back["time"][f]), T[f], inputs)
            if cell != "none" and fmt in ("mdcrd", "rst7"):
                for k in range(3):
                    _eq(G, f"{tag}own_reader.lengths[f{f}.{k}]", prem, None if back.get("lengths") is None else term(np.asarray(back["lengths"]).reshape(-1, 3)[f, k]), Lh[f, k], inputs)
            if cell != "none" and fmt == "gro":
                for r in range(3):
                    for c in range(3):
                        _eq(G, f"{tag}own_reader.box[f{f}.{r}{c}]", prem, term(back["box"][f, r, c]), box[f, r, c], inputs, tol)
            if cell != "none" and fmt == "pdb" and f == 0:
                for k in range(3):
                    _eq(G, f"{tag}own_reader.cryst1.length[{k}]", prem, None if back["pdb_lengths"] is None else term(back["pdb_lengths"][k]), Lh[0, k], inputs)
                    _eq(G, f"{tag}own_reader.cryst1.angle[{k}]", prem, None if back["pdb_angles"] is None else term(back["pdb_angles"][k]), S.rat(ANG[k]), inputs)
    r = G.run(rep)
    r["paths"] = len(paths)
    r["tokens"] = len(TOK)
    r["wall_s"] = round(time.time() - t0, 2)
    return r


def _lammps_goals(G, tag, f, fr, prem, X, Lh, ANG, N, inputs):
    tol = z3.RealVal("1/1000000")
    rows = fr["rows"]
    mn = [None] * 3
    for k in range(3):
        m = tz(X[f, 0, k])
        for i in range(1, N):
            m = z3.If(tz(X[f, i, k]) < m, tz(X[f, i, k]), m)
        mn[k] = m
    a, b, c = (tz(Lh[f, k]) for k in range(3))
    G.add(f"{tag}box_header_kind[f{f}]", prem, z3.BoolVal(fr["tri"] == (ANG != [90.0, 90.0, 90.0])), inputs)
    if not fr["tri"]:
        for k in range(3):
            G.add(f"{tag}box_lo[f{f}.{k}]", prem, rows[k][0] == mn[k], inputs)
            G.add(f"{tag}box_len[f{f}.{k}]", prem, rows[k][1] - rows[k][0] == tz(Lh[f, k]), inputs)
        return
    if any(len(r) != 3 for r in rows):
        G.add(f"{tag}box_rows[f{f}]", prem, z3.BoolVal(False), inputs)
        return
    xy, xz, yz = rows[0][2], rows[1][2], rows[2][2]

    def zmin(*v):
        m = v[0]
        for x in v[1:]:
            m = z3.If(x < m, x, m)
        return m

    def zmax(*v):
        m = v[0]
        for x in v[1:]:
            m = z3.If(x > m, x, m)
        return m
    zero = S.rat(0)
    xlo = rows[0][0] - zmin(zero, xy, xz, xy + xz)
    xhi = rows[0][1] - zmax(zero, xy, xz, xy + xz)
    ylo = rows[1][0] - zmin(zero, yz)
    yhi = rows[1][1] - zmax(zero, yz)
    zlo, zhi = rows[2][0], rows[2][1]
    lx, ly, lz = xhi - xlo, yhi - ylo, zhi - zlo
    ca, cb, cg = (S.rat(math.cos(math.radians(x))) for x in ANG)
    G.add(f"{tag}lammps.origin[f{f}]", prem, z3.And(xlo == mn[0], ylo == mn[1], zlo == mn[2]), inputs)
    G.add(f"{tag}lammps.a[f{f}]", prem, S.close(lx, a, tol, tol), inputs)
    G.add(f"{tag}lammps.xy[f{f}]", prem, S.close(xy, b * cg, tol, tol), inputs)
    G.add(f"{tag}lammps.xz[f{f}]", prem, S.close(xz, c * cb, tol, tol), inputs)
    G.add(f"{tag}lammps.b[f{f}]", prem, z3.And(ly > 0, S.close(ly * ly + xy * xy, b * b, tol, tol)), inputs)
    G.add(f"{tag}lammps.alpha[f{f}]", prem, S.close(xy * xz + ly * yz, b * c * ca, tol, tol), inputs)
    G.add(f"{tag}lammps.c[f{f}]", prem, z3.And(lz > 0, S.close(lz * lz + xz * xz + yz * yz, c * c, tol, tol)), inputs)


def _own_reader(fmt, text, N, top, cell):
    """mdtraj's reader on the very text the writer produced (numbers come back as the token values); through a scratch file and the
    real constructor"""
    import builtins
    import importlib
    import shutil
    import tempfile
    modname, clsname, ext = {"gro": ("mdtraj.formats.gro", "GroTrajectoryFile", "gro"), "mdcrd": ("mdtraj.formats.mdcrd", "MDCRDTrajectoryFile", "mdcrd"), "xyz": ("mdtraj.formats.xyzfile", "XYZTrajectoryFile", "xyz"),
                             "lammpstrj": ("mdtraj.formats.lammpstrj", "LAMMPSTrajectoryFile", "lammpstrj"), "rst7": ("mdtraj.formats.amberrst", "AmberRestartFile", "rst7"), "pdb": ("mdtraj.formats.pdb.pdbfile", "PDBTrajectoryFile", "pdb")}[fmt]
    mod = importlib.reload(importlib.import_module(modname))          # undo the symbolic stubs (ensure_type, np) for the concrete read
    C = getattr(mod, clsname)
    d = tempfile.mkdtemp(prefix="c01t_")
    p = os.path.join(d, "o." + ext)
    try:
        with builtins.open(p, "w") as fh:
            fh.write(text)
        if fmt == "pdb":
            with C(p) as f:
                return {"xyz": np.asarray(f.positions), "pdb_lengths": f.unitcell_lengths, "pdb_angles": f.unitcell_angles}
        with (C(p, n_atoms=N) if fmt == "mdcrd" else C(p)) as f:
            out = f.read()
    finally:
        shutil.rmtree(d, ignore_errors=True)
    if fmt == "gro":
        return {"xyz": out[0], "time": out[1], "box": out[2]}
    if fmt == "mdcrd":
        return {"xyz": out[0], "lengths": out[1]}
    if fmt == "xyz":
        return {"xyz": out}
    if fmt == "lammpstrj":
        return {"xyz": out[0], "lmp_lengths": out[1], "lmp_angles": out[2]}
    return {"xyz": out[0], "time": out[1], "lengths": out[2]}


# ------------------------------------------------------------------ replay through real files with the public API

_REPLAY = r'''
import os, re, shutil, sys, tempfile, warnings
import numpy as np
warnings.simplefilter("ignore")
import mdtraj as md
from mdtraj.core import element as el
fmt, cell, N, vals, strict = %(fmt)r, %(cell)r, %(N)d, %(vals)r, %(strict)r
def _hook(tp, v, tb):
    import traceback; traceback.print_exception(tp, v, tb); os._exit(3)
sys.excepthook = _hook
F = 1 if fmt == "rst7" else 2
top = md.Topology(); ch = top.add_chain(); r = top.add_residue("ALA", ch, resSeq=7)
for i in range(N): top.add_atom(["N", "CA", "CB"][i %% 3], el.carbon, r, serial=11 + i)
xyz = np.array([[[vals.get("x%%d_%%d_%%d" %% (f, i, k), None) for k in range(3)] for i in range(N)] for f in range(F)], dtype=object)
dflt = (np.arange(F * N * 3).reshape(F, N, 3) * 0.37 - 1.3) %% 4.1 - 1.0
xyz = np.where(xyz == None, dflt, xyz).astype(np.float64)
times = np.array([vals.get("t%%d" %% f) if vals.get("t%%d" %% f) is not None else [0.0, 0.5, 4.0][f] for f in range(F)], dtype=np.float64)
ANG = {"ortho": [90.0, 90.0, 90.0], "tri": [80.0, 100.0, 70.0], "tri2": [80.0, 95.0, 100.0], "rhomb60": [60.0, 60.0, 60.0], "none": None}[cell]
L = None if cell == "none" else np.array([[vals.get("L%%d_%%d" %% (f, k)) or (2.0 + 0.5 * k + 0.25 * f) for k in range(3)] for f in range(F)])
if L is not None: L = np.maximum(L, np.abs(xyz).max() * 0 + 1.0)
if L is not None and fmt == "pdb": L[:] = L[0]                      # (a PDB file holds one CRYST1 record)
t = md.Trajectory((xyz / 10).astype(np.float32) if fmt != "gro" else xyz.astype(np.float32), top, time=times)      # native angstrom -> nm for the API (gro is nm)
if L is not None:
    t.unitcell_lengths = L / (10 if fmt != "gro" else 1); t.unitcell_angles = np.array([ANG] * F)
d = tempfile.mkdtemp(prefix="c01tr_"); bad = []
def near(a, b, tol): return a is not None and abs(float(a) - float(b)) <= tol
try:
    p = os.path.join(d, "o." + fmt)
    t.save(p)
    text = open(p).read(); lines = text.split("\n")
    nat = t.xyz.astype(float) * (1 if fmt == "gro" else 10)
    if fmt == "gro":
        i = 0
        for f in range(F):
            m = re.search(r"t=\s*([-+0-9.eE]+)", lines[i])
            if not m or not near(m.group(1), times[f], 1e-3): bad.append("frame %%d: title %%r does not carry t= %%s" %% (f, lines[i], times[f]))
            for a in range(N):
                got = [float(lines[i + 2 + a][20 + 8 * k:28 + 8 * k]) for k in range(3)]
                if not np.allclose(got, nat[f, a], atol=1.1e-3): bad.append("frame %%d atom %%d: %%s vs %%s" %% (f, a, got, nat[f, a]))
            b = [float(v) for v in lines[i + 2 + N].split()]; b += [0.0] * (9 - len(b))
            box = np.array([[b[0], b[3], b[4]], [b[5], b[1], b[6]], [b[7], b[8], b[2]]])
            want = t.unitcell_vectors[f] if L is not None else np.zeros((3, 3))
            if not np.allclose(box, want, atol=2e-5): bad.append("frame %%d: box line reads %%s, cell vectors are %%s" %% (f, box.tolist(), np.asarray(want).tolist()))
            i += N + 3
        back = md.load(p)
        if not np.allclose(back.time, times, atol=1e-3): bad.append("loaded times %%s != %%s" %% (back.time, times))
    elif fmt == "lammpstrj":
        i = 0
        for f in range(F):
            tri = "xy xz yz" in lines[i + 4]
            rows = [[float(v) for v in lines[i + 5 + k].split()] for k in range(3)]
            if tri:
                xy, xz, yz = rows[0][2], rows[1][2], rows[2][2]
                lx = (rows[0][1] - max(0, xy, xz, xy + xz)) - (rows[0][0] - min(0, xy, xz, xy + xz)); ly = (rows[1][1] - max(0, yz)) - (rows[1][0] - min(0, yz)); lz = rows[2][1] - rows[2][0]
                a, b, c = lx, np.sqrt(ly ** 2 + xy ** 2), np.sqrt(lz ** 2 + xz ** 2 + yz ** 2)
                ang = np.degrees([np.arccos((xy * xz + ly * yz) / (b * c)), np.arccos(xz / c), np.arccos(xy / b)])
            else:
                a, b, c = (rows[k][1] - rows[k][0] for k in range(3)); ang = [90.0] * 3
            if not np.allclose([a, b, c], L[f], rtol=1e-4) or not np.allclose(ang, ANG, atol=1e-2): bad.append("frame %%d: a LAMMPS-convention reading of the box gives %%s %%s, the cell is %%s %%s" %% (f, [a, b, c], list(ang), L[f].tolist(), ANG))
            i += 9 + N
    elif fmt == "pdb":
        cr = [l for l in lines if l.startswith("CRYST1")]
        if L is None:
            if cr: bad.append("CRYST1 written for a trajectory without cell")
        elif len(cr) != 1: bad.append("%%d CRYST1 records" %% len(cr))
        else:
            got = [float(cr[0][6:15]), float(cr[0][15:24]), float(cr[0][24:33]), float(cr[0][33:40]), float(cr[0][40:47]), float(cr[0][47:54])]
            if not np.allclose(got[:3], L[0], atol=2e-3) or not np.allclose(got[3:], ANG, atol=1e-2): bad.append("CRYST1 reads %%s, the cell is %%s %%s" %% (got, L[0].tolist(), ANG))
        at = [l for l in lines if l.startswith(("ATOM  ", "HETATM"))]
        if len(at) != F * N: bad.append("%%d atom records for %%d models x %%d atoms" %% (len(at), F, N))
        else:
            for k, l in enumerate(at):
                got = [float(l[30:38]), float(l[38:46]), float(l[46:54])]
                if not np.allclose(got, nat[k // N, k %% N], atol=1.1e-3): bad.append("atom record %%d: %%s vs %%s" %% (k, got, nat[k // N, k %% N].tolist()))
        back = md.load(p)
        if not np.allclose(back.xyz, t.xyz, atol=2e-4): bad.append("coordinates differ after save/load")
        if L is not None and (back.unitcell_angles is None or not np.allclose(back.unitcell_angles[0], ANG, atol=1e-2) or not np.allclose(back.unitcell_lengths[0], t.unitcell_lengths[0], atol=2e-4)): bad.append("cell differs after save/load")
    elif fmt == "mdcrd" and strict:
        per = (3 * N + 9) // 10
        rec = lines[1 + per]
        print("box record: %%r (%%d columns; 3F8.3 is 24)" %% (rec, len(rec)))
        cols = [rec[k:k + 8] for k in range(0, 24, 8)]
        try:
            vals3 = [float(c) for c in cols]
        except ValueError:
            vals3 = None
        if len(rec) != 24 or vals3 is None or not np.allclose(vals3, L[0], atol=1e-3): bad.append("a fixed-column 3F8.3 reading of the box record gives %%r, the box is %%s" %% (cols, L[0].tolist()))
    else:
        back = md.load(p, top=top) if fmt != "rst7" else md.load_restrt(p, top=top)
        if not np.allclose(back.xyz, t.xyz, atol=2e-4): bad.append("coordinates differ after save/load")
        if fmt == "rst7" and not np.allclose(back.time, times[:1], atol=1e-3): bad.append("time differs")
        if L is not None and fmt in ("mdcrd", "rst7") and (back.unitcell_lengths is None or not np.allclose(back.unitcell_lengths, t.unitcell_lengths, atol=2e-4)): bad.append("cell lengths differ / cell lost: %%s" %% (back.unitcell_lengths,))
finally:
    shutil.rmtree(d, ignore_errors=True)
for b in bad: print("MISMATCH", b)
sys.exit(1 if bad else 0)
'''


def _replay(fmt, cell, N, strict=False):
    def rep(name, vals):
        import subprocess
        import sys as _s
        import tempfile
        script = _REPLAY % dict(fmt=fmt, cell=cell, N=N, strict=strict, vals={k: v for k, v in vals.items() if v is not None})
        with tempfile.NamedTemporaryFile("w", suffix=".py", delete=False) as fh:
            fh.write(script)
        r = subprocess.run([_s.executable, fh.name], capture_output=True, text=True)
        os.unlink(fh.name)
        return r.returncode == 1, script + "\n# " + (r.stdout + r.stderr)[-500:].replace("\n", "\n# "), name.split("[")[0].split(".", 1)[-1]
    return rep
