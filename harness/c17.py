"""C17 — unit-cell lengths/angles and box vectors describe the same cell (E2: the real functions run on z3 reals).

Angles enter through named trigonometric values: cos(t)/sin(t) of a term t are fresh reals tied by cos^2+sin^2=1
(vtlib.symnum); the independent specification is written on the same named values, so an angle/pair mix-up or a wrong
formula shows up as a satisfiable negation with a concrete (lengths, cosines) model, which is then replayed in floats."""
import math
import warnings

import numpy as _np
import z3

import mdtraj.core.trajectory as _tr
import mdtraj.utils.unitcell as _uc
import mdtraj.utils.validation as _val
from vtlib import symnum as S
from vtlib.symnum import NP, Goals, Sym, sym, tz

TOL = z3.RealVal("1/1000")
ROTS = [  # exact rational proper rotations (from Pythagorean quadruples); catalogue for the "any rotated description" clause
    [[1, 0, 0], [0, 1, 0], [0, 0, 1]],
    [[0, -1, 0], [1, 0, 0], [0, 0, 1]],
    [[2 / 3, -1 / 3, 2 / 3], [2 / 3, 2 / 3, -1 / 3], [-1 / 3, 2 / 3, 2 / 3]],
    [[3 / 5, 4 / 5, 0], [-4 / 5, 3 / 5, 0], [0, 0, 1]],
    [[6 / 7, 2 / 7, 3 / 7], [-3 / 7, 6 / 7, 2 / 7], [-2 / 7, -3 / 7, 6 / 7]],
    [[1, 0, 0], [0, 0, -1], [0, 1, 0]],
]
from fractions import Fraction as _F
ROTS_Q = [[[_F(x).limit_denominator(1000) for x in row] for row in R] for R in ROTS]


def _install():
    S.CTX.snap_tol = 1e-6      # the documented |x| < 1e-6 -> 0 clean-up: identities are proved for the values before it,
    #                            and each clean-up is proved to move its component by <= 1e-6 (G.add("cleanup_bound"...))
    _uc.np = NP()
    _tr.np = NP()
    _val.np = NP()
    _uc.warnings = _tr.warnings = type("W", (), {"warn": staticmethod(lambda *a, **k: None)})()


def _cell_syms(tag=""):
    a, b, c = sym("a" + tag), sym("b" + tag), sym("c" + tag)
    al, be, ga = sym("alpha" + tag), sym("beta" + tag), sym("gamma" + tag)
    return a, b, c, al, be, ga


def _trig(x):
    """named cos/sin of the radian term the code builds from a degree value"""
    t = x * _np.pi / 180
    return t.cos(), t.sin()


def _premises(a, b, c, al, be, ga, lmax=100):
    """physically valid cell: lengths in [0.1, lmax], angles in [20, 160] degrees, positive Gram determinant, and the
    (trusted, listed) facts sin(t) > 0 on (0, pi) and |cos t| <= cos(20deg) on [20,160] degrees."""
    ca, sa = _trig(al)
    cb, sb = _trig(be)
    cg, sg = _trig(ga)
    cmax = S.rat(math.cos(math.radians(20)))
    smin = S.rat(math.sin(math.radians(20)) - 1e-9)
    P = []
    for x in (a, b, c):
        P += [tz(x) >= S.rat(0.1), tz(x) <= lmax]
    for x in (al, be, ga):
        P += [tz(x) >= 20, tz(x) <= 160]
    for cs, sn in ((ca, sa), (cb, sb), (cg, sg)):
        P += [tz(cs) <= cmax, tz(cs) >= -cmax, tz(sn) >= smin]
    gram = 1 - tz(ca) * tz(ca) - tz(cb) * tz(cb) - tz(cg) * tz(cg) + 2 * tz(ca) * tz(cb) * tz(cg)
    P.append(gram >= S.rat(0.01))
    return P, (ca, cb, cg, sa, sb, sg), gram


def _dot(u, v):
    return sum((u[i] * v[i] for i in range(1, 3)), u[0] * v[0])


def _inputs(a, b, c, al, be, ga, trig):
    ca, cb, cg, sa, sb, sg = trig
    return {"a": a, "b": b, "c": c, "cos_alpha": ca, "cos_beta": cb, "cos_gamma": cg}


def _angles_from_cos(vals):
    out = dict(vals)
    for k in ("alpha", "beta", "gamma"):
        cv = vals.get("cos_" + k)
        out[k] = math.degrees(math.acos(max(-1.0, min(1.0, cv)))) if cv is not None else None
    return out


def _replay_forward(name, vals):
    """float replay through the public API: build vectors from (lengths, angles) and re-check the named identity"""
    v = _angles_from_cos(vals)
    script = f'''
import numpy as np, sys, math
from mdtraj.utils.unitcell import lengths_and_angles_to_box_vectors as f, box_vectors_to_lengths_and_angles as g
a, b, c, al, be, ga = {v["a"]!r}, {v["b"]!r}, {v["c"]!r}, {v["alpha"]!r}, {v["beta"]!r}, {v["gamma"]!r}
A, B, C = f(a, b, c, al, be, ga)
cos = lambda d: math.cos(math.radians(d))
err = max(abs(np.dot(A, A) - a * a), abs(np.dot(B, B) - b * b), abs(np.dot(C, C) - c * c),
          abs(np.dot(B, C) - b * c * cos(al)), abs(np.dot(C, A) - c * a * cos(be)), abs(np.dot(A, B) - a * b * cos(ga)),
          abs(A[1]), abs(A[2]), abs(B[2]), max(0.0, -C[2]), max(0.0, -B[1]), max(0.0, -A[0]))
l = g(A, B, C)
err = max(err, abs(l[0] - a), abs(l[1] - b), abs(l[2] - c), abs(l[3] - al) * 1e-2, abs(l[4] - be) * 1e-2, abs(l[5] - ga) * 1e-2)
vol = abs(np.linalg.det(np.array([A, B, C])))
gram = 1 - cos(al) ** 2 - cos(be) ** 2 - cos(ga) ** 2 + 2 * cos(al) * cos(be) * cos(ga)
err = max(err, abs(vol - a * b * c * math.sqrt(max(gram, 0))))
print("goal {name}: max deviation", err)
sys.exit(1 if err > 5e-4 else 0)
'''
    import subprocess, sys as _s, tempfile
    with tempfile.NamedTemporaryFile("w", suffix=".py", delete=False) as fh:
        fh.write(script)
    r = subprocess.run([_s.executable, fh.name], capture_output=True, text=True)
    return r.returncode == 1, script, name.split("[")[0]


def _replay_roundtrip(rot):
    """float replay of the ROTATED round trip through the public API: vectors of the cell, rotated, handed to the Trajectory setter and to
    box_vectors_to_lengths_and_angles; lengths and angles must come back"""
    def rep(name, vals):
        v = _angles_from_cos(vals)
        script = f'''
import numpy as np, sys, mdtraj as md
from mdtraj.utils.unitcell import lengths_and_angles_to_box_vectors as f, box_vectors_to_lengths_and_angles as g
a, b, c, al, be, ga = {v["a"]!r}, {v["b"]!r}, {v["c"]!r}, {v["alpha"]!r}, {v["beta"]!r}, {v["gamma"]!r}
R = np.array({ROTS[rot]!r}, dtype=float)
V = np.array(f(a, b, c, al, be, ga)) @ R.T
l = g(*V)
t = md.Trajectory(np.zeros((1, 1, 3), dtype=np.float32), None); t.unitcell_vectors = V[None].astype(np.float32)
got2 = list(t.unitcell_lengths[0]) + list(t.unitcell_angles[0])
err = max(abs(l[0] - a), abs(l[1] - b), abs(l[2] - c), abs(l[3] - al) * 1e-2, abs(l[4] - be) * 1e-2, abs(l[5] - ga) * 1e-2)
err = max(err, max(abs(x - y) * (1 if k < 3 else 1e-2) for k, (x, y) in enumerate(zip(got2, (a, b, c, al, be, ga)))))
print("goal {name}: cell", (a, b, c, al, be, ga), "rotated description read back as", [round(float(x), 4) for x in l], "deviation", err)
sys.exit(1 if err > 5e-4 else 0)
'''
        import subprocess, sys as _s, tempfile
        with tempfile.NamedTemporaryFile("w", suffix=".py", delete=False) as fh:
            fh.write(script)
        r = subprocess.run([_s.executable, fh.name], capture_output=True, text=True)
        return r.returncode == 1, script + "\n# " + (r.stdout + r.stderr)[-400:].replace("\n", "\n# "), name.split("[")[0]
    return rep


def _radicand_lemma(G, prem, c, trig, gram, inp, i, tag="", cell=0):
    """algebraic lemma (proved by the solver, then used): for the sqrt the code takes for c_z,
    radicand * sin(gamma)^2 == c^2 * Gram, hence radicand >= c^2 * Gram (sin^2 <= 1)."""
    sg = tz(trig[5])
    sq = [var for key, var in S.CTX.cache.items() if key[0] == "sqrt"]
    for var in sq[cell:cell + 1]:       # the cell-th sqrt created is c_z of that cell (creation order = execution order)
        rad = S.CTX.fn_args[var.get_id()][1]
        prem = G.lemma(f"radicand_identity{tag}[{i}]", prem, rad * sg * sg == tz(c) * tz(c) * gram, inp)
        prem = G.lemma(f"radicand_bound{tag}[{i}]", prem, rad >= S.rat(1e-4), inp)
        prem = G.lemma(f"sqrt_bound{tag}[{i}]", prem, var >= S.rat(1e-2), inp)
    return prem


def _replay_volume(name, vals):
    """float replay through the public Trajectory API: unitcell_volumes / unitcell_vectors against the closed forms"""
    v = _angles_from_cos(vals)
    script = f'''
import numpy as np, sys, math
import mdtraj as md
a, b, c, al, be, ga = {v["a"]!r}, {v["b"]!r}, {v["c"]!r}, {v["alpha"]!r}, {v["beta"]!r}, {v["gamma"]!r}
t = md.Trajectory(np.zeros((2, 1, 3), dtype=np.float32), None)
t.unitcell_lengths = np.array([[a, b, c], [c, a, b]]); t.unitcell_angles = np.array([[al, be, ga], [ga, al, be]])
cos = lambda d: math.cos(math.radians(d))
def vol(a, b, c, al, be, ga):
    return a * b * c * math.sqrt(max(1 - cos(al) ** 2 - cos(be) ** 2 - cos(ga) ** 2 + 2 * cos(al) * cos(be) * cos(ga), 0.0))
want = [vol(a, b, c, al, be, ga), vol(c, a, b, ga, al, be)]
got = t.unitcell_volumes
V = t.unitcell_vectors
err = max(abs(got[i] - want[i]) / max(want[i], 1e-9) for i in range(2))
for f, L in enumerate(([a, b, c], [c, a, b])):
    for k in range(3):
        err = max(err, abs(np.linalg.norm(V[f, k]) - L[k]) / L[k])
print("goal {name}: volumes", list(got), "closed form", want, "max relative deviation", err)
sys.exit(1 if (not np.all(np.isfinite(got))) or err > 1e-3 else 0)
'''
    import subprocess, sys as _s, tempfile
    with tempfile.NamedTemporaryFile("w", suffix=".py", delete=False) as fh:
        fh.write(script)
    r = subprocess.run([_s.executable, fh.name], capture_output=True, text=True)
    return r.returncode == 1, script, name.split("[")[0]


# ------------------------------------------------------------------ obligations

def forward():
    """lengths_and_angles_to_box_vectors: norms, each angle with ITS pair, standard orientation, side conditions"""
    S.new_ctx(timeout_ms=60000)
    _install()
    a, b, c, al, be, ga = _cell_syms()
    P, trig, gram = _premises(a, b, c, al, be, ga)
    ca, cb, cg, sa, sb, sg = trig
    S.CTX.cons += P
    paths = S.explore(lambda: _uc.lengths_and_angles_to_box_vectors(a, b, c, al, be, ga))
    G = Goals(60000)
    inp = _inputs(a, b, c, al, be, ga, trig)
    for i, (path, cons, assumed, (A, B, C)) in enumerate(paths):
        prem = cons + path
        for k, cond in enumerate(assumed):
            G.add(f"side_condition[{i}.{k}]", prem, cond, inp)          # sqrt argument >= 0, sin(gamma) != 0 ...
        prem = _radicand_lemma(G, prem + assumed, c, trig, gram, inp, i)
        for k, ob in enumerate(S.CTX.snap_obligations):
            G.add(f"cleanup_bound[{i}.{k}]", prem, ob, inp)
        G.add(f"norm_a[{i}]", prem, S.close(_dot(A, A), a * a, TOL), inp)
        G.add(f"norm_b[{i}]", prem, S.close(_dot(B, B), b * b, TOL), inp)
        G.add(f"norm_c[{i}]", prem, S.close(_dot(C, C), c * c, TOL), inp)
        G.add(f"alpha_is_angle_b_c[{i}]", prem, S.close(_dot(B, C), b * c * ca, TOL), inp)
        G.add(f"beta_is_angle_c_a[{i}]", prem, S.close(_dot(C, A), c * a * cb, TOL), inp)
        G.add(f"gamma_is_angle_a_b[{i}]", prem, S.close(_dot(A, B), a * b * cg, TOL), inp)
        G.add(f"orientation[{i}]", prem, z3.And(tz(A[1]) == 0, tz(A[2]) == 0, tz(B[2]) == 0, tz(A[0]) > 0, tz(B[1]) > 0, tz(C[2]) > 0), inp)
    r = G.run(_replay_forward)
    r["paths"] = len(paths)
    return r


def forward_concrete(alpha: float = 5.0, beta: float = 5.0, gamma: float = 5.0):
    """the same identities for CONCRETE angles and symbolic lengths -- reaches cells outside the symbolic angle range of `forward`, in particular
    needle-shaped cells whose three angles are all below 2 pi DEGREES (where the 'did you pass radians?' warning branch is taken)"""
    S.new_ctx(timeout_ms=60000)
    _install()
    a, b, c = sym("a"), sym("b"), sym("c")
    S.CTX.cons += [tz(x) >= S.rat(0.1) for x in (a, b, c)] + [tz(x) <= 100 for x in (a, b, c)]
    paths = S.explore(lambda: _uc.lengths_and_angles_to_box_vectors(a, b, c, float(alpha), float(beta), float(gamma)))
    G = Goals(60000)
    ca, cb, cg = (S.rat(math.cos(math.radians(x))) for x in (alpha, beta, gamma))
    tol = z3.RealVal("1/100000")
    inp = {"a": a, "b": b, "c": c}
    for i, (path, cons, assumed, (A, B, C)) in enumerate(paths):
        prem = cons + path + assumed
        G.add(f"norm_a[{i}]", prem, S.close(_dot(A, A), a * a, tol, tol), inp)
        G.add(f"norm_b[{i}]", prem, S.close(_dot(B, B), b * b, tol, tol), inp)
        G.add(f"norm_c[{i}]", prem, S.close(_dot(C, C), c * c, tol, tol), inp)
        G.add(f"alpha_is_angle_b_c[{i}]", prem, S.close(_dot(B, C), tz(b) * tz(c) * ca, tol, tol), inp)
        G.add(f"beta_is_angle_c_a[{i}]", prem, S.close(_dot(C, A), tz(c) * tz(a) * cb, tol, tol), inp)
        G.add(f"gamma_is_angle_a_b[{i}]", prem, S.close(_dot(A, B), tz(a) * tz(b) * cg, tol, tol), inp)
        G.add(f"orientation[{i}]", prem, z3.And(tz(A[1]) == 0, tz(A[2]) == 0, tz(B[2]) == 0, tz(A[0]) > 0, tz(B[1]) > 0, tz(C[2]) > 0), inp)

    def rep(name, vals):
        v = {"a": vals.get("a") or 1.0, "b": vals.get("b") or 1.5, "c": vals.get("c") or 2.0, "cos_alpha": math.cos(math.radians(alpha)), "cos_beta": math.cos(math.radians(beta)), "cos_gamma": math.cos(math.radians(gamma))}
        return _replay_forward(name, v)
    r = G.run(rep)
    r["paths"] = len(paths)
    return r


def volume():
    """Trajectory.unitcell_volumes equals a b c sqrt(Gram) (closed form typed in independently), per frame"""
    S.new_ctx(timeout_ms=90000)
    _install()
    n = 2
    cells = [_cell_syms(str(f)) for f in range(n)]
    t = _tr.Trajectory.__new__(_tr.Trajectory)
    t._xyz = _np.zeros((n, 1, 3), dtype=_np.float32)
    t._topology, t._time, t._rmsd_traces = None, _np.arange(n), None
    t._unitcell_lengths = _np.array([[cl[0], cl[1], cl[2]] for cl in cells], dtype=object).view(S.SA)
    t._unitcell_angles = _np.array([[cl[3], cl[4], cl[5]] for cl in cells], dtype=object).view(S.SA)
    P, inp = [], {}
    trigs = []
    for f, cl in enumerate(cells):
        p, trig, gram = _premises(*cl, lmax=10)
        P += p
        trigs.append((trig, gram))
        if f == 0:
            inp = _inputs(*cl, trig)
    S.CTX.cons += P
    paths = S.explore(lambda: (t.unitcell_volumes, t.unitcell_vectors))
    G = Goals(90000)
    for i, (path, cons, assumed, (vols, vecs)) in enumerate(paths):
        prem = cons + path + assumed
        for f, cl in enumerate(cells):
            prem = _radicand_lemma(G, prem, cl[2], trigs[f][0], trigs[f][1], inp, i, tag=f"_f{f}", cell=f)
        for k, ob in enumerate(S.CTX.snap_obligations):
            G.add(f"cleanup_bound[{i}.{k}]", prem, ob, inp)
        sq = [var for key, var in S.CTX.cache.items() if key[0] == "sqrt"]
        for f, cl in enumerate(cells):
            a, b, c = cl[:3]
            gram = trigs[f][1]
            V = vols[f]
            prem = G.lemma(f"det_is_triangular_product[{i}.f{f}]", prem, tz(V) == tz(a) * tz(b) * tz(trigs[f][0][5]) * sq[f], inp)
            abc = tz(a) * tz(b) * tz(c)
            rad = S.CTX.fn_args[sq[f].get_id()][1]
            sgf = tz(trigs[f][0][5])
            prem = G.lemma(f"volume_sq_step1[{i}.f{f}]", prem, tz(V) * tz(V) == tz(a) * tz(a) * tz(b) * tz(b) * (sgf * sgf * rad), inp)
            G.add(f"volume_sq[{i}.f{f}]", prem, tz(V) * tz(V) == abc * abc * gram, inp)
            G.add(f"volume_positive[{i}.f{f}]", prem, tz(V) > 0, inp)
            # the getter's row k is the k-th box vector (a, b, c order): |row k| is the k-th length
            for k in range(3):
                row = vecs[f, k]
                G.add(f"vectors_row{k}_is_length{k}[{i}.f{f}]", prem, S.close(_dot(row, row), cl[k] * cl[k], TOL), inp)
    r = G.run(_replay_volume)
    r["paths"] = len(paths)
    return r


def _set_vectors_read_back(R, n_frames=1):
    """t.unitcell_vectors = R . [A;B;C]  ->  lengths, named acos arguments of the stored angles, volume"""
    Rq = [[S.rat(x) for x in row] for row in R]
    cells = [_cell_syms(str(f)) for f in range(n_frames)]
    P, vec, trigs, grams = [], [], [], []
    for cl in cells:
        p, trig, gram = _premises(*cl, lmax=10)
        P += p
        trigs.append(trig)
        grams.append(gram)
    t = _tr.Trajectory.__new__(_tr.Trajectory)
    t._xyz = _np.zeros((n_frames, 1, 3), dtype=_np.float32)
    t._topology, t._time, t._rmsd_traces = None, _np.arange(n_frames), None
    t._unitcell_lengths = t._unitcell_angles = None

    def run():
        rows = []
        for cl in cells:
            A, B, C = _uc.lengths_and_angles_to_box_vectors(*cl)
            rot = lambda v: [Sym(sum(Rq[i][j] * tz(v[j]) for j in range(3))) for i in range(3)]
            rows.append([rot(A), rot(B), rot(C)])
        t.unitcell_vectors = _np.array(rows, dtype=object).view(S.SA)
        return t.unitcell_lengths, t.unitcell_angles
    return cells, P, trigs, grams, t, run


def roundtrip(rot: int = 0):
    """setting the vectors from a rotated description and reading back gives the cell's own lengths and angles:
    lengths equal; each stored angle is (180/pi) * acos(x) with x provably equal to cos of the ORIGINAL angle of the
    right pair; acos(cos t) = t on [0, pi] (trusted axiom) then gives the angle itself."""
    S.new_ctx(timeout_ms=90000)
    _install()
    cells, P, trigs, grams, t, run = _set_vectors_read_back(ROTS_Q[rot])
    S.CTX.cons += P
    paths = S.explore(run)
    G = Goals(90000)
    a, b, c, al, be, ga = cells[0]
    inp = _inputs(*cells[0], trigs[0])
    ca, cb, cg = trigs[0][:3]
    n_ok = 0
    for i, (path, cons, assumed, (L, ANG)) in enumerate(paths):
        prem = cons + path
        if L is None:
            G.add(f"cell_not_dropped[{i}]", prem, z3.BoolVal(False), inp)   # a valid cell must never be read as 'no cell'
            continue
        n_ok += 1
        for k, cond in enumerate(assumed):
            G.add(f"side_condition[{i}.{k}]", prem, cond, inp)
        prem = _radicand_lemma(G, prem + assumed, c, trigs[0], grams[0], inp, i)
        for k, ob in enumerate(S.CTX.snap_obligations):
            G.add(f"cleanup_bound[{i}.{k}]", prem, ob, inp)
        for k, (name, want) in enumerate((("a", a), ("b", b), ("c", c))):
            prem = G.lemma(f"length_{name}[{i}]", prem, tz(L[0, k]) == tz(want), inp)
        for k, (name, want_cos) in enumerate((("alpha", ca), ("beta", cb), ("gamma", cg))):
            # stored angle must be  acos(arg) * 180/pi ; compare arg with the named cosine of the original angle
            e = tz(ANG[0, k])
            v = [x for x in _acos_vars(e)]
            if len(v) != 1:
                G.add(f"angle_{name}_shape[{i}]", prem, z3.BoolVal(False), inp)
                continue
            var, arg = v[0]
            G.add(f"angle_{name}_is_deg_acos[{i}]", prem, e == var * S.rat(180.0) / S.PI, inp)
            G.add(f"angle_{name}_arg_is_cos_{name}[{i}]", prem, S.close(arg, want_cos, z3.RealVal("1/10000")), inp)
    r = G.run(_replay_roundtrip(rot))
    r["paths"] = len(paths)
    r["rotation"] = ROTS[rot]
    if n_ok == 0 and r["status"] == "holds":
        r["status"] = "inconclusive"
    return r


def _acos_vars(e):
    out, seen, todo = [], set(), [e]
    while todo:
        x = todo.pop()
        if x.get_id() in seen:
            continue
        seen.add(x.get_id())
        fa = S.CTX.fn_args.get(x.get_id())
        if fa and fa[0] == "acos":
            out.append((x, fa[1]))
        todo.extend(x.children())
    return out


def zero_vectors_mean_no_cell():
    """unitcell_vectors = None or all-zero -> no cell; anything else with a valid cell -> a cell; never half a cell"""
    S.new_ctx(timeout_ms=30000)
    _install()
    t = _tr.Trajectory.__new__(_tr.Trajectory)
    t._xyz = _np.zeros((1, 1, 3), dtype=_np.float32)
    t._topology, t._time, t._rmsd_traces = None, _np.arange(1), None
    t._unitcell_lengths = _np.ones((1, 3))
    t._unitcell_angles = _np.full((1, 3), 90.0)
    v = S.sym_array("v", (1, 3, 3))

    def run():
        t._unitcell_lengths = _np.ones((1, 3))
        t._unitcell_angles = _np.full((1, 3), 90.0)
        t.unitcell_vectors = v
        return (t._unitcell_lengths is None, t._unitcell_angles is None)
    paths = S.explore(run)
    G = Goals(30000)
    allzero = z3.And([tz(x) == 0 for x in v.flat])
    anybig = z3.Or([z3.Or(tz(x) >= S.rat(1e-15), tz(x) <= -S.rat(1e-15)) for x in v.flat])
    inp = {f"v{i}": x for i, x in enumerate(v.flat)}
    for i, (path, cons, assumed, (ln, an)) in enumerate(paths):
        G.add(f"both_or_neither[{i}]", path + cons, z3.BoolVal(ln == an), inp)
        if ln:
            G.add(f"dropped_only_if_tiny[{i}]", path + cons, z3.Not(anybig), inp)
        else:
            G.add(f"kept_unless_all_zero[{i}]", path + cons, z3.Not(allzero), inp)
    t.unitcell_vectors = None
    G.add("none_clears", [], z3.BoolVal(t._unitcell_lengths is None and t._unitcell_angles is None), {})
    from harness import c16_replay
    r = G.run(c16_replay.replay("zero_vectors"))
    r["paths"] = len(paths)
    return r
