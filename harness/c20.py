"""C20 — no modification of an existing file unless force_overwrite.  The real constructors (mode 'w') of the
Python file classes, utils.zipped.open_maybe_zipped, trajectory.open and every Trajectory.save_* run under
CrossHair with the file system replaced by a recorder: `exists` and `force_overwrite` (and the extension /
frame count where relevant) are symbolic; every call that could modify a file is logged in order."""
import vtlib.xhfix  # noqa: F401
import os as _os
import sys
import types

import numpy as np

import mdtraj.core.trajectory as _tr
import mdtraj.formats.amberrst as _rst
import mdtraj.formats.gro as _gro
import mdtraj.formats.hdf5 as _h5
import mdtraj.formats.lammpstrj as _lmp
import mdtraj.formats.lh5 as _lh5
import mdtraj.formats.mdcrd as _mdcrd
import mdtraj.formats.netcdf as _nc
import mdtraj.formats.pdb.pdbfile as _pdb
import mdtraj.formats.xyzfile as _xyz
import mdtraj.utils.zipped as _zip
from mdtraj.core import element as _el
from mdtraj.core.topology import Topology
from vtlib.xhfix import conc

WRITE_MODES = ("w", "a", "+", "x")


class FS:
    """Recorder standing for the file system.  `exists(path)` is answered from `existing` (a predicate)."""

    def __init__(self, existing):
        self.existing = existing
        self.log = []            # (kind, path, mode) of potentially modifying calls, in order
        self.checks = []         # paths whose existence was queried

    # --- os / os.path
    def exists(self, path):
        self.checks.append(str(path))
        return self.existing(str(path))

    def destructive(self):
        return [e for e in self.log]

    # --- builtins.open
    def open(self, path, mode="r", *a, **k):
        if any(c in mode for c in WRITE_MODES):
            self.log.append(("open", str(path), mode))
        return _Sink()

    def opener(self, kind):
        def f(path, mode="r", *a, **k):
            if any(c in mode for c in WRITE_MODES):
                self.log.append((kind, str(path), mode))
            return _Sink()
        return f

    def remover(self, kind):
        def f(path, *a, **k):
            self.log.append((kind, str(path), "-"))
        return f


class _Sink:
    """what an opened-for-write handle looks like to the constructors"""
    root = None

    def __getattr__(self, n):
        if n.startswith("__"):
            raise AttributeError(n)
        return lambda *a, **k: None

    def __enter__(self):
        return self

    def __exit__(self, *e):
        return False


class _FakePath:
    def __init__(self, fs):
        self._fs = fs

    def exists(self, p):
        return self._fs.exists(p)

    def isfile(self, p):
        return self._fs.exists(p)

    def __getattr__(self, n):
        return getattr(_os.path, n)


class _FakeOS:
    def __init__(self, fs):
        self._fs = fs
        self.path = _FakePath(fs)
        self.unlink = fs.remover("unlink")
        self.remove = fs.remover("remove")
        self.rename = fs.remover("rename")
        self.replace = fs.remover("replace")

    def open(self, path, flags, mode=0o777, **k):
        # low-level open: modelled as the mode string it amounts to ('x' exclusive create, 'w' truncating, '+' in-place update without truncation)
        if flags & (_os.O_WRONLY | _os.O_RDWR | _os.O_CREAT | _os.O_TRUNC | _os.O_APPEND):
            if (flags & _os.O_EXCL) and self._fs.existing(str(path)):
                raise FileExistsError(str(path))
            kind = "a" if flags & _os.O_APPEND else "w" if (flags & _os.O_TRUNC or not self._fs.existing(str(path))) else "r+"
            self._fs.log.append(("os.open", str(path), kind))
        return 3

    def fdopen(self, fd, *a, **k):
        return _Sink()

    def __getattr__(self, n):
        return getattr(_os, n)


def _fake_tables(fs):
    m = types.SimpleNamespace()
    m.open_file = fs.opener("tables.open_file")
    m.Filters = lambda **k: None
    m.NoSuchNodeError = KeyError
    return m


def _install(fs):
    fos = _FakeOS(fs)
    for m in (_h5, _nc, _mdcrd, _xyz, _lmp, _gro, _pdb, _rst, _lh5, _zip):
        if hasattr(m, "os"):
            m.os = fos
        m.open = fs.open      # (trajectory.py defines md.open itself and never calls the builtin)
    _tr.os = fos
    _zip.gzip = types.SimpleNamespace(GzipFile=fs.opener("gzip.GzipFile"))
    _zip.bz2 = types.SimpleNamespace(BZ2File=fs.opener("bz2.BZ2File"))
    _zip.io = types.SimpleNamespace(TextIOWrapper=lambda fh, **k: fh)
    tables = _fake_tables(fs)
    imp = lambda name: tables if name == "tables" else (
        types.SimpleNamespace(netcdf_file=fs.opener("scipy.netcdf_file"), short_version="1.11.0") if name in ("scipy.io", "scipy.version") else __import__(name))
    for m in (_h5, _lh5, _rst):
        m.import_ = imp
    nc4 = types.ModuleType("netCDF4")

    def Dataset(path, mode="r", clobber=True, **k):
        if any(c in mode for c in WRITE_MODES):
            fs.log.append(("netCDF4.Dataset", str(path), mode + (":clobber" if clobber else ":noclobber")))
        return _Sink()
    nc4.Dataset = Dataset
    sys.modules["netCDF4"] = nc4


ALT_EXT = {"f.h5": "f.hdf5", "f.nc": "f.netcdf", "f.mdcrd": "f.crd", "f.ncrst": "f.rst", "f.rst7": "f.inpcrd"}


def _ctor(cls, name, exists, force, upper=False, ext=0, **kw):
    # the protection must not depend on how the file is called: 1 = another customary extension of the format, 2 = a foreign extension, 3 = none
    if ext == 1:
        name = ALT_EXT.get(name, name)
    elif ext == 2 and not name.endswith(".gz"):
        name = name.rsplit(".", 1)[0] + ".dat"
    elif ext == 3 and not name.endswith(".gz"):
        name = name.rsplit(".", 1)[0]
    if upper:                      # the target path is case-sensitive and may contain directories
        name = "Dir_A/" + name[0].upper() + name[1:]
    fs = FS(lambda p: exists and p == name)    # only the EXACT target path exists
    _install(fs)
    try:
        cls(name, mode="w", force_overwrite=force, **kw)
        raised = False
    except OSError:
        raised = True
    if exists and not force:
        return raised and fs.log == []
    # otherwise the file is (re)created: exactly truncating opens, never append / update
    return (not raised) and len(fs.log) >= 1 and all(("a" not in e[2].split(":")[0] and "+" not in e[2]) for e in fs.log) \
        and all(e[1] == name for e in fs.log)


_CLASSES = {
    "h5": (_h5.HDF5TrajectoryFile, "f.h5", {}), "nc": (_nc.NetCDFTrajectoryFile, "f.nc", {}),
    "mdcrd": (_mdcrd.MDCRDTrajectoryFile, "f.mdcrd", {}), "xyz": (_xyz.XYZTrajectoryFile, "f.xyz", {}),
    "xyzgz": (_xyz.XYZTrajectoryFile, "f.xyz.gz", {}), "lammpstrj": (_lmp.LAMMPSTrajectoryFile, "f.lammpstrj", {}),
    "gro": (_gro.GroTrajectoryFile, "f.gro", {}), "pdb": (_pdb.PDBTrajectoryFile, "f.pdb", {}),
    "pdbgz": (_pdb.PDBTrajectoryFile, "f.pdb.gz", {}), "rst7": (_rst.AmberRestartFile, "f.rst7", {}),
    "ncrst": (_rst.AmberNetCDFRestartFile, "f.ncrst", {}), "lh5": (_lh5.LH5TrajectoryFile, "f.lh5", {}),
}


def ctor_h5(exists: bool, force: bool, upper: bool, ext: int = 0) -> bool:
    """
    pre: 0 <= ext <= 3
    post: __return__
    """
    return _ctor(*_CLASSES["h5"][:2], exists, force, upper, ext=conc(ext, 0, 3))


def ctor_nc(exists: bool, force: bool, upper: bool, ext: int = 0) -> bool:
    """
    pre: 0 <= ext <= 3
    post: __return__
    """
    return _ctor(*_CLASSES["nc"][:2], exists, force, upper, ext=conc(ext, 0, 3))


def ctor_mdcrd(exists: bool, force: bool, upper: bool, ext: int = 0) -> bool:
    """
    pre: 0 <= ext <= 3
    post: __return__
    """
    return _ctor(*_CLASSES["mdcrd"][:2], exists, force, upper, ext=conc(ext, 0, 3))


def ctor_xyz(exists: bool, force: bool, gz: bool, upper: bool, ext: int = 0) -> bool:
    """
    pre: 0 <= ext <= 3
    post: __return__
    """
    return _ctor(*_CLASSES["xyzgz" if gz else "xyz"][:2], exists, force, upper, ext=conc(ext, 0, 3))


def ctor_lammpstrj(exists: bool, force: bool, upper: bool, ext: int = 0) -> bool:
    """
    pre: 0 <= ext <= 3
    post: __return__
    """
    return _ctor(*_CLASSES["lammpstrj"][:2], exists, force, upper, ext=conc(ext, 0, 3))


def ctor_gro(exists: bool, force: bool, upper: bool, ext: int = 0) -> bool:
    """
    pre: 0 <= ext <= 3
    post: __return__
    """
    return _ctor(*_CLASSES["gro"][:2], exists, force, upper, ext=conc(ext, 0, 3))


def ctor_pdb(exists: bool, force: bool, gz: bool, upper: bool, ext: int = 0) -> bool:
    """
    pre: 0 <= ext <= 3
    post: __return__
    """
    return _ctor(*_CLASSES["pdbgz" if gz else "pdb"][:2], exists, force, upper, ext=conc(ext, 0, 3))


def ctor_rst7(exists: bool, force: bool, upper: bool, ext: int = 0) -> bool:
    """
    pre: 0 <= ext <= 3
    post: __return__
    """
    return _ctor(*_CLASSES["rst7"][:2], exists, force, upper, ext=conc(ext, 0, 3))


def ctor_ncrst(exists: bool, force: bool, upper: bool, ext: int = 0) -> bool:
    """
    pre: 0 <= ext <= 3
    post: __return__
    """
    return _ctor(*_CLASSES["ncrst"][:2], exists, force, upper, ext=conc(ext, 0, 3))


def ctor_lh5(exists: bool, force: bool, upper: bool, ext: int = 0) -> bool:
    """
    pre: 0 <= ext <= 3
    post: __return__
    """
    return _ctor(*_CLASSES["lh5"][:2], exists, force, upper, ext=conc(ext, 0, 3))


def open_maybe_zipped_w(exists: bool, force: bool, ext: int, upper: bool) -> bool:
    """
    pre: 0 <= ext <= 2
    post: __return__
    """
    name = ("Dir_A/File.TXT" if upper else "f.txt") + ("", ".gz", ".bz2")[conc(ext, 0, 2)]
    fs = FS(lambda p: exists and p == name)
    _install(fs)
    try:
        _zip.open_maybe_zipped(name, "w", force_overwrite=force)
        raised = False
    except OSError:
        raised = True
    if exists and not force:
        return raised and fs.log == []
    return (not raised) and len(fs.log) == 1 and fs.log[0][2] in ("w", "wb") and fs.log[0][1] == name


# ------------------------------------------------------------------ md.open and Trajectory.save*: the flag reaches the class

class _Rec:
    """Recorder class standing for a file class: captures constructor arguments, accepts write()."""
    calls = []
    distance_unit = "angstroms"

    def __init__(self, filename, mode="r", force_overwrite=True, **kw):
        _Rec.calls.append((str(filename), mode, force_overwrite))
        if _Rec.fs is not None and mode == "w" and (not force_overwrite) and _Rec.fs.exists(filename):
            raise OSError("exists")      # the contract of every file class (proved per class by ctor_*)
        if _Rec.fs is not None and mode == "w":
            _Rec.fs.log.append(("create", str(filename), mode))

    fs = None

    def __enter__(self):
        return self

    def __exit__(self, *e):
        return False

    def write(self, *a, **k):
        pass

    def __getattr__(self, n):
        if n.startswith("__"):
            raise AttributeError(n)
        return lambda *a, **k: None


def _traj(n_frames):
    top = Topology()
    c = top.add_chain()
    r = top.add_residue("ALA", c)
    for i in range(2):
        top.add_atom("C%d" % i, _el.carbon, r)
    xyz = np.zeros((n_frames, 2, 3), dtype=np.float32)
    return _tr.Trajectory(xyz, top, time=np.arange(n_frames, dtype=np.float32),
                          unitcell_lengths=np.ones((n_frames, 3), dtype=np.float32), unitcell_angles=np.full((n_frames, 3), 90.0, dtype=np.float32))


_T1, _T3 = _traj(1), _traj(3)
_SAVE_CLASSES = ["HDF5TrajectoryFile", "LAMMPSTrajectoryFile", "XYZTrajectoryFile", "PDBTrajectoryFile", "XTCTrajectoryFile",
                 "TRRTrajectoryFile", "DCDTrajectoryFile", "DTRTrajectoryFile", "MDCRDTrajectoryFile", "NetCDFTrajectoryFile",
                 "AmberNetCDFRestartFile", "AmberRestartFile", "LH5TrajectoryFile", "GroTrajectoryFile"]
EXTS = [".xtc", ".trr", ".pdb", ".pdb.gz", ".dcd", ".h5", ".nc", ".netcdf", ".ncdf", ".ncrst", ".crd", ".mdcrd", ".lammpstrj",
        ".xyz", ".xyz.gz", ".gro", ".rst7", ".dtr", ".lh5"]


def save_passes_flag(ext: int, force: bool, multi: bool) -> bool:
    """
    pre: 0 <= ext < 19
    post: __return__
    """
    ext = conc(ext, 0, 18)
    _Rec.calls = []
    _Rec.fs = None
    for c in _SAVE_CLASSES:
        setattr(_tr, c, _Rec)
    t = _T3 if multi else _T1
    name = "out" + EXTS[ext]
    t.save(name, force_overwrite=force)
    calls = _Rec.calls
    if not calls:
        return False
    if any(c[1] != "w" or c[2] is not force for c in calls):
        return False
    if EXTS[ext] in (".ncrst", ".rst7") and multi:
        return [c[0] for c in calls] == ["%s.%d" % (name, i + 1) for i in range(3)]
    return [c[0] for c in calls] == [name]


_SAVERS = ["save_hdf5", "save_lammpstrj", "save_xyz", "save_pdb", "save_xtc", "save_trr", "save_dcd", "save_dtr", "save_mdcrd", "save_netcdf", "save_netcdfrst", "save_amberrst7", "save_lh5", "save_gro"]


def save_positional_flag(which: int, force: bool) -> bool:
    """
    pre: 0 <= which < 14
    post: __return__
    """
    # every save_<fmt>(filename, force_overwrite) documents force_overwrite as its SECOND parameter (save_hdf5: third, after mode):
    # a positional call must reach the file class as force_overwrite, nothing else
    which = conc(which, 0, 13)
    _Rec.calls = []
    _Rec.fs = None
    for c in _SAVE_CLASSES:
        setattr(_tr, c, _Rec)
    name = "out.bin"
    fn = getattr(_T1, _SAVERS[which])
    if _SAVERS[which] == "save_hdf5":
        fn(name, "w", force)
    else:
        fn(name, force)
    calls = _Rec.calls
    return bool(calls) and all(c[1] == "w" and c[2] is force for c in calls)


def save_restart_no_clobber(which: bool, n: int, e1: bool, e2: bool, e3: bool) -> bool:
    """
    pre: 2 <= n <= 3
    post: __return__
    """
    n = conc(n, 2, 3)
    ext = ".ncrst" if which else ".rst7"
    name = "out" + ext
    existing = {name + ".1": e1, name + ".2": e2, name + ".3": e3 and n == 3}
    fs = FS(lambda p: existing.get(p, False))
    _Rec.calls = []
    _Rec.fs = fs
    for c in _SAVE_CLASSES:
        setattr(_tr, c, _Rec)
    _tr.os = _FakeOS(fs)
    t = _traj(n)
    try:
        t.save(name, force_overwrite=False)
        raised = False
    except OSError:
        raised = True
    touched = [e[1] for e in fs.log]
    # never touch a numbered file that existed; raise iff one of them existed
    return all(not existing.get(p, False) for p in touched) and raised == any(existing[name + ".%d" % (i + 1)] for i in range(n))


def md_open_passes_flag(ext: int, force: bool) -> bool:
    """
    pre: 0 <= ext < 19
    post: __return__
    """
    ext = conc(ext, 0, 18)
    _Rec.calls = []
    _Rec.fs = None
    saved = dict(_tr.FormatRegistry.fileobjects)
    try:
        for k in list(_tr.FormatRegistry.fileobjects):
            _tr.FormatRegistry.fileobjects[k] = _Rec
        if EXTS[ext] not in _tr.FormatRegistry.fileobjects:
            return True
        _tr.open("out" + EXTS[ext], "w", force_overwrite=force)
    finally:
        _tr.FormatRegistry.fileobjects.clear()
        _tr.FormatRegistry.fileobjects.update(saved)
    return _Rec.calls == [("out" + EXTS[ext], "w", force)]


def save_gsd_check(exists: bool, force: bool) -> bool:
    """
    post: __return__
    """
    fs = FS(lambda p: exists)
    _tr.os = _FakeOS(fs)
    wrote = []
    _tr.write_gsd = lambda filename, *a, **k: wrote.append(filename)
    try:
        _T1.save_gsd("out.gsd", force_overwrite=force)
        raised = False
    except OSError:
        raised = True
    if exists and not force:
        return raised and wrote == []
    return (not raised) and wrote == ["out.gsd"]


# ------------------------------------------------------------------ read entry points never open for writing

def read_ctor_readonly(which: int) -> bool:
    """
    pre: 0 <= which <= 5
    post: __return__
    """
    which = conc(which, 0, 5)
    fs = FS(lambda p: True)
    _install(fs)
    # readers get a text/bytes source; only the modes of the opens matter here
    import io
    fs.open = lambda path, mode="r", *a, **k: (fs.log.append(("open", str(path), mode)) if any(c in mode for c in WRITE_MODES) else None) or (
        io.BytesIO(b"t\n") if "b" in mode else io.StringIO("1\nc\nX 0 0 0\n"))
    for m in (_mdcrd, _xyz, _lmp, _zip, _rst):
        m.open = fs.open
    try:
        if which == 0:
            _mdcrd.MDCRDTrajectoryFile("f.mdcrd", n_atoms=1, mode="r")
        elif which == 1:
            _xyz.XYZTrajectoryFile("f.xyz", mode="r")
        elif which == 2:
            _lmp.LAMMPSTrajectoryFile("f.lammpstrj", mode="r")
        elif which == 3:
            _h5.HDF5TrajectoryFile("f.h5", mode="r")
        elif which == 4:
            _nc.NetCDFTrajectoryFile("f.nc", mode="r")
        else:
            _zip.open_maybe_zipped("f.txt", "r")
    except (TypeError, ValueError, AttributeError):
        pass
    return fs.log == []
