"""Concrete replays for the C16 obligations: the REAL public API on a fixed small system against an independent numpy evaluation of the
documented formula.  A solver counterexample of a formula identity is value-independent (the identity is wrong as a polynomial), so any
generic input with distinct coordinates / masses / volumes exhibits it; the script exits 1 when the API and the formula disagree."""
import os
import subprocess
import sys
import tempfile

_HEAD = '''
import sys, math, itertools, warnings
import numpy as np
warnings.simplefilter("ignore")
import mdtraj as md
from mdtraj.core import element as el
rng = np.random.RandomState(11)
def system(n_frames=3, cell=True):
    top = md.Topology(); ch = top.add_chain()
    spec = [("ALA", [("N", el.nitrogen), ("CA", el.carbon), ("CB", el.carbon), ("HB1", el.hydrogen)]), ("GLY", [("N", el.nitrogen), ("CA", el.carbon), ("HA2", el.hydrogen)]),
            ("HOH", [("O", el.oxygen), ("H1", el.hydrogen)]), ("SER", [("N", el.nitrogen), ("CA", el.carbon), ("CB", el.carbon), ("OG", el.oxygen), ("HG", el.hydrogen)]),
            ("LYS", [("CA", el.carbon), ("CB", el.carbon)]), ("VAL", [("N", el.nitrogen), ("CA", el.carbon), ("CB", el.carbon)])]
    for rn, atoms in spec:
        r = top.add_residue(rn, ch)
        for nm, e in atoms: top.add_atom(nm, e, r)
    xyz = (rng.rand(n_frames, top.n_atoms, 3) * 1.6 + 0.2).astype(np.float32)
    t = md.Trajectory(xyz, top)
    if cell:
        t.unitcell_lengths = np.array([[2.0 + 0.1 * f, 2.2, 2.4 + 0.05 * f] for f in range(n_frames)]); t.unitcell_angles = np.full((n_frames, 3), 90.0)
    return t
def _hook(tp, v, tb):
    import traceback, os
    traceback.print_exception(tp, v, tb); os._exit(3)      # the replay itself failed: not a reproduction
sys.excepthook = _hook
bad = []
def chk(what, got, want, tol=2e-4):
    got, want = np.asarray(got, dtype=float), np.asarray(want, dtype=float)
    if got.shape != want.shape or not np.allclose(got, want, rtol=tol, atol=tol):
        bad.append(what); print("MISMATCH", what, "\\n  api    ", got.ravel()[:8], "\\n  formula", want.ravel()[:8])
'''

_TAIL = '''
print("mismatches:", bad)
sys.exit(1 if bad else 0)
'''

BODY = {
    "zero_vectors": '''
t = system(n_frames=2)
t.unitcell_vectors = np.zeros((2, 3, 3)); 
if t.unitcell_lengths is not None or t.unitcell_angles is not None: bad.append("all-zero vectors must mean: no unit cell")
v = np.array([[[1e-3, 0, 0], [0, 1e-3, 0], [0, 0, 1e-3]]] * 2); t.unitcell_vectors = v
if t.unitcell_lengths is None or t.unitcell_angles is None: bad.append("a tiny but non-zero cell was dropped")
else: chk("tiny cell lengths", t.unitcell_lengths, np.full((2, 3), 1e-3), 1e-7)
t.unitcell_vectors = None
if t.unitcell_lengths is not None or t.unitcell_angles is not None: bad.append("None must clear the cell")
''',
    "centers": '''
t = system(cell=False); x = t.xyz.astype(float); m = np.array([a.element.mass for a in t.top.atoms])
chk("center_of_mass", md.compute_center_of_mass(t), (x * m[None, :, None]).sum(1) / m.sum())
chk("center_of_geometry", md.compute_center_of_geometry(t), x.mean(1))
''',
    "gyration_and_shape": '''
t = system(cell=False); x = t.xyz.astype(float); c = x - x.mean(1, keepdims=True)
S = np.einsum("fia,fib->fab", c, c) / x.shape[1]
chk("gyration_tensor", md.compute_gyration_tensor(t), S)
l = np.sort(np.linalg.eigvalsh(S), axis=1); b = l[:, 2] - (l[:, 0] + l[:, 1]) / 2; cc = l[:, 1] - l[:, 0]
from mdtraj.geometry import shape as sh
chk("principal_moments", sh.principal_moments(t), l)
chk("asphericity", sh.asphericity(t), b); chk("acylindricity", sh.acylindricity(t), cc)
chk("relative_shape_anisotropy", sh.relative_shape_anisotropy(t), (b * b + 0.75 * cc * cc) / l.sum(1) ** 2)
''',
    "karplus": '''
from mdtraj.nmr import scalar_couplings as sc
K = {"compute_J3_HN_HA": {"Bax2007": (8.4, -1.36, 0.33, -60), "Ruterjans1999": (7.90, -1.05, 0.65, -60), "Bax1997": (7.09, -1.42, 1.55, -60)},
     "compute_J3_HN_C": {"Bax2007": (4.36, -1.08, -0.01, 180)}, "compute_J3_HN_CB": {"Bax2007": (3.71, -0.59, 0.08, 60)}}
t = md.load(os.path.join(os.path.dirname(md.__file__), "..", "tests", "data", "1bpi.pdb")) if False else None
import os
for cand in ("frame0.h5", "1bpi.pdb", "native.pdb"):
    p = os.path.join(os.path.dirname(os.path.dirname(md.__file__)), "tests", "data", cand)
    if os.path.exists(p):
        t = md.load(p); break
idx, phi = md.compute_phi(t)
for fn, models in K.items():
    for model, (A, B, C, p0) in models.items():
        ind, J = getattr(sc, fn)(t, model=model)
        x = phi + math.radians(p0)
        chk(fn + "." + model, J, A * np.cos(x) ** 2 + B * np.cos(x) + C, 1e-4)
        chk(fn + "." + model + ".indices", ind, idx)
''',
    "density": '''
t = system(); m = np.array([a.element.mass for a in t.top.atoms])
chk("density", md.density(t), m.sum() / t.unitcell_volumes * 1.66053907, 1e-4)
mm = np.arange(1, t.n_atoms + 1, dtype=float)
chk("density(masses)", md.density(t, masses=mm), mm.sum() / t.unitcell_volumes * 1.66053907, 1e-4)
''',
    "dipoles": '''
t = system(n_frames=2); q = np.linspace(-0.8, 0.9, t.n_atoms); q -= q.mean()          # neutral: the dipole does not depend on the origin
got = md.geometry.dipole_moments(t, q)
# independent: mu = sum q_i r_i with positions unwrapped by minimum image relative to atom 0 through the first atom of each residue (orthorhombic cell)
x = t.xyz.astype(float); L = t.unitcell_lengths
def mic(v, f): return v - L[f] * np.round(v / L[f])
want = np.zeros((t.n_frames, 3))
for f in range(t.n_frames):
    for a in t.top.atoms:
        first = a.residue.atom(0).index
        want[f] += q[a.index] * (mic(x[f, a.index] - x[f, first], f) + mic(x[f, first] - x[f, 0], f))
chk("dipole_moments (sum q_i r_i)", got, want, 1e-3)
# textbook case: -1 at the origin side, +1 displaced by +0.1 nm along x: the dipole points from - to +
top2 = md.Topology(); ch2 = top2.add_chain(); r2 = top2.add_residue("ION", ch2); top2.add_atom("A", el.chlorine, r2); top2.add_atom("B", el.sodium, r2)
t2 = md.Trajectory(np.array([[[0.5, 0.5, 0.5], [0.6, 0.5, 0.5]]], dtype=np.float32), top2, unitcell_lengths=[[3, 3, 3]], unitcell_angles=[[90, 90, 90]])
chk("dipole of (-1 at x, +1 at x + 0.1)", md.geometry.dipole_moments(t2, np.array([-1.0, 1.0])), [[0.1, 0.0, 0.0]], 1e-5)
''',
    "rdf_normalisation": '''
t = system(n_frames=3); pairs = np.array(list(itertools.combinations(range(t.n_atoms), 2)))
d = md.compute_distances(t, pairs)
for kw in (dict(r_range=(0.1, 0.9), n_bins=4), dict(r_range=(0.0, 1.0), n_bins=50), dict(r_range=(0.05, 0.93), bin_width=0.1), dict(r_range=(0.0, 1.0), bin_width=0.005)):
    r, g = md.compute_rdf(t, pairs, **kw)
    nb = kw.get("n_bins") or int((kw["r_range"][1] - kw["r_range"][0]) / kw["bin_width"])
    cnt, edges = np.histogram(d.astype(np.float64), range=kw["r_range"], bins=nb)
    V = 4.0 / 3.0 * math.pi * (edges[1:] ** 3 - edges[:-1] ** 3)
    chk("rdf g(r) %r" % (kw,), g, cnt / (len(pairs) * np.sum(1.0 / t.unitcell_volumes) * V), 1e-6)
    chk("rdf r %r" % (kw,), r, 0.5 * (edges[1:] + edges[:-1]), 1e-7)
''',
    "squareform_placement": '''
t = system(cell=False); d, pairs = md.compute_contacts(t, contacts=[[0, 3], [1, 4], [3, 5]], scheme="ca")
sq = md.geometry.squareform(d, pairs)
want = np.zeros((t.n_frames, t.n_residues, t.n_residues))
for k, (a, b) in enumerate(pairs): want[:, a, b] = d[:, k]; want[:, b, a] = d[:, k]
chk("squareform", sq, want)
''',
    "rg_gyration_rigid": '''
t = system(cell=False); x = t.xyz.astype(float)
R = np.array([[0.0, -1.0, 0.0], [0.6, 0.0, -0.8], [0.8, 0.0, 0.6]])      # a proper rotation (3-4-5)
u = md.Trajectory((x @ R.T + np.array([1.5, -2.0, 0.7])).astype(np.float32), t.top)
chk("rg invariant", md.compute_rg(u), md.compute_rg(t), 1e-4)
Sg, Su = md.compute_gyration_tensor(t), md.compute_gyration_tensor(u)
chk("gyration tensor covariant", Su, np.einsum("ab,fbc,dc->fad", R, Sg, R), 1e-3)
''',
}


def replay(which):
    def rep(name, vals):
        script = _HEAD + BODY[which] + _TAIL
        with tempfile.NamedTemporaryFile("w", suffix=".py", delete=False) as fh:
            fh.write(script)
        r = subprocess.run([sys.executable, fh.name], capture_output=True, text=True)
        os.unlink(fh.name)
        if r.returncode not in (0, 1):
            return False, script + "\n# replay failed to run: " + (r.stdout + r.stderr)[-600:].replace("\n", "\n# "), name.split("[")[0]
        return r.returncode == 1, script + "\n# " + (r.stdout + r.stderr)[-600:].replace("\n", "\n# "), name.split("[")[0]
    return rep
