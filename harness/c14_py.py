"""C14 (topology side) — _get_bond_triplets under CrossHair on small topologies whose elements, bonds, water residues and
side-chain membership are symbolic.  Expected set, written from the documentation: every (donor, hydrogen, acceptor) with a BONDED
N-H or O-H pair (donor = the heavy atom), acceptor an N or O atom other than the donor, all three passing the requested filters
(exclude_water: not in a water residue; sidechain_only: a side-chain atom of a protein residue)."""
import vtlib.xhfix  # noqa: F401
import numpy as np

import mdtraj.geometry.hbond as _hb
from mdtraj.core import element as _el
from mdtraj.core.topology import Topology
from vtlib.xhfix import conc

ELEMS = [_el.nitrogen, _el.oxygen, _el.hydrogen, _el.carbon, _el.sulfur]
NAMES = ["N", "OG", "HG", "CB", "O"]          # backbone / side-chain atom names (N, O are backbone; OG, HG, CB side chain)
BONDS = [(0, 1), (0, 2), (1, 2), (2, 3), (3, 4), (1, 4)]


def _build(e, bonds, water2, names_sc):
    top = Topology()
    ch = top.add_chain()
    r1 = top.add_residue("SER", ch)
    r2 = top.add_residue("HOH" if water2 else "THR", ch)
    atoms = []
    for i in range(5):
        nm = NAMES[i] if names_sc else ["N", "CA", "H", "C", "O"][i]
        atoms.append(top.add_atom(nm, ELEMS[e[i]], r1 if i < 3 else r2))
    for k, (i, j) in enumerate(BONDS):
        if bonds[k]:
            top.add_bond(atoms[i], atoms[j])
    return top, atoms


def _expected(top, atoms, exclude_water, sidechain_only):
    def ok(a):
        if exclude_water and a.residue.name in ("HOH", "H2O", "WAT", "SOL", "TIP3", "TIP4", "TIP", "OH2", "H20", "W", "TIP2", "T3P", "T4P", "T5P", "DOD", "D3O", "TP3", "TP4", "TP5", "SPC"):
            return False
        if sidechain_only and not (a.residue.name in ("SER", "THR") and a.name not in ("C", "CA", "N", "O", "HA", "H")):
            return False
        return True
    out = set()
    for b in top.bonds:
        x, y = b[0], b[1]
        for d, h in ((x, y), (y, x)):
            if d.element.symbol in ("N", "O") and h.element.symbol == "H" and ok(d) and ok(h):
                for a in atoms:
                    if a.element.symbol in ("N", "O") and ok(a) and a.index != d.index:
                        out.add((d.index, h.index, a.index))
    return out


def bond_triplets(e0: int, e1: int, e2: int, e3: int, e4: int, b0: bool, b1: bool, b2: bool, b3: bool, b4: bool, b5: bool,
                  water2: bool, names_sc: bool, exclude_water: bool, sidechain_only: bool) -> bool:
    """
    pre: 0 <= e0 <= 4 and 0 <= e1 <= 4 and 0 <= e2 <= 4 and 0 <= e3 <= 4 and 0 <= e4 <= 4
    pre: b0 or b1 or b2 or b3 or b4 or b5
    post: __return__
    """
    e = [conc(x, 0, 4) for x in (e0, e1, e2, e3, e4)]
    top, atoms = _build(e, (b0, b1, b2, b3, b4, b5), water2, names_sc)
    got = _hb._get_bond_triplets(top, exclude_water=exclude_water, sidechain_only=sidechain_only)
    got = np.asarray(got)
    if got.ndim != 2 or got.shape[1] != 3:
        return False
    rows = [tuple(int(v) for v in r) for r in got]
    return len(rows) == len(set(rows)) and set(rows) == _expected(top, atoms, exclude_water, sidechain_only)
