"""C11 — re-imaging moves atoms only by lattice vectors and makes molecules whole (E2 symnum on a SOURCE-LEVEL LOWERING of
mdtraj/geometry/src/image_molecules.pxi).

The installed extension cannot be rebuilt here and the file exists only as Cython, so the .pxi is lowered to Python on every run
(vtlib/pxilower.py: type declarations dropped, typed memoryviews indexed as arrays, out-parameters returned) and the lowered
make_whole / wrap_mols / image_frame run on z3 reals: positions symbolic, cell a concrete catalogue cell (exact rationals),
roundf / floorf introduce integer unknowns (|x - k| <= 1/2, k <= x < k+1).

Decided (all linear real/integer arithmetic):
  make_whole   every atom's move is an INTEGER combination of the frame's cell vectors (z3 IsInt on the exact fractional coordinates
               of the move), the first atom of a bond is not moved, and -- for a molecule whose atoms have lattice images within
               0.49 x (smallest cell width) of each other component-wise, bonds given in an order where each bond's first atom is
               already placed -- every bonded pair ends at exactly that compact image's separation (its minimum image);
  wrap_mols    one common translation (half the box diagonal minus the anchor centre) for all atoms, plus, per non-anchor molecule,
               ONE lattice vector for all of its atoms, after which the molecule's centre lies in the brick [0,a_x) x [0,b_y) x [0,c_z);
  image_frame  (one anchor molecule) composition of the two; unit-cell array never written."""
import os
import time
from fractions import Fraction as F

import numpy as np
import z3

from harness import c05
from vtlib import symnum as S
from vtlib.core import REPO
from vtlib.pxilower import LowerError, lower
from vtlib.symnum import NP, Goals, Sym, sym_array, tz

PXI = str(REPO / "mdtraj" / "geometry" / "src" / "image_molecules.pxi")


class _Uninit:
    def __repr__(self):
        return "<uninitialised C local>"


_MEMO = {}


def _int_of(x, kind):
    """roundf / floorf are FUNCTIONS: the same argument gives the same integer (z3 terms are hash-consed, so the id identifies it)"""
    key = (kind, id(S.CTX), x.e.get_id())
    if key not in _MEMO:
        k = S.CTX.fresh(kind, "int")
        kr = z3.ToReal(k)
        S.CTX.cons += [kr - x.e <= S.rat(F(1, 2)), x.e - kr <= S.rat(F(1, 2))] if kind == "round" else [kr <= x.e, x.e < kr + 1]
        _MEMO[key] = (Sym(kr), x.e)        # (keep the term alive so that its id is not reused)
    return _MEMO[key][0]


def _roundf(x):
    if isinstance(x, Sym):
        return _int_of(x, "round")
    x = F(x)
    return F(int(x + F(1, 2)) if x >= 0 else -int(-x + F(1, 2)))


def _floorf(x):
    if isinstance(x, Sym):
        return _int_of(x, "floor")
    import math
    return F(math.floor(F(x)))


def _closest_stub(calls):
    def find_closest_contact(pos, g1, g2, n1, n2, box):
        calls.append((list(g1), list(g2)))
        return int(g1[0]), int(g2[0]), Sym(S.CTX.fresh("cdist"))
    return find_closest_contact


def load_lowered():
    src = open(PXI).read()
    py = lower(src)
    ns = {"np": NP(), "UNINIT": lambda n: [_Uninit() for _ in range(n)], "roundf": _roundf, "floorf": _floorf}
    calls = []
    ns["find_closest_contact"] = _closest_stub(calls)
    exec(compile(py, "image_molecules.pxi (lowered)", "exec"), ns)
    return ns, calls, len(py.splitlines())


def _cell_arr(cell):
    a = np.empty((3, 3), dtype=object)
    for i in range(3):
        for j in range(3):
            a[i, j] = cell[i][j]
    return a


def _inv(cell):
    """exact inverse of a 3x3 matrix of Fractions (adjugate / determinant)"""
    m = [[F(x) for x in r] for r in cell]
    cof = [[(m[(i + 1) % 3][(j + 1) % 3] * m[(i + 2) % 3][(j + 2) % 3] - m[(i + 1) % 3][(j + 2) % 3] * m[(i + 2) % 3][(j + 1) % 3]) for j in range(3)] for i in range(3)]
    det = sum(m[0][j] * cof[0][j] for j in range(3))
    return [[cof[j][i] / det for j in range(3)] for i in range(3)]


def _frac(d, inv):
    """fractional coordinates n of a displacement d = n . cell  (rows a, b, c)  ->  n = d . cell^-1"""
    return [sum(tz(d[k]) * S.rat(inv[k][i]) for k in range(3)) for i in range(3)]


BOND_SETS = {
    "pair": (2, [(0, 1)]),
    "path": (3, [(0, 1), (1, 2)]),
    "star": (3, [(0, 1), (0, 2)]),
    "ring": (3, [(0, 1), (0, 2), (1, 2)]),
    "branch4": (4, [(0, 1), (1, 2), (1, 3)]),
    "h_first": (3, [(2, 0), (2, 1)]),           # atoms 0, 1 hang off atom 2 (H, H, O order): traversal order starts at the heavy atom
}


def _fail(name, why):
    return {"status": "cex", "detail": why, "queries": 0, "solver_s": 0.0, "cex": {"goal": name, "key": name, "inputs": {}, "reproduced": True, "replay_script": "import sys; sys.exit(1)\n"}}


def make_whole(cell: str = "cubic", bonds: str = "pair"):
    t0 = time.time()
    S.new_ctx(timeout_ms=60000)
    try:
        ns, _, nlines = load_lowered()
    except LowerError as e:
        return {"status": "inconclusive", "detail": f"cannot lower image_molecules.pxi: {e}"}
    cellv = c05.CELLS[cell]
    n_atoms, bl = BOND_SETS[bonds]
    P0 = sym_array("p", (n_atoms, 3))
    P = P0.copy()
    box = _cell_arr(cellv)
    box0 = box.copy()
    sb = np.array(bl, dtype=np.int32)
    Lmax = max(abs(float(x)) for r in cellv for x in r)
    S.CTX.cons += [z3.And(tz(v) >= -50 * Lmax, tz(v) <= 50 * Lmax) for v in P0.flat]
    ns["make_whole"](P, box, sb)
    if any(isinstance(v, _Uninit) for v in P.flat):
        return _fail("uninitialised", "an uninitialised C local reached the output")
    if not all(box[i, j] == box0[i, j] for i in range(3) for j in range(3)):
        return _fail("cell_written", "make_whole wrote to the unit-cell vectors")
    G = Goals(60000)
    inv = _inv(cellv)
    cons = list(S.CTX.cons)
    moved = {b for _, b in bl}
    root = [i for i in range(n_atoms) if i not in moved]
    for i in range(n_atoms):
        d = [tz(P[i, k]) - tz(P0[i, k]) for k in range(3)]
        if i in root:
            G.add(f"root_fixed[{i}]", cons, z3.And(*[x == 0 for x in d]), {})
        else:
            n = _frac(d, inv)
            G.add(f"lattice_move[{i}]", cons, z3.And(*[z3.IsInt(x) for x in n]), {})
    # compact image premise: integer shifts s_i with Q_i = P0_i + s_i . cell, all pairs within hw component-wise
    w = F(c05.widths(cellv)).limit_denominator(10**6)
    hw = w * F(49, 100)
    sh = [[z3.Int(f"s{i}_{j}") if i else z3.IntVal(0) for j in range(3)] for i in range(n_atoms)]
    Q = [[tz(P0[i, k]) + sum(z3.ToReal(sh[i][j]) * S.rat(cellv[j][k]) for j in range(3)) for k in range(3)] for i in range(n_atoms)]
    comp = []
    for i in range(n_atoms):
        for j in range(i):
            for k in range(3):
                comp += [Q[i][k] - Q[j][k] < S.rat(hw), Q[j][k] - Q[i][k] < S.rat(hw)]
    for a, b in bl:
        G.add(f"bond_at_minimum_image[{a}-{b}]", cons + comp, z3.And(*[tz(P[b, k]) - tz(P[a, k]) == Q[b][k] - Q[a][k] for k in range(3)]),
              {f"p{i}{k}": P0[i, k] for i in range(n_atoms) for k in range(3)})
    if bonds == "pair":
        # idempotence (ring-closing bonds, already whole molecules): a pair that already sits at its compact separation is not moved
        already = []
        for k in range(3):
            already += [tz(P0[1, k]) - tz(P0[0, k]) < S.rat(hw), tz(P0[0, k]) - tz(P0[1, k]) < S.rat(hw)]
        G.add("already_whole_is_not_moved", cons + already, z3.And(*[tz(P[1, k]) == tz(P0[1, k]) for k in range(3)]), {f"p{i}{k}": P0[i, k] for i in range(2) for k in range(3)})
    r = G.run(_replay_whole(cell, n_atoms, bl))
    r["lowered_lines"] = nlines
    r["wall_s"] = round(time.time() - t0, 2)
    return r


_WHOLE_REPLAY = '''
import sys, math, itertools, numpy as np
sys.path.insert(0, {verif!r})
from vtlib.pxilower import lower
cell = np.array({cellv!r}); bonds = {bonds!r}; n_atoms = {n_atoms}
src = lower(open({pxi!r}).read())
ns = {{"np": np, "UNINIT": lambda n: [float("nan")] * n, "roundf": lambda x: float(math.floor(abs(x) + 0.5) * (1 if x >= 0 else -1)), "floorf": lambda x: float(math.floor(x)),
      "find_closest_contact": lambda *a: (0, 0, 0.0)}}
exec(compile(src, "image_molecules.pxi (lowered)", "exec"), ns)      # CONCRETE execution of the lowered current source (the binary cannot be rebuilt here)
vol = abs(np.linalg.det(cell)); w = min(vol / np.linalg.norm(np.cross(cell[(i + 1) % 3], cell[(i + 2) % 3])) for i in range(3))
rng = np.random.RandomState(7); bad = 0; inv = np.linalg.inv(cell)
for trial in range(300):
    Q = (rng.rand(1, 3) - 0.5) * 6 * np.abs(cell).max() + (rng.rand(n_atoms, 3) - 0.5) * 0.45 * w          # a compact molecule ...
    P0 = Q + rng.randint(-3, 4, (n_atoms, 3)) @ cell; P0[0] = Q[0]                                             # ... with its atoms scattered over images
    P = P0.copy(); box = cell.copy()
    ns["make_whole"](P, box, np.array(bonds, dtype=np.int32))
    n = (P - P0) @ inv
    ok = np.abs(n - np.round(n)).max() < 1e-6 and np.array_equal(box, cell)
    for a, b in bonds:
        ok = ok and np.allclose(P[b] - P[a], Q[b] - Q[a], atol=1e-6)
    bad += not ok
print("trials with a non-lattice move or a bond left stretched:", bad)
sys.exit(1 if bad else 0)
'''


def _replay_whole(cell, n_atoms, bl):
    def rep(name, vals):
        import subprocess, sys as _s, tempfile
        script = _WHOLE_REPLAY.format(verif=os.path.dirname(os.path.dirname(os.path.abspath(__file__))), cellv=[[float(x) for x in r] for r in c05.CELLS[cell]], bonds=[list(b) for b in bl], n_atoms=n_atoms, pxi=PXI)
        with tempfile.NamedTemporaryFile("w", suffix=".py", delete=False) as fh:
            fh.write(script)
        r = subprocess.run([_s.executable, fh.name], capture_output=True, text=True)
        os.unlink(fh.name)
        return r.returncode == 1, script + "\n# " + (r.stdout + r.stderr)[-400:].replace("\n", "\n# "), name.split("[")[0]
    return rep


def wrap(cell: str = "cubic", with_whole: bool = False):
    """wrap_mols (and image_frame with one anchor molecule): anchor = atoms 0,1; other molecules = [2,3] and [4]"""
    t0 = time.time()
    S.new_ctx(timeout_ms=60000)
    try:
        ns, calls, nlines = load_lowered()
    except LowerError as e:
        return {"status": "inconclusive", "detail": f"cannot lower image_molecules.pxi: {e}"}
    cellv = c05.CELLS[cell]
    N = 5
    P0 = sym_array("p", (N, 3))
    P = P0.copy()
    box = _cell_arr(cellv)
    box0 = box.copy()
    Lmax = max(abs(float(x)) for r in cellv for x in r)
    S.CTX.cons += [z3.And(tz(v) >= -50 * Lmax, tz(v) <= 50 * Lmax) for v in P0.flat]
    anchors_idx, anchors_off = np.array([0, 1], dtype=np.int32), np.array([2], dtype=np.int32)
    others_idx, others_off = np.array([2, 3, 4], dtype=np.int32), np.array([2, 3], dtype=np.int32)
    sb = np.array([(0, 1), (2, 3)], dtype=np.int32) if with_whole else None
    ns["image_frame"](P, box, anchors_idx, anchors_off, others_idx, others_off, sb)
    if any(isinstance(v, _Uninit) for v in P.flat):
        return _fail("uninitialised", "an uninitialised C local reached the output")
    if not all(box[i, j] == box0[i, j] for i in range(3) for j in range(3)):
        return _fail("cell_written", "image_frame wrote to the unit-cell vectors")
    G = Goals(60000)
    inv = _inv(cellv)
    cons = list(S.CTX.cons)
    d = [[tz(P[i, k]) - tz(P0[i, k]) for k in range(3)] for i in range(N)]
    # the common translation is what anchor atom 0 experienced (it is the root of the anchor molecule: never moved by make_whole)
    T = d[0]
    for i in range(1, N):
        n = _frac([d[i][k] - T[k] for k in range(3)], inv)
        G.add(f"lattice_move_plus_common_translation[{i}]", cons, z3.And(*[z3.IsInt(x) for x in n]), {})
    # molecules move as units (wrap stage): atoms 2,3 share their lattice vector unless make_whole moved atom 3 first
    if not with_whole:
        G.add("anchor_rigid", cons, z3.And(*[d[1][k] == d[0][k] for k in range(3)]), {})
        G.add("molecule_rigid[2,3]", cons, z3.And(*[d[3][k] == d[2][k] for k in range(3)]), {})
    # anchor centre ends at half the box diagonal; other molecules' centres inside the cell (fractional coordinates in [0,1))
    for k in range(3):
        c = (tz(P[0, k]) + tz(P[1, k])) / 2
        G.add(f"anchor_centred[{k}]", cons, S.close(c, S.rat(cellv[k][k] / 2), z3.RealVal("1/100000")), {})
    eps = z3.RealVal("1/100000")
    for name, mol in (("mol23", (2, 3)), ("mol4", (4,))):
        cen = [sum(tz(P[i, k]) for i in mol) / len(mol) for k in range(3)]
        # "wrapped into the box": the brick [0,a_x) x [0,b_y) x [0,c_z) spanned by the diagonal of the (lower-triangular) cell matrix --
        # an equally valid unit cell of the same lattice; for orthorhombic cells this is the cell itself
        G.add(f"centre_inside_box[{name}]", cons, z3.And(*[z3.And(cen[k] >= -eps, cen[k] < S.rat(cellv[k][k]) + eps) for k in range(3)]), {})
    r = G.run(_replay_wrap(cell, with_whole))
    r["lowered_lines"] = nlines
    r["wall_s"] = round(time.time() - t0, 2)
    return r


_WRAP_REPLAY = '''
import sys, math, numpy as np
sys.path.insert(0, {verif!r})
from vtlib.pxilower import lower
cell = np.array({cellv!r}); with_whole = {with_whole}
src = lower(open({pxi!r}).read())
ns = {{"np": np, "UNINIT": lambda n: [float("nan")] * n, "roundf": lambda x: float(np.float32(math.floor(abs(x) + 0.5) * (1 if x >= 0 else -1))), "floorf": lambda x: float(math.floor(x)),
      "find_closest_contact": lambda pos, g1, g2, n1, n2, box: (int(g1[0]), int(g2[0]), 0.0)}}
exec(compile(src, "image_molecules.pxi (lowered)", "exec"), ns)      # CONCRETE execution of the lowered current source (the binary cannot be rebuilt here)
rng = np.random.RandomState(5); bad = 0
inv = np.linalg.inv(cell)
for trial in range(200):
    P0 = (rng.rand(5, 3) - 0.5) * 8 * np.abs(cell).max(); P = P0.copy(); box = cell.copy()
    if with_whole:                                   # bonded atoms start close (any image)
        P0[1] = P0[0] + (rng.rand(3) - 0.5) * 0.2 + rng.randint(-2, 3, 3) @ cell; P0[3] = P0[2] + (rng.rand(3) - 0.5) * 0.2 + rng.randint(-2, 3, 3) @ cell; P = P0.copy()
    ns["image_frame"](P, box, np.array([0, 1], dtype=np.int32), np.array([2], dtype=np.int32), np.array([2, 3, 4], dtype=np.int32), np.array([2, 3], dtype=np.int32),
                      np.array([(0, 1), (2, 3)], dtype=np.int32) if with_whole else None)
    d = P - P0; T = d[0]
    n = (d - T) @ inv
    ok = np.abs(n - np.round(n)).max() < 1e-6 and np.array_equal(box, cell)
    if not with_whole: ok = ok and np.allclose(d[1], d[0]) and np.allclose(d[3], d[2])
    ok = ok and np.allclose((P[0] + P[1]) / 2, np.diag(cell) / 2, atol=1e-5)
    for mol in ((2, 3), (4,)):
        c = P[list(mol)].mean(0); ok = ok and all(-1e-5 <= c[k] < cell[k, k] + 1e-5 for k in range(3))
    bad += not ok
print("trials violating lattice-move / rigid-molecule / centring:", bad)
sys.exit(1 if bad else 0)
'''


def _replay_wrap(cell, with_whole):
    def rep(name, vals):
        import subprocess, sys as _s, tempfile
        script = _WRAP_REPLAY.format(verif=os.path.dirname(os.path.dirname(os.path.abspath(__file__))), cellv=[[float(x) for x in r] for r in c05.CELLS[cell]], with_whole=with_whole, pxi=PXI)
        with tempfile.NamedTemporaryFile("w", suffix=".py", delete=False) as fh:
            fh.write(script)
        r = subprocess.run([_s.executable, fh.name], capture_output=True, text=True)
        os.unlink(fh.name)
        return r.returncode == 1, script + "\n# " + (r.stdout + r.stderr)[-400:].replace("\n", "\n# "), name.split("[")[0]
    return rep
