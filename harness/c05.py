"""C05 — periodic distances / displacements are true minimum-image values (E3 llsym on the real kernels' LLVM IR,
E2 for the numpy reference path and the Python dispatch).

The cell is CONCRETE (catalogue below, exact rationals), the coordinates of the two atoms are SYMBOLIC in
[-50 L, 50 L].  Per kernel and cell the solver decides, for every leaf of the kernel's select tree:
  (a) displacement - (x2 - x1) is an integer combination of the INPUT cell vectors
  (b) no lattice vector g with coefficients in [-M, M]^3 makes the image shorter: 2 v.g + |g|^2 >= -margin
      (unconditionally for orthorhombic cells; for skewed cells only when some image is shorter than half the smallest
      cell width, a premise used through its linear consequences)
  (c) the reported distance^2 is v.v for the reported displacement v, and both outputs agree
"""
import ctypes
import itertools
import math
import os
import shutil
import tempfile
import time
from fractions import Fraction as F

import numpy as np
import z3

from vtlib import llsym as L
from vtlib.core import REPO
from vtlib.llsym import GP, Poly, P, rv

GEO = str(REPO / "mdtraj" / "geometry")
INC = [GEO + "/include", GEO + "/src/kernels"]


def _vec(lengths, angles):
    a, b, c = lengths
    al, be, ga = (math.radians(x) for x in angles)
    va = [a, 0.0, 0.0]
    vb = [b * math.cos(ga), b * math.sin(ga), 0.0]
    cx = c * math.cos(be)
    cy = c * (math.cos(al) - math.cos(be) * math.cos(ga)) / math.sin(ga)
    cz = math.sqrt(max(c * c - cx * cx - cy * cy, 0.0))
    return [va, vb, [cx, cy, cz]]


def _rat(m):
    """exact rationals near the ideal cell (|entries| < 1e-9 are 0): concrete arithmetic on the cell is exact"""
    return [[F(0) if abs(x) < 1e-9 else F(x).limit_denominator(1000) for x in row] for row in m]


ACOS13 = math.degrees(math.acos(-1 / 3))
CELLS = {
    "cubic": _rat(_vec((3, 3, 3), (90, 90, 90))),
    "ortho_1_2_3": _rat(_vec((2, 3, 4), (90, 90, 90))),
    "ortho_ratio6": _rat(_vec((1, 3, 6), (90, 90, 90))),
    "monoclinic70": _rat(_vec((3, 4, 5), (90, 70, 90))),
    "monoclinic_alpha70": _rat(_vec((3, 3, 3.2), (70, 90, 90))),      # only c_y off-diagonal
    "monoclinic_gamma70": _rat(_vec((3, 3.3, 4), (90, 90, 70))),      # only b_x off-diagonal
    "monoclinic110": _rat(_vec((3, 4, 5), (90, 110, 90))),
    "hexagonal60": _rat(_vec((3, 3.1, 4), (90, 90, 60))),     # (b slightly longer than a: the ideal cell sits on a rounding tie)
    "hexagonal120": _rat(_vec((3, 3.1, 4), (90, 90, 120))),
    # (ideal truncated octahedron has c_y/b_y = -1/2 exactly, a rounding tie in the kernel's cell reduction that float noise
    #  decides; the catalogue cell is taken slightly off the tie, see DESIGN)
    "trunc_octahedron": _rat(_vec((4, 4.1, 3.9), (ACOS13, ACOS13, ACOS13))),
    "rhombic_dodeca_sq": _rat(_vec((4, 4.1, 3.9), (60, 60, 90))),
    "rhombic_dodeca_hex": _rat(_vec((4, 4.1, 3.9), (60, 90, 60))),     # not a true dodecahedron description; a skewed test cell
    "triclinic_a": _rat(_vec((3, 4, 5), (80, 100, 70))),
    "triclinic_b": _rat(_vec((3, 3.5, 4), (60, 75, 110))),
    "triclinic_c": _rat(_vec((2, 5, 3), (100, 65, 50))),
}
# unreduced descriptions of the same lattices: b+a, c+2b-a
for _k in ("triclinic_a", "hexagonal60", "ortho_1_2_3"):
    a, b, c = CELLS[_k]
    CELLS[_k + "_unreduced"] = [a, [b[i] + a[i] for i in range(3)], [c[i] + 2 * b[i] - a[i] for i in range(3)]]
ORTHO = {"cubic", "ortho_1_2_3", "ortho_ratio6"}


def widths(cell):
    B = np.array([[float(x) for x in r] for r in cell])
    vol = abs(np.linalg.det(B))
    a, b, c = B
    return min(vol / np.linalg.norm(np.cross(b, c)), vol / np.linalg.norm(np.cross(c, a)), vol / np.linalg.norm(np.cross(a, b)))


_WORK = {}


def module(src="geometry.cpp", extra=()):
    key = src + "|" + " ".join(extra)
    if key not in _WORK:
        d = tempfile.mkdtemp(prefix="vt_ll_")
        import atexit
        atexit.register(shutil.rmtree, d, True)
        ll = L.compile_ir(GEO + "/src/" + src, INC, d, extra=extra)
        _WORK[key] = (L.Module(ll), d)
    return _WORK[key]


def native(src="geometry.cpp"):
    mod, d = module(src)
    key = src + ":so"
    if key not in _WORK:
        _WORK[key] = ctypes.CDLL(L.compile_native([GEO + "/src/" + src], INC, d, name=src.split(".")[0], extra=["-D__NO_INTRINSICS"]))
    return _WORK[key]


def box_matrix_floats(cell):
    """what the Python layer hands to the kernels: the TRANSPOSE of the (a;b;c) rows, row-major"""
    return [cell[c][r] for r in range(3) for c in range(3)]


def setup_pair(I, cell, kernel, n_frames=1, times=None, cell0=None, concrete0=False, other_frame=0):
    """cell0: the cell of frame `other_frame` (the frame the claim is NOT about); every other frame has `cell`"""
    X = [[Poly.var(f"x{f}_{i}") for i in range(6)] for f in range(n_frames)]
    if concrete0:      # frame 0 concrete (C08: a later frame must not depend on it)
        X[0] = [P(F(v)) for v in (F(1, 10), F(-3, 10), F(7, 10), F(12, 10), F(4, 10), F(-9, 10))]
    xyz = I.new_floats([v for fr in X for v in fr])
    pairs = I.new_ints([0, 1])
    dout = I.alloc(4 * max(1, n_frames if times is None else len(times)), "none")
    disp = I.alloc(12 * max(1, n_frames if times is None else len(times)), "none")
    nf = n_frames if times is None else len(times)
    args = [xyz, pairs]
    if times is not None:
        args.append(I.new_ints([t for p in times for t in p]))
    if cell is not None:
        args.append(I.new_floats([v for f in range(n_frames) for v in box_matrix_floats(cell0 if (cell0 is not None and f == other_frame) else cell)]))
    args += [dout, disp, nf, 2, 1]
    return args, {"X": X, "dout": dout, "disp": disp}


def leaves(v3):
    """iterate consistent leaves of a displacement vector whose three components share a case split"""
    gps = [c for c in v3 if isinstance(c, GP)]
    if not gps:
        yield z3.BoolVal(True), [P(c) for c in v3]
        return
    g0 = gps[0].guards
    for c in gps[1:]:
        if len(c.guards) != len(g0) or not all(a.eq(b) for a, b in zip(c.guards, g0)):
            raise L.EncoderError("components do not share a case split")
    for i, g in enumerate(g0):
        yield g, [c.polys[i] if isinstance(c, GP) else P(c) for c in v3]


def lattice_coeffs(cell, d):
    """solve d = n1 a + n2 b + n3 c for n (cell concrete, d a vector of Poly)"""
    B = [[F(x) for x in row] for row in cell]
    det = (B[0][0] * (B[1][1] * B[2][2] - B[1][2] * B[2][1]) - B[0][1] * (B[1][0] * B[2][2] - B[1][2] * B[2][0]) + B[0][2] * (B[1][0] * B[2][1] - B[1][1] * B[2][0]))
    # inverse via adjugate; n = d . B^-1
    adj = [[(B[(j + 1) % 3][(i + 1) % 3] * B[(j + 2) % 3][(i + 2) % 3] - B[(j + 1) % 3][(i + 2) % 3] * B[(j + 2) % 3][(i + 1) % 3]) for j in range(3)] for i in range(3)]
    inv = [[adj[i][j] / det for j in range(3)] for i in range(3)]
    return [sum((d[i] * Poly.const(inv[i][k]) for i in range(1, 3)), d[0] * Poly.const(inv[0][k])) for k in range(3)]


def integer_combination(I, n_poly):
    """n must be an integer for all values of the integer variables: every coefficient of an integer variable and the
    constant are integers and no real variable occurs (decided syntactically on the exact polynomial; no solver needed)."""
    for k, c in n_poly.t.items():
        if len(k) == 0:
            if c.denominator != 1:
                return False
        elif len(k) == 1 and k[0] in I.ints:
            if c.denominator != 1:
                return False
        else:
            return False
    return True


def check_kernel(kernel: str, cell: str, M: int = 2, coord_cells: int = 50, second_frame: bool = False, cell0: str = ""):
    """one kernel x one cell: all leaves, obligations (a) (b) (c).  second_frame: a 2-frame call whose frame 0 is concrete (and has
    the cell `cell0`); the obligations are then stated for frame 1 only — its result must not depend on frame 0 (C08).  For the time-pair
    kernels (*_t, time pair (0, 1)) `cell0` is instead the cell of frame 1: the documented cell is that of the FIRST time index."""
    t0 = time.time()
    mod, _ = module()
    cellv = CELLS[cell] if cell != "none" else None
    is_t = kernel.endswith("_t")
    n_frames = 2 if (is_t or second_frame) else 1
    times = [(0, 1)] if is_t else None
    look = 1 if second_frame else 0
    c0 = CELLS[cell0] if cell0 else None
    res = {"queries": 0, "solver_s": 0.0, "leaves": 0, "paths": 0}
    bad = None
    margin = rv(F(1, 10**6))
    unknown = []
    for I, ctx, _ in L.explore(mod, kernel, lambda I: setup_pair(I, cellv, kernel, n_frames, times, c0, second_frame, 1 if is_t else 0), timeout_ms=60000):
        res["paths"] += 1
        X = ctx["X"]
        x1 = X[look][0:3]
        x2 = X[1][3:6] if is_t else X[look][3:6]
        r = [x2[i] - x1[i] for i in range(3)]
        v3 = I.get_floats(L.Ptr(ctx["disp"].obj, 12 * look), 3)
        dist = I.get_floats(L.Ptr(ctx["dout"].obj, 4 * look), 1)[0]
        sq = [a for a in I.fnapps if a[0] == "sqrt" and a[1].key() == P(dist).key()]
        if len(sq) != 1:
            return {"status": "error", "detail": f"distance output is not a single sqrt: {dist}"}
        d2 = sq[0][2][0]
        Lmax = max(abs(float(x)) for row in (cellv or [[1]]) for x in row)
        bounds = [z3.And(I.emit(x) >= -coord_cells * Lmax, I.emit(x) <= coord_cells * Lmax) for fr in X for x in fr if L.conc(x) is None]
        base = I.side + I.path + bounds
        lv = list(leaves(v3))
        res["leaves"] += len(lv)
        # (c) distance^2 == v.v per leaf  (exact polynomial identity, syntactic)
        d2_leaves = dict()
        if isinstance(d2, GP):
            for g, p in zip(d2.guards, d2.polys):
                d2_leaves[p.key()] = g
        for g, v in lv:
            vv = v[0] * v[0] + v[1] * v[1] + v[2] * v[2]
            if isinstance(d2, GP):
                if vv.key() not in d2_leaves:
                    bad = bad or ("c_distance_is_norm", "reported distance^2 is not v.v for some leaf", None)
            elif P(d2).key() != vv.key():
                bad = bad or ("c_distance_is_norm", "reported distance^2 is not v.v", None)
            # (a) lattice shift by the INPUT vectors (or no shift at all without a cell)
            d = [v[i] - r[i] for i in range(3)]
            if cellv is None:
                if any(len(di.t) for di in d):
                    bad = bad or ("d_plain_difference", "non-periodic displacement is not x2-x1", None)
                continue
            n = lattice_coeffs(cellv, d)
            if not all(integer_combination(I, nk) for nk in n):
                bad = bad or ("a_lattice_shift", f"displacement - (x2-x1) is not an integer combination of the cell vectors: {n}", None)
        if cellv is None or bad:
            continue
        # (b) optimality, one query per path over all leaves
        B = [[F(x) for x in row] for row in cellv]
        w = F(widths(cellv)).limit_denominator(10**6)
        U = [z3.Real(f"u{i}") for i in range(3)]        # the (hypothetical) shorter image
        alts = []
        for g, v in lv:
            ve = [I.emit(c) for c in v]
            for m in itertools.product(range(-M, M + 1), repeat=3):
                if m == (0, 0, 0):
                    continue
                gv = [sum(B[j][i] * m[j] for j in range(3)) for i in range(3)]
                g2 = sum(t * t for t in gv)
                better = sum(2 * ve[i] * rv(gv[i]) for i in range(3)) + rv(g2) < -margin
                alts.append(z3.And(g, better, *[U[i] == ve[i] + rv(gv[i]) for i in range(3)]))
        sol = z3.Solver()
        sol.set("timeout", 120000)
        sol.add(*base)
        sol.add(z3.Or(alts))
        dirs = list(DIRS)
        hw = w / 2 * F(99, 100)      # premise with a 1% margin: the claim covers true minima below 0.99 * (half the smallest width)

        def plane(h):
            hn = F(math.sqrt(sum(float(t) ** 2 for t in h))).limit_denominator(10**7) + F(1, 10**7)
            uh = sum(U[i] * rv(h[i]) for i in range(3))
            return z3.And(uh <= rv(hw * hn), uh >= -rv(hw * hn))
        if cell not in ORTHO:
            # premise "that image is shorter than half the smallest cell width", through linear consequences |u.h| <= (w/2)|h|;
            # directions are added lazily (cutting planes) while the solver's witness violates the true premise
            sol.add(*[plane(h) for h in dirs])
        rr = None
        for it in range(300):
            t = time.time()
            rr = sol.check()
            res["solver_s"] += time.time() - t
            res["queries"] += 1
            if rr != z3.sat or cell in ORTHO:
                break
            m = sol.model()
            u = [L_model_float(m, x) for x in U]
            if math.sqrt(sum(t * t for t in u)) < float(w / 2):
                break                                   # the witness satisfies the true premise
            h = [F(t).limit_denominator(10**4) for t in u]
            sol.add(plane(h))
            res["cuts"] = res.get("cuts", 0) + 1
        if rr == z3.sat:
            m = sol.model()
            # prefer a witness that survives float32 evaluation: coordinates within a few cells and a clear improvement
            alts_strong = []
            for g, v in lv:
                ve = [I.emit(c) for c in v]
                for mm in itertools.product(range(-M, M + 1), repeat=3):
                    if mm == (0, 0, 0):
                        continue
                    gv = [sum(B[j][i] * mm[j] for j in range(3)) for i in range(3)]
                    alts_strong.append(z3.And(g, sum(2 * ve[i] * rv(gv[i]) for i in range(3)) + rv(sum(t * t for t in gv)) < -rv(F(1, 20)), *[U[i] == ve[i] + rv(gv[i]) for i in range(3)]))
            defs = I.mono_defs()            # exact products for the named monomials: a model of these is a genuine point of the path
            if cell not in ORTHO:
                defs = defs + [U[0] * U[0] + U[1] * U[1] + U[2] * U[2] < rv(hw * hw)]       # the premise itself (non-linear), not its cutting planes
            small = [z3.And(I.emit(x) >= -4 * Lmax, I.emit(x) <= 4 * Lmax) for fr in X for x in fr if L.conc(x) is None]
            # refinement (CEGAR): the abstract model fixes the integer unknowns (rounding results); with those fixed the exact
            # query -- products of unknowns as real products -- is a small non-linear REAL problem.  Unsat => block that integer
            # assignment and ask the abstraction for another one.
            ints = [z3.Int(n) for n in sorted(I.ints)]
            genuine = None
            for pre in (small, []):
                sol.push()
                sol.add(z3.Or(alts_strong), *pre)
                for it in range(25):
                    t = time.time()
                    r3 = sol.check()
                    res["solver_s"] += time.time() - t
                    res["queries"] += 1
                    if r3 != z3.sat:
                        break
                    ma = sol.model()
                    kv = [(k, ma.eval(k, model_completion=True)) for k in ints]
                    s2 = z3.Solver()
                    s2.set("timeout", 20000)
                    s2.add(*sol.assertions(), *defs, *[k == v for k, v in kv])
                    t = time.time()
                    r4 = s2.check()
                    res["solver_s"] += time.time() - t
                    res["queries"] += 1
                    res.setdefault("refine", []).append(str(r4))
                    if r4 == z3.sat:
                        genuine = s2.model()
                        break
                    sol.add(z3.Or([k != v for k, v in kv]) if kv else z3.BoolVal(False))
                sol.pop()
                if genuine is not None:
                    m = genuine
                    break
            vals = {str(x): L_model_float(m, I.emit(x)) for fr in X for x in fr if L.conc(x) is None}
            bad = bad or ("b_minimum_image", "an image within +-M cells is shorter than the reported displacement", vals)
        elif rr != z3.unsat:
            unknown.append("b_minimum_image")
        # vacuity: base constraints are satisfiable
        rs, _ = I.check(*bounds)
        res["queries"] += 1
        if rs != z3.sat:
            unknown.append("reachability")
    res["solver_s"] = round(res["solver_s"], 2)
    res["wall_s"] = round(time.time() - t0, 2)
    res["ir_instructions"] = mod.ninsns
    if bad:
        name, why, vals = bad
        rep, script = replay(kernel, cell, vals, cell0, second_frame) if vals else (True, "# structural failure: " + why + "\nimport sys; sys.exit(1)\n")
        return {**res, "status": "cex", "detail": why, "cex": {"goal": name, "key": name, "inputs": vals, "reproduced": rep, "replay_script": script}}
    if unknown:
        return {**res, "status": "inconclusive", "detail": "solver unknown: " + ",".join(unknown)}
    return {**res, "status": "holds", "twin_ok": res["paths"] > 0 and res["leaves"] > 0}


DIRS = [(1, 0, 0), (0, 1, 0), (0, 0, 1), (1, 1, 0), (1, -1, 0), (1, 0, 1), (1, 0, -1), (0, 1, 1), (0, 1, -1), (1, 1, 1), (1, 1, -1), (1, -1, 1), (-1, 1, 1)]


def L_model_float(m, e):
    v = m.eval(e, model_completion=True)
    try:
        return float(F(v.numerator_as_long(), v.denominator_as_long()))
    except Exception:
        return float(v.as_decimal(12).rstrip("?"))


REPLAY = '''
import sys, ctypes, itertools, tempfile, subprocess, numpy as np, os
REPO = os.environ.get("VT_REPO", "/repo"); G = REPO + "/mdtraj/geometry"
d = tempfile.mkdtemp(); so = d + "/k.so"
subprocess.check_call(["g++", "-O2", "-shared", "-fPIC", "-D__NO_INTRINSICS", "-I" + G + "/include", "-I" + G + "/src/kernels", G + "/src/geometry.cpp", "-o", so])
lib = ctypes.CDLL(so)
kernel, look, is_t, ortho = {kernel!r}, {look}, {is_t}, {ortho}
cells = np.array({cells!r}, dtype=np.float64)              # one (a;b;c) matrix per frame
x = np.array({frames!r}, dtype=np.float32).reshape(len(cells), 2, 3)
fp = lambda a: a.ctypes.data_as(ctypes.c_void_p)
nf = 1 if is_t else len(cells)
dout = np.zeros(nf, dtype=np.float32); disp = np.zeros((nf, 3), dtype=np.float32)
box = np.ascontiguousarray(np.transpose(cells, (0, 2, 1)), dtype=np.float32)
pairs = np.array([0, 1], dtype=np.int32)
args = [fp(np.ascontiguousarray(x)), fp(pairs)] + ([fp(np.array([0, 1], dtype=np.int32))] if is_t else []) + [fp(box), fp(dout), fp(disp), nf, 2, 1]
getattr(lib, kernel)(*args)
if is_t:
    r = x[1, 1].astype(float) - x[0, 0].astype(float); cell = cells[0]; got_d, got_v = dout[0], disp[0]
else:
    r = x[look, 1].astype(float) - x[look, 0].astype(float); cell = cells[look]; got_d, got_v = dout[look], disp[look]
cands = [r + np.array(m) @ cell for m in itertools.product(range(-60, 61), repeat=1)] if False else None
n0 = np.round(np.linalg.solve(cell.T, -r))                  # nearest lattice point in fractional coordinates, then a +-4 search around it
best = min(np.linalg.norm(r + (n0 + np.array(m)) @ cell) for m in itertools.product(range(-4, 5), repeat=3))
w = abs(np.linalg.det(cell)) / max(np.linalg.norm(np.cross(cell[(i + 1) % 3], cell[(i + 2) % 3])) for i in range(3))
lat = np.linalg.solve(cell.T, got_v.astype(float) - r)      # reported displacement - plain difference, in units of the cell vectors
scale = max(1.0, np.abs(r).max())
print("kernel", kernel, ": reported", got_d, "|v|", np.linalg.norm(got_v), "brute-force minimum", best, "half width", w / 2, "lattice coefficients", lat)
bad = (got_d - best > 1e-4 * scale and (ortho or best < 0.99 * w / 2)) or best - got_d > 1e-4 * scale or abs(np.linalg.norm(got_v) - got_d) > 1e-4 * scale or np.abs(lat - np.round(lat)).max() > 1e-3 * scale
sys.exit(1 if bad else 0)
'''


def replay(kernel, cell, vals, cell0=None, second_frame=False):
    """run the same kernel natively (fresh g++ build of the CURRENT source, same argument layout as the symbolic run) and compare with a
    brute-force minimum over lattice images in float64"""
    is_t = kernel.endswith("_t")
    look = 1 if second_frame else 0
    nfr = 2 if (is_t or second_frame) else 1
    frames = []
    for f in range(nfr):
        if second_frame and f == 0:
            frames.append([0.1, -0.3, 0.7, 1.2, 0.4, -0.9])
        else:
            frames.append([vals.get(f"Poly(1*x{f}_{i})", vals.get(f"x{f}_{i}", 0.0)) for i in range(6)])
    cells = [[[float(v) for v in r] for r in (CELLS[cell0] if (cell0 and f == (1 if is_t else 0)) else CELLS[cell])] for f in range(nfr)]
    script = REPLAY.format(kernel=kernel, look=look, is_t=is_t, cells=cells, frames=frames, ortho=cell in ORTHO)
    import subprocess, sys as _s
    with tempfile.NamedTemporaryFile("w", suffix=".py", delete=False) as fh:
        fh.write(script)
    r = subprocess.run([_s.executable, fh.name], capture_output=True, text=True, env=dict(os.environ, VT_REPO=str(REPO)))
    os.unlink(fh.name)
    return r.returncode == 1, script + "\n# " + (r.stdout + r.stderr)[-400:].replace("\n", "\n# ")
