"""C02 — partial loading equals slicing the full load.  The real read/read_as_traj/iterload/load_<fmt>
bytecode runs under CrossHair; files are in-memory (real numpy arrays behind fake pytables/netCDF nodes,
io.StringIO/BytesIO behind the text classes).  Frame i / atom j carries coordinates (i, j, 0) nm, time 2*i
(h5/nc) and cell lengths (5+i,6,7), so every returned field identifies what was read."""
import vtlib.xhfix  # noqa: F401  (CrossHair configuration; see module docstring)
import numpy as np
from vtlib.xhfix import conc

import mdtraj.core.trajectory as _tr
import mdtraj.formats.hdf5 as _h5
import mdtraj.formats.netcdf as _nc
import mdtraj.formats.mdcrd as _mdcrd
import mdtraj.formats.xyzfile as _xyz
import mdtraj.formats.lammpstrj as _lmp
import mdtraj.formats.arc as _arc
import mdtraj.formats.gro as _gro
from mdtraj.core.topology import Topology
from mdtraj.core import element as _el
from vtlib.fakes import FakeTables, NPInt, h5_handle_arrays, nc_handle_arrays
from harness import textfmt as T

_h5.np = NPInt()
_nc.np = NPInt()


def _top(n):
    t = Topology()
    c = t.add_chain()
    r = t.add_residue("ALA", c)
    for i in range(n):
        t.add_atom("C%d" % i, _el.carbon, r)
    return t


TOP4, TOP3 = _top(4), _top(3)


class _H5(_h5.HDF5TrajectoryFile):
    topology = TOP4        # the stored-topology JSON decoder is C04's subject; here a constant


def mk_h5(total, pos=0):
    f = object.__new__(_H5)
    f._open, f.mode, f.tables = True, "r", FakeTables()
    f._handle = h5_handle_arrays(conc(total))
    f._frame_index, f._needs_initialization = pos, False
    return f


_NCCls = _nc.NetCDFTrajectoryFile


def mk_nc(total, pos=0):
    f = object.__new__(_NCCls)
    f._closed, f._mode = False, "r"
    f._handle = nc_handle_arrays(conc(total))
    f._frame_index, f._needs_initialization = pos, False
    return f


MK = {"h5": mk_h5, "nc": mk_nc, "mdcrd": T.mk_mdcrd, "xyz": T.mk_xyz, "lammpstrj": T.mk_lammpstrj, "arc": T.mk_arc, "gro": lambda total, pos=0: T.mk_gro(total, pos, TOP3)}
NAT = {"h5": 4, "nc": 4, "mdcrd": 3, "xyz": 3, "lammpstrj": 3, "arc": 3, "gro": 3}
TOPS = {4: TOP4, 3: TOP3}


SCALE = {"h5": 1, "nc": 1, "mdcrd": 10, "xyz": 10, "lammpstrj": 10, "arc": 10, "gro": 1}   # text files hold (i, j, 0) angstrom


def ids_of_traj(t, fmt="h5"):
    return [int(round(float(x) * SCALE[fmt])) for x in t.xyz[:, 0, 0]] if len(t) else []


def atoms_of_traj(t, fmt="h5"):
    return [int(round(float(x) * SCALE[fmt])) for x in t.xyz[0, :, 1]] if len(t) else None


def _ids_raw(fmt, out):
    xyz = out.coordinates if fmt == "h5" and len(out) else (out[0] if isinstance(out, tuple) else out)
    if fmt == "h5" and not len(out):
        return []
    ids = T.frame_ids(xyz)
    return [i // 10 for i in ids] if fmt == "nc" else ids


def _subset(n, bits):
    return [i for i in range(n) if bits[i]]


# ------------------------------------------------------------------ (a) one strided read from any position,
#                                                                       stated so that it is an inductive step

def _read_stride_step(fmt, total, pos, n, stride):
    f = MK[fmt](total, pos)
    got = _ids_raw(fmt, f.read(n_frames=n, stride=stride))
    want_all = list(range(pos, total, stride))
    if fmt == "gro":      # no frame counter in this class: the cursor is the file position, observed through what is read next
        return got == want_all[:n] and _ids_raw(fmt, f.read(stride=stride)) == want_all[n:]
    pos2 = f._frame_index
    rest = list(range(pos2, total, stride)) if pos2 < total else []
    return got == want_all[:n] and rest == want_all[n:]


def _read_all_stride(fmt, total, pos, stride):
    f = MK[fmt](total, pos)
    got = _ids_raw(fmt, f.read(stride=stride))
    return got == list(range(pos, total, stride))


# ------------------------------------------------------------------ (b) the real iterload generator

def _open_for(fmt, total):
    def _open(filename, *a, **k):
        return MK[fmt](total, 0)
    return _open


def _iterload(fmt, total, chunk, stride, skip, bits):
    total = conc(total)
    _tr.open = _open_for(fmt, total)
    n = NAT[fmt]
    sub = None if bits is None else _subset(n, bits)
    kw = {} if fmt in ("h5", "gro") else {"top": TOPS[n]}
    chunks = list(_tr.iterload("mem." + fmt, chunk=chunk, stride=stride, skip=skip, atom_indices=sub, **kw))
    want = list(range(total))[skip::stride]
    got = [i for c in chunks for i in ids_of_traj(c, fmt)]
    if got != want:
        return False
    for c in chunks[:-1]:
        if len(c) != chunk:
            return False
    if chunks and not (1 <= len(chunks[-1]) <= chunk):
        return False
    want_atoms = list(range(n)) if sub is None else sub
    for c in chunks:
        if atoms_of_traj(c, fmt) != want_atoms or c.topology.n_atoms != len(want_atoms):
            return False
        if [a.name for a in c.topology.atoms] != ["C%d" % j for j in want_atoms]:
            return False
        if fmt in ("h5", "nc", "gro"):
            if [int(round(float(x))) for x in c.time] != [2 * i for i in ids_of_traj(c, fmt)]:
                return False
            if [int(round(float(x))) for x in c.unitcell_lengths[:, 0]] != [5 + i for i in ids_of_traj(c, fmt)]:
                return False
        else:  # formats without stored time: time is the frame number
            if [int(round(float(x))) for x in c.time] != ids_of_traj(c, fmt):
                return False
    return True


# ------------------------------------------------------------------ (c) load_<fmt>(frame=/stride=/atom_indices=)

def _install_class(fmt, total):
    mk = MK[fmt]
    fac = lambda filename, *a, **k: mk(total, 0)
    if fmt == "h5":
        _h5.HDF5TrajectoryFile = fac
    elif fmt == "nc":
        _nc.NetCDFTrajectoryFile = fac
    elif fmt == "mdcrd":
        _mdcrd.MDCRDTrajectoryFile = fac
    elif fmt == "xyz":
        _xyz.XYZTrajectoryFile = fac
    elif fmt == "lammpstrj":
        _lmp.LAMMPSTrajectoryFile = fac
    elif fmt == "arc":
        _arc.ArcTrajectoryFile = fac
    elif fmt == "gro":
        _gro.GroTrajectoryFile = fac


LOADERS = {"h5": lambda **k: _h5.load_hdf5("mem.h5", **k), "nc": lambda **k: _nc.load_netcdf("mem.nc", top=TOP4, **k),
           "mdcrd": lambda **k: _mdcrd.load_mdcrd("mem.mdcrd", top=TOP3, **k), "xyz": lambda **k: _xyz.load_xyz("mem.xyz", top=TOP3, **k),
           "lammpstrj": lambda **k: _lmp.load_lammpstrj("mem.lammpstrj", top=TOP3, **k), "arc": lambda **k: _arc.load_arc("mem.arc", **k),
           "gro": lambda **k: _gro.load_gro("mem.gro", **k)}


def _load_frame(fmt, total, frame, bits):
    total = conc(total)
    _install_class(fmt, total)
    n = NAT[fmt]
    sub = None if bits is None else _subset(n, bits)
    t = LOADERS[fmt](frame=frame, atom_indices=sub)
    return ids_of_traj(t, fmt) == [frame] and atoms_of_traj(t, fmt) == (list(range(n)) if sub is None else sub)


def _load_stride(fmt, total, stride, bits):
    total = conc(total)
    _install_class(fmt, total)
    n = NAT[fmt]
    sub = None if bits is None else _subset(n, bits)
    t = LOADERS[fmt](stride=stride, atom_indices=sub)
    ok = ids_of_traj(t, fmt) == list(range(0, total, stride)) and atoms_of_traj(t, fmt) == (list(range(n)) if sub is None else sub)
    if fmt in ("h5", "nc", "gro"):
        ok = ok and [int(round(float(x))) for x in t.time] == [2 * i for i in range(0, total, stride)]
    return ok


def gro_read_stride_step(total: int, pos: int, n: int, stride: int) -> bool:
    """
    pre: 1 <= total <= 6 and 0 <= pos <= total and 1 <= n <= 4 and 1 <= stride <= 4
    post: __return__
    """
    return _read_stride_step("gro", conc(total, 1, 6), conc(pos, 0, 6), conc(n, 1, 4), conc(stride, 1, 4))


def gro_read_all_stride(total: int, pos: int, stride: int) -> bool:
    """
    pre: 1 <= total <= 6 and 0 <= pos <= total and 1 <= stride <= 4
    post: __return__
    """
    return _read_all_stride("gro", conc(total, 1, 6), conc(pos, 0, 6), conc(stride, 1, 4))


def gro_iterload(total: int, chunk: int, stride: int) -> bool:
    """
    pre: 1 <= total <= 5 and 1 <= chunk <= 6 and 1 <= stride <= 3
    post: __return__
    """
    # (skip > 0 needs seek(), which this class does not offer: refused with NotImplementedError)
    return _iterload("gro", total, conc(chunk, 1, 6), conc(stride, 1, 3), 0, None)


def gro_iterload_atoms(total: int, chunk: int, stride: int, b0: bool, b1: bool, b2: bool) -> bool:
    """
    pre: 1 <= total <= 3 and 1 <= chunk <= 3 and 1 <= stride <= 2 and (b0 or b1 or b2)
    post: __return__
    """
    return _iterload("gro", total, conc(chunk, 1, 3), conc(stride, 1, 2), 0, (b0, b1, b2))


def gro_load_stride(total: int, stride: int, b0: bool, b1: bool, b2: bool) -> bool:
    """
    pre: 1 <= total <= 6 and 1 <= stride <= 4 and (b0 or b1 or b2)
    post: __return__
    """
    return _load_stride("gro", total, conc(stride, 1, 4), (b0, b1, b2))


# ------------------------------------------------------------------ load_pdb (all models are parsed up front; frame / stride / atoms select from them)

class _FakePDB:
    """stands for PDBTrajectoryFile after parsing: model i, atom j at (i, j, 0) angstrom, one CRYST1"""
    distance_unit = "angstroms"

    def __init__(self, total):
        import numpy as np
        self.positions = np.zeros((total, 3, 3))
        self.positions[:, :, 0] = np.arange(total)[:, None]
        self.positions[:, :, 1] = np.arange(3)[None, :]
        self.topology = TOP3
        self.unitcell_lengths, self.unitcell_angles = (50.0, 60.0, 70.0), (90.0, 90.0, 90.0)

    def __enter__(self):
        return self

    def __exit__(self, *a):
        return False


def _load_pdb(total, stride, frame, bits):
    import mdtraj.formats.pdb.pdbfile as _pdb
    total = conc(total, 1, 6)
    _pdb.PDBTrajectoryFile = lambda filename, *a, **k: _FakePDB(total)
    sub = None if bits is None else _subset(3, bits)
    t = _pdb.load_pdb("mem.pdb", stride=stride, atom_indices=sub, frame=frame, no_boxchk=True)
    want = [frame % total] if frame is not None else list(range(0, total, stride or 1))
    ids = [int(round(float(x) * 10)) for x in t.xyz[:, 0, 0]] if len(t) else []
    atoms = [int(round(float(x) * 10)) for x in t.xyz[0, :, 1]] if len(t) else None
    return (ids == want and atoms == (list(range(3)) if sub is None else sub) and [int(round(float(x))) for x in t.time] == want and t.topology.n_atoms == len(atoms)
            and t.unitcell_lengths.shape == (len(want), 3) and abs(float(t.unitcell_lengths[0, 0]) - 5.0) < 1e-6)


def pdb_load_frame(total: int, frame: int, stride: int, use_atoms: bool, b0: bool, b1: bool, b2: bool) -> bool:
    """
    pre: 1 <= total <= 5 and -total <= frame < total and 0 <= stride <= 3 and (b0 or b1 or b2)
    post: __return__
    """
    # (when `frame` is given, `stride` is documented to be ignored)
    stride = conc(stride, 0, 3)
    return _load_pdb(total, None if stride == 0 else stride, conc(frame, -5, 4), (b0, b1, b2) if use_atoms else None)


def pdb_load_stride(total: int, stride: int, use_atoms: bool, b0: bool, b1: bool, b2: bool) -> bool:
    """
    pre: 1 <= total <= 6 and 0 <= stride <= 4 and (b0 or b1 or b2)
    post: __return__
    """
    stride = conc(stride, 0, 4)
    return _load_pdb(total, None if stride == 0 else stride, None, (b0, b1, b2) if use_atoms else None)


# ------------------------------------------------------------------ CrossHair entry points (generated)

def h5_read_stride_step(total: int, pos: int, n: int, stride: int) -> bool:
    """
    pre: 1 <= total <= 6 and 0 <= pos <= total and 1 <= n <= 4 and 1 <= stride <= 4
    post: __return__
    """
    return _read_stride_step("h5", total, pos, n, stride)


def h5_read_all_stride(total: int, pos: int, stride: int) -> bool:
    """
    pre: 1 <= total <= 6 and 0 <= pos <= total and 1 <= stride <= 4
    post: __return__
    """
    return _read_all_stride("h5", total, pos, stride)


def h5_iterload(total: int, chunk: int, stride: int, skip: int) -> bool:
    """
    pre: 1 <= total <= 5 and 1 <= chunk <= 6 and 1 <= stride <= 3 and 0 <= skip <= total
    post: __return__
    """
    return _iterload("h5", total, chunk, stride, skip, None)


def h5_iterload_atoms(total: int, chunk: int, stride: int, b0: bool, b1: bool, b2: bool, b3: bool) -> bool:
    """
    pre: 1 <= total <= 3 and 1 <= chunk <= 3 and 1 <= stride <= 2
    pre: b0 or b1 or b2 or b3
    post: __return__
    """
    return _iterload("h5", total, chunk, stride, 0, (b0, b1, b2, b3,))


def h5_load_frame(total: int, frame: int, b0: bool, b1: bool, b2: bool, b3: bool) -> bool:
    """
    pre: 1 <= total <= 5 and 0 <= frame < total
    pre: b0 or b1 or b2 or b3
    post: __return__
    """
    return _load_frame("h5", total, frame, (b0, b1, b2, b3,))


def h5_load_stride(total: int, stride: int, b0: bool, b1: bool, b2: bool, b3: bool) -> bool:
    """
    pre: 1 <= total <= 6 and 1 <= stride <= 4
    pre: b0 or b1 or b2 or b3
    post: __return__
    """
    return _load_stride("h5", total, stride, (b0, b1, b2, b3,))


def nc_read_stride_step(total: int, pos: int, n: int, stride: int) -> bool:
    """
    pre: 1 <= total <= 6 and 0 <= pos <= total and 1 <= n <= 4 and 1 <= stride <= 4
    post: __return__
    """
    return _read_stride_step("nc", total, pos, n, stride)


def nc_read_all_stride(total: int, pos: int, stride: int) -> bool:
    """
    pre: 1 <= total <= 6 and 0 <= pos <= total and 1 <= stride <= 4
    post: __return__
    """
    return _read_all_stride("nc", total, pos, stride)


def nc_iterload(total: int, chunk: int, stride: int, skip: int) -> bool:
    """
    pre: 1 <= total <= 5 and 1 <= chunk <= 6 and 1 <= stride <= 3 and 0 <= skip <= total
    post: __return__
    """
    return _iterload("nc", total, chunk, stride, skip, None)


def nc_iterload_atoms(total: int, chunk: int, stride: int, b0: bool, b1: bool, b2: bool, b3: bool) -> bool:
    """
    pre: 1 <= total <= 3 and 1 <= chunk <= 3 and 1 <= stride <= 2
    pre: b0 or b1 or b2 or b3
    post: __return__
    """
    return _iterload("nc", total, chunk, stride, 0, (b0, b1, b2, b3,))


def nc_load_frame(total: int, frame: int, b0: bool, b1: bool, b2: bool, b3: bool) -> bool:
    """
    pre: 1 <= total <= 5 and 0 <= frame < total
    pre: b0 or b1 or b2 or b3
    post: __return__
    """
    return _load_frame("nc", total, frame, (b0, b1, b2, b3,))


def nc_load_stride(total: int, stride: int, b0: bool, b1: bool, b2: bool, b3: bool) -> bool:
    """
    pre: 1 <= total <= 6 and 1 <= stride <= 4
    pre: b0 or b1 or b2 or b3
    post: __return__
    """
    return _load_stride("nc", total, stride, (b0, b1, b2, b3,))


def mdcrd_read_stride_step(total: int, pos: int, n: int, stride: int) -> bool:
    """
    pre: 1 <= total <= 6 and 0 <= pos <= total and 1 <= n <= 4 and 1 <= stride <= 4
    post: __return__
    """
    return _read_stride_step("mdcrd", total, pos, n, stride)


def mdcrd_read_all_stride(total: int, pos: int, stride: int) -> bool:
    """
    pre: 1 <= total <= 6 and 0 <= pos <= total and 1 <= stride <= 4
    post: __return__
    """
    return _read_all_stride("mdcrd", total, pos, stride)


def mdcrd_iterload(total: int, chunk: int, stride: int, skip: int) -> bool:
    """
    pre: 1 <= total <= 5 and 1 <= chunk <= 6 and 1 <= stride <= 3 and 0 <= skip <= total
    post: __return__
    """
    return _iterload("mdcrd", total, chunk, stride, skip, None)


def mdcrd_iterload_atoms(total: int, chunk: int, stride: int, b0: bool, b1: bool, b2: bool) -> bool:
    """
    pre: 1 <= total <= 3 and 1 <= chunk <= 3 and 1 <= stride <= 2
    pre: b0 or b1 or b2
    post: __return__
    """
    return _iterload("mdcrd", total, chunk, stride, 0, (b0, b1, b2,))


def mdcrd_load_frame(total: int, frame: int, b0: bool, b1: bool, b2: bool) -> bool:
    """
    pre: 1 <= total <= 5 and 0 <= frame < total
    pre: b0 or b1 or b2
    post: __return__
    """
    return _load_frame("mdcrd", total, frame, (b0, b1, b2,))


def mdcrd_load_stride(total: int, stride: int, b0: bool, b1: bool, b2: bool) -> bool:
    """
    pre: 1 <= total <= 6 and 1 <= stride <= 4
    pre: b0 or b1 or b2
    post: __return__
    """
    return _load_stride("mdcrd", total, stride, (b0, b1, b2,))


def xyz_read_stride_step(total: int, pos: int, n: int, stride: int) -> bool:
    """
    pre: 1 <= total <= 6 and 0 <= pos <= total and 1 <= n <= 4 and 1 <= stride <= 4
    post: __return__
    """
    return _read_stride_step("xyz", total, pos, n, stride)


def xyz_read_all_stride(total: int, pos: int, stride: int) -> bool:
    """
    pre: 1 <= total <= 6 and 0 <= pos <= total and 1 <= stride <= 4
    post: __return__
    """
    return _read_all_stride("xyz", total, pos, stride)


def xyz_iterload(total: int, chunk: int, stride: int, skip: int) -> bool:
    """
    pre: 1 <= total <= 5 and 1 <= chunk <= 6 and 1 <= stride <= 3 and 0 <= skip <= total
    post: __return__
    """
    return _iterload("xyz", total, chunk, stride, skip, None)


def xyz_iterload_atoms(total: int, chunk: int, stride: int, b0: bool, b1: bool, b2: bool) -> bool:
    """
    pre: 1 <= total <= 3 and 1 <= chunk <= 3 and 1 <= stride <= 2
    pre: b0 or b1 or b2
    post: __return__
    """
    return _iterload("xyz", total, chunk, stride, 0, (b0, b1, b2,))


def xyz_load_frame(total: int, frame: int, b0: bool, b1: bool, b2: bool) -> bool:
    """
    pre: 1 <= total <= 5 and 0 <= frame < total
    pre: b0 or b1 or b2
    post: __return__
    """
    return _load_frame("xyz", total, frame, (b0, b1, b2,))


def xyz_load_stride(total: int, stride: int, b0: bool, b1: bool, b2: bool) -> bool:
    """
    pre: 1 <= total <= 6 and 1 <= stride <= 4
    pre: b0 or b1 or b2
    post: __return__
    """
    return _load_stride("xyz", total, stride, (b0, b1, b2,))


def lammpstrj_read_stride_step(total: int, pos: int, n: int, stride: int) -> bool:
    """
    pre: 1 <= total <= 6 and 0 <= pos <= total and 1 <= n <= 4 and 1 <= stride <= 4
    post: __return__
    """
    return _read_stride_step("lammpstrj", total, pos, n, stride)


def lammpstrj_read_all_stride(total: int, pos: int, stride: int) -> bool:
    """
    pre: 1 <= total <= 6 and 0 <= pos <= total and 1 <= stride <= 4
    post: __return__
    """
    return _read_all_stride("lammpstrj", total, pos, stride)


def lammpstrj_iterload(total: int, chunk: int, stride: int, skip: int) -> bool:
    """
    pre: 1 <= total <= 5 and 1 <= chunk <= 6 and 1 <= stride <= 3 and 0 <= skip <= total
    post: __return__
    """
    return _iterload("lammpstrj", total, chunk, stride, skip, None)


def lammpstrj_iterload_atoms(total: int, chunk: int, stride: int, b0: bool, b1: bool, b2: bool) -> bool:
    """
    pre: 1 <= total <= 3 and 1 <= chunk <= 3 and 1 <= stride <= 2
    pre: b0 or b1 or b2
    post: __return__
    """
    return _iterload("lammpstrj", total, chunk, stride, 0, (b0, b1, b2,))


def lammpstrj_load_frame(total: int, frame: int, b0: bool, b1: bool, b2: bool) -> bool:
    """
    pre: 1 <= total <= 5 and 0 <= frame < total
    pre: b0 or b1 or b2
    post: __return__
    """
    return _load_frame("lammpstrj", total, frame, (b0, b1, b2,))


def lammpstrj_load_stride(total: int, stride: int, b0: bool, b1: bool, b2: bool) -> bool:
    """
    pre: 1 <= total <= 6 and 1 <= stride <= 4
    pre: b0 or b1 or b2
    post: __return__
    """
    return _load_stride("lammpstrj", total, stride, (b0, b1, b2,))


def arc_read_stride_step(total: int, pos: int, n: int, stride: int) -> bool:
    """
    pre: 1 <= total <= 6 and 0 <= pos <= total and 1 <= n <= 4 and 1 <= stride <= 4
    post: __return__
    """
    return _read_stride_step("arc", total, pos, n, stride)


def arc_read_all_stride(total: int, pos: int, stride: int) -> bool:
    """
    pre: 1 <= total <= 6 and 0 <= pos <= total and 1 <= stride <= 4
    post: __return__
    """
    return _read_all_stride("arc", total, pos, stride)


def arc_iterload(total: int, chunk: int, stride: int, skip: int) -> bool:
    """
    pre: 1 <= total <= 5 and 1 <= chunk <= 6 and 1 <= stride <= 3 and 0 <= skip <= total
    post: __return__
    """
    return _iterload("arc", total, chunk, stride, skip, None)


def arc_iterload_atoms(total: int, chunk: int, stride: int, b0: bool, b1: bool, b2: bool) -> bool:
    """
    pre: 1 <= total <= 3 and 1 <= chunk <= 3 and 1 <= stride <= 2
    pre: b0 or b1 or b2
    post: __return__
    """
    return _iterload("arc", total, chunk, stride, 0, (b0, b1, b2,))


def arc_load_frame(total: int, frame: int, b0: bool, b1: bool, b2: bool) -> bool:
    """
    pre: 1 <= total <= 5 and 0 <= frame < total
    pre: b0 or b1 or b2
    post: __return__
    """
    return _load_frame("arc", total, frame, (b0, b1, b2,))


def arc_load_stride(total: int, stride: int, b0: bool, b1: bool, b2: bool) -> bool:
    """
    pre: 1 <= total <= 6 and 1 <= stride <= 4
    pre: b0 or b1 or b2
    post: __return__
    """
    return _load_stride("arc", total, stride, (b0, b1, b2,))


# ------------------------------------------------------------------ (d) iterload's format-independent branches
class IdTraj:
    """stand-in for the Trajectory that the (stubbed) full `load` returns: frame ids + atom ids."""

    def __init__(self, ids, atoms):
        self.ids, self.atoms = list(ids), atoms

    def __len__(self):
        return len(self.ids)

    def __getitem__(self, key):
        return IdTraj(self.ids[key], self.atoms)


def _iterload_generic(ext, total, chunk, stride, skip, bits):
    total, stride, skip, chunk = conc(total), conc(stride), conc(skip), conc(chunk)
    sub = None if bits is None else _subset(3, bits)

    def fake_load(filename, **kw):      # contract of md.load: honours stride and atom_indices
        s = kw.get("stride") or 1
        ai = kw.get("atom_indices")
        return IdTraj(list(range(total))[::s], None if ai is None else [int(a) for a in ai])
    _tr.load = fake_load
    kw = {} if ext in (".pdb", ".h5") else {"top": TOP3}
    chunks = list(_tr.iterload("mem" + ext, chunk=chunk, stride=stride, skip=skip, atom_indices=sub, **kw))
    got = [i for c in chunks for i in c.ids]
    if got != list(range(total))[skip::stride]:
        return False
    if any(c.atoms != sub for c in chunks):
        return False
    if chunk > 0 and any(len(c) != chunk for c in chunks[:-1]):
        return False
    return True


def iterload_chunk0(total: int, stride: int, skip: int, b0: bool, b1: bool, h5: bool) -> bool:
    """
    pre: 1 <= total <= 6 and 1 <= stride <= 3 and 0 <= skip <= total
    post: __return__
    """
    bits = (b0, b1, False) if (b0 or b1) else None
    return _iterload_generic(".h5" if h5 else ".xyz", total, 0, stride, skip, bits)


def iterload_pdb(total: int, chunk: int, stride: int, skip: int, b0: bool, b1: bool) -> bool:
    """
    pre: 1 <= total <= 6 and 1 <= chunk <= 4 and 1 <= stride <= 3 and 0 <= skip <= total
    post: __return__
    """
    bits = (b0, b1, False) if (b0 or b1) else None
    return _iterload_generic(".pdb", total, chunk, stride, skip, bits)
