"""C07 — angles and dihedrals equal their geometric definitions (E3 llsym on the kernels' IR; compositional).

The six kernels (angle, angle_mic, angle_mic_triclinic, dihedral, dihedral_mic, dihedral_mic_triclinic) CALL the
distance kernels whose contract is C05 (displacement[p] = minimum-image vector from pairs[p][0] to pairs[p][1], distance its
norm).  Here the callee is replaced by that contract (fresh symbolic displacement vectors D_p, distances s_p = sqrt(D_p.D_p)) and
the solver / exact polynomial algebra decide that
  * the callee is asked for the right pairs, coordinates, cell and sizes: both bond vectors FROM THE MIDDLE atom for angles;
    b1 = x1-x0, b2 = x2-x1, b3 = x3-x2 for dihedrals,
  * angle output   = acos( clip( D0.D1 / (s0 s1), -1, 1) ),
  * dihedral output = atan2( s1 * D0.(D1 x D2),  (D0 x D1).(D1 x D2) )        (IUPAC sign),
  * out[frame, k] indexing for 2 frames x 2 index rows."""
import time

import z3

from harness import c05
from vtlib import llsym as L
from vtlib.llsym import GP, Poly, P, rv

KERNELS = {"angle": ("dist", 3, False), "angle_mic": ("dist_mic", 3, True), "angle_mic_triclinic": ("dist_mic_triclinic", 3, True),
           "dihedral": ("dist", 4, False), "dihedral_mic": ("dist_mic", 4, True), "dihedral_mic_triclinic": ("dist_mic_triclinic", 4, True)}


def dot(a, b):
    return a[0] * b[0] + a[1] * b[1] + a[2] * b[2]


def cross(a, b):
    return [a[1] * b[2] - a[2] * b[1], a[2] * b[0] - a[0] * b[2], a[0] * b[1] - a[1] * b[0]]


def check_kernel(kernel: str):
    t0 = time.time()
    mod, _ = c05.module()
    callee, arity, periodic = KERNELS[kernel]
    n_frames, n_rows, n_atoms = 2, 2, 5
    rows = [[3, 0, 4], [1, 2, 0]] if arity == 3 else [[3, 0, 4, 1], [1, 2, 0, 4]]
    calls = []

    def stub(I, a):
        # signature: (xyz, pairs, [box], distance_out, displacement_out, n_frames, n_atoms, n_pairs)
        xyz, pairs = a[0], a[1]
        box = a[2] if periodic else None
        dout, disp, nf, na, npairs = a[-5], a[-4], a[-3], a[-2], a[-1]
        pr = I.get_ints(pairs, 2 * npairs)
        k = len(calls)
        D, S = [], []
        for f in range(nf):
            for p in range(npairs):
                d = [Poly.var(f"D{k}_{f}_{p}_{i}") for i in range(3)]
                sv = I.fresh(f"s{k}_{f}_{p}")
                I.fnapps.append(("sqrt", sv, [dot(d, d)]))
                I.side.append(I.emit(sv) >= 0)
                I.put_floats(L.Ptr(disp.obj, disp.off + 4 * 3 * (f * npairs + p)), d)
                I.put_floats(L.Ptr(dout.obj, dout.off + 4 * (f * npairs + p)), [sv])
                D.append(d)
                S.append(sv)
        calls.append({"xyz": xyz, "box": box, "pairs": [(pr[2 * i], pr[2 * i + 1]) for i in range(npairs)], "nf": nf, "na": na, "npairs": npairs, "D": D, "S": S})
        return L._NOTSET

    def setup(I):
        I.stubs = {callee: stub}
        calls.clear()
        X = [Poly.var(f"x{i}") for i in range(3 * n_atoms * n_frames)]
        xyz = I.new_floats(X)
        ind = I.new_ints([v for r in rows for v in r])
        out = I.alloc(4 * n_frames * n_rows, "none")
        args = [xyz, ind]
        box = None
        if periodic:
            box = I.new_floats([Poly.var(f"box{i}") for i in range(9 * n_frames)])
            args.append(box)
        args += [out, n_frames, n_atoms, n_rows]
        return args, {"out": out, "xyz": xyz, "box": box}
    problems, nq, paths = [], 0, 0
    ssec = 0.0
    for I, ctx, _ in L.explore(mod, kernel, setup, timeout_ms=30000):
        paths += 1
        if len(calls) != n_rows:
            problems.append(f"{callee} called {len(calls)} times for {n_rows} index rows")
            break
        for k, c in enumerate(calls):
            r = rows[k]
            want = [(r[1], r[0]), (r[1], r[2])] if arity == 3 else [(r[0], r[1]), (r[1], r[2]), (r[2], r[3])]
            if c["pairs"] != want:
                problems.append(f"row {k}: distance kernel asked for pairs {c['pairs']}, definition needs {want}")
            if (c["xyz"].obj, c["xyz"].off) != (ctx["xyz"].obj, 0) or c["nf"] != n_frames or c["na"] != n_atoms:
                problems.append(f"row {k}: coordinates / sizes handed on are not the kernel's own")
            if periodic and (c["box"].obj, c["box"].off) != (ctx["box"].obj, 0):
                problems.append(f"row {k}: the cell handed to the distance kernel is not the kernel's cell argument")
        outs = I.get_floats(ctx["out"], n_frames * n_rows)
        for f in range(n_frames):
            for k in range(n_rows):
                o = outs[n_rows * f + k]
                c = calls[k]
                npairs = c["npairs"]
                D = c["D"][f * npairs:(f + 1) * npairs]
                S = c["S"][f * npairs:(f + 1) * npairs]
                app = [a for a in I.fnapps if a[1].key() == P(o).key()]
                if len(app) != 1:
                    problems.append(f"out[{f},{k}] is not a single function application: {o}")
                    continue
                name, _, fargs = app[0]
                if arity == 3:
                    if name != "acos":
                        problems.append(f"out[{f},{k}] is {name}(...), expected acos")
                        continue
                    arg = fargs[0]
                    qs = [a for a in I.fnapps if a[0] == "div"]
                    q = next((a for a in qs if a[2][0].key() == dot(D[0], D[1]).key() and P(a[2][1]).key() == (S[0] * S[1]).key()), None)
                    if q is None:
                        problems.append(f"out[{f},{k}]: no quotient (D0.D1)/(s0*s1) was formed")
                        continue
                    qe = I.emit(q[1])
                    spec = z3.If(qe < -1, rv(-1), z3.If(qe > 1, rv(1), qe))
                    sol = z3.Solver()
                    sol.set("timeout", 30000)
                    sol.add(*I.side, *I.path, I.emit(arg) != spec)
                    t = time.time()
                    rr = sol.check()
                    ssec += time.time() - t
                    nq += 1
                    if rr != z3.unsat:
                        problems.append(f"out[{f},{k}]: acos argument is not clip(D0.D1/(s0 s1), -1, 1) ({rr})")
                else:
                    if name != "atan2":
                        problems.append(f"out[{f},{k}] is {name}(...), expected atan2")
                        continue
                    c1, c2 = cross(D[1], D[2]), cross(D[0], D[1])
                    y_want, x_want = dot(D[0], c1) * S[1], dot(c1, c2)
                    if P(fargs[0]).key() != y_want.key():
                        problems.append(f"out[{f},{k}]: atan2 first argument is not |b2| b1.(b2 x b3)")
                    if P(fargs[1]).key() != x_want.key():
                        problems.append(f"out[{f},{k}]: atan2 second argument is not (b1 x b2).(b2 x b3)")
    res = {"queries": nq + paths, "solver_s": round(ssec, 2), "paths": paths, "wall_s": round(time.time() - t0, 2), "ir_instructions": mod.ninsns}
    if problems:
        script = "# structural counterexample (holds for all coordinates):\n# " + "\n# ".join(problems[:6]) + "\n" + REPLAY.format(kernel=kernel)
        rep = _replay(kernel)
        return {**res, "status": "cex", "detail": "; ".join(problems[:4]), "cex": {"goal": kernel, "key": kernel, "inputs": {"problems": problems[:6]}, "reproduced": rep, "replay_script": script}}
    return {**res, "status": "holds", "twin_ok": paths > 0}


REPLAY = '''
import sys, ctypes, tempfile, subprocess, numpy as np, math, os
REPO = os.environ.get("VT_REPO", "/repo"); G = REPO + "/mdtraj/geometry"
d = tempfile.mkdtemp(); so = d + "/k.so"
subprocess.check_call(["g++", "-O2", "-shared", "-fPIC", "-D__NO_INTRINSICS", "-I" + G + "/include", "-I" + G + "/src/kernels", G + "/src/geometry.cpp", "-o", so])
lib = ctypes.CDLL(so)
rng = np.random.RandomState(3); bad = 0
for trial in range(240):
    x = (rng.rand(1, 4, 3) * 6 - 3).astype(np.float32); cell = np.array([[3.0, 0, 0], [0.7, 3.2, 0], [0.4, -0.9, 2.8]])
    if trial >= 40 and "{kernel}".startswith("angle"):       # exactly collinear bond vectors (angle 0 or pi): where the clamp of the cosine matters in floating point
        u = (rng.rand(3) - 0.5).astype(np.float32); s1, s2 = np.float32(rng.rand() * 0.4 + 0.05), np.float32((rng.rand() * 0.4 + 0.05) * (1 if trial % 2 else -1))
        x[0, 0] = x[0, 1] + s1 * u; x[0, 2] = x[0, 1] + s2 * u
    box = np.ascontiguousarray(cell.T[None], dtype=np.float32)
    def mic(v):
        import itertools
        return min((v + np.array(m) @ cell for m in itertools.product(range(-3, 4), repeat=3)), key=np.linalg.norm)
    per = "mic" in "{kernel}"
    if per and "triclinic" not in "{kernel}":
        cell = np.diag([3.0, 3.2, 2.8]); box = np.ascontiguousarray(cell.T[None], dtype=np.float32)
    dv = (lambda a, b: mic(x[0, b].astype(float) - x[0, a].astype(float))) if per else (lambda a, b: x[0, b].astype(float) - x[0, a].astype(float))
    out = np.zeros(1, dtype=np.float32)
    fp = lambda a: a.ctypes.data_as(ctypes.c_void_p)
    if "{kernel}".startswith("angle"):
        idx = np.array([0, 1, 2], dtype=np.int32); u, v = dv(1, 0), dv(1, 2)
        want = math.acos(max(-1, min(1, u @ v / np.linalg.norm(u) / np.linalg.norm(v))))
    else:
        idx = np.array([0, 1, 2, 3], dtype=np.int32); b1, b2, b3 = dv(0, 1), dv(1, 2), dv(2, 3)
        want = math.atan2(np.linalg.norm(b2) * (b1 @ np.cross(b2, b3)), np.cross(b1, b2) @ np.cross(b2, b3))
    args = [fp(x), fp(idx)] + ([fp(box)] if per else []) + [fp(out), 1, 4, 1]
    getattr(lib, "{kernel}")(*args)
    dlt = abs(out[0] - want); dlt = min(dlt, abs(dlt - 2 * math.pi))
    if not np.isfinite(out[0]) or dlt > (2e-3 if trial < 40 else 5e-3): bad += 1
print("{kernel}: trials deviating from the definition:", bad)
sys.exit(1 if bad else 0)
'''


def _replay(kernel):
    import os, subprocess, sys, tempfile
    with tempfile.NamedTemporaryFile("w", suffix=".py", delete=False) as fh:
        fh.write(REPLAY.format(kernel=kernel))
    from vtlib.core import REPO
    r = subprocess.run([sys.executable, fh.name], capture_output=True, text=True, env=dict(os.environ, VT_REPO=str(REPO)))
    os.unlink(fh.name)
    return r.returncode == 1
