"""Real-API replay of C18/C02 counterexamples: write a real file with mdtraj's own writer, drive the
public file object, compare with the cursor model.  Returns {'reproduced': bool, 'script': str}."""
import subprocess
import sys
import tempfile
import os

TEMPLATE = r'''
import sys, os, tempfile, numpy as np, warnings
warnings.simplefilter("ignore")
import mdtraj as md
FMT, OP, ARGS = {fmt!r}, {op!r}, {args!r}
EXT = {{"h5": ".h5", "nc": ".nc", "mdcrd": ".mdcrd", "xyz": ".xyz", "lammpstrj": ".lammpstrj", "arc": ".arc"}}[FMT]
def build(total, n_atoms=4):
    d = tempfile.mkdtemp(prefix="vt_replay_")
    import atexit, shutil; atexit.register(shutil.rmtree, d, True)
    p = os.path.join(d, "t" + EXT)
    xyz = np.zeros((total, n_atoms, 3), dtype=np.float32)
    xyz[:, :, 0] = np.arange(total)[:, None]              # frame id in x
    xyz[:, :, 1] = np.arange(n_atoms)[None, :] * 0.1      # atom id in y
    top = md.Topology(); c = top.add_chain(); r = top.add_residue("ALA", c)
    for i in range(n_atoms): top.add_atom("C%d" % i, md.element.carbon, r)
    t = md.Trajectory(xyz, top, time=np.arange(total, dtype=np.float32),
                      unitcell_lengths=np.ones((total, 3)) * 50, unitcell_angles=np.ones((total, 3)) * 90)
    t.save(p)
    return p, top
def op_open(p):
    return md.open(p, n_atoms=4) if FMT == "mdcrd" else md.open(p)
def ids(out):
    xyz = out.coordinates if hasattr(out, "coordinates") else (out[0] if isinstance(out, tuple) else out)
    if xyz is None or len(xyz) == 0: return []
    scale = 1.0 if FMT in ("h5",) else 0.1   # native units: nm for h5, angstrom elsewhere
    return [int(round(float(v) * scale)) for v in np.asarray(xyz)[:, 0, 0]]
def atoms(out):
    xyz = out.coordinates if hasattr(out, "coordinates") else out[0]
    scale = 1.0 if FMT in ("h5",) else 0.1
    return [int(round(float(v) * scale * 10)) for v in np.asarray(xyz)[0, :, 1]]
ok = True
if OP == "read_n":
    total, pos, n = ARGS; p, _ = build(total); f = op_open(p); f.seek(pos) if pos else None
    got = ids(f.read(n_frames=n)); exp = list(range(pos, min(pos + n, total)))
    ok = got == exp and f.tell() == pos + len(exp) and (not hasattr(f, "__len__") or len(f) == total)
    print("read_n", ARGS, "got", got, "exp", exp, "tell", f.tell())
elif OP == "read_all":
    total, pos = ARGS; p, _ = build(total); f = op_open(p); f.seek(pos) if pos else None
    got = ids(f.read()); ok = got == list(range(pos, total)) and f.tell() == total
    print("read_all", ARGS, "got", got, "tell", f.tell(), "expected tell", total)
elif OP == "read_atoms":
    total, pos, n = ARGS[:3]; sub = [i for i, b in enumerate(ARGS[3:7]) if b]
    p, _ = build(total); f = op_open(p); f.seek(pos) if pos else None
    out = f.read(n_frames=n, atom_indices=sub); exp = list(range(pos, min(pos + n, total)))
    ok = ids(out) == exp and atoms(out) == sub and f.tell() == pos + len(exp)
    print("read_atoms", ARGS, ids(out), atoms(out), f.tell())
elif OP == "seek":
    total, pos, off, whence = ARGS; p, _ = build(total); f = op_open(p); f.seek(pos) if pos else None
    f.seek(off, whence); exp = off if whence == 0 else (pos + off if whence == 1 else total + off)
    t0 = f.tell(); nxt = ids(f.read(n_frames=1))
    ok = t0 == exp and nxt == list(range(exp, min(exp + 1, total)))
    print("seek", ARGS, "tell", t0, "exp", exp, "next", nxt)
else:
    print("no real-API replay for", OP); sys.exit(3)
sys.exit(0 if ok else 1)
'''


def replay(cex):
    fn = cex["func"].replace("__twin", "")
    fmt, op = fn.split("_", 1)
    try:
        args = eval("(" + cex["args"] + ",)", {})
    except Exception:
        return {"reproduced": None, "note": "could not parse args"}
    script = TEMPLATE.format(fmt=fmt, op=op, args=tuple(args))
    with tempfile.TemporaryDirectory() as d:
        p = os.path.join(d, "r.py")
        open(p, "w").write(script)
        r = subprocess.run([sys.executable, p], capture_output=True, text=True)
    if r.returncode == 3:
        return {"reproduced": None, "note": "no real-API replay", "script": ""}
    return {"reproduced": r.returncode == 1 if r.returncode in (0, 1) else None, "output": (r.stdout + r.stderr)[-500:], "script": script}
