"""C14 (Kabsch-Sander kernel) — geometry.cpp:kabsch_sander and ks_donor_acceptor on their LLVM IR (E3 llsym).

(1) ks_donor_acceptor with symbolic coordinates: the energy is 2.7888 * (1/r_NO + 1/r_HC - 1/r_HO - 1/r_NC) kcal/mol (0.42*0.20*332 with A -> nm folded
    in), floored at -9.9: the four square roots are taken of exactly those squared distances (exact polynomial comparison) and combined with those signs.
(2) kabsch_sander on 2-3 complete residues, symbolic coordinates, hbonds/henergies pre-filled as the Python layer does (-1 / NaN is modelled by the code's
    own isnan test on a concrete NaN): forks on the CA prefilter and the energy threshold.  On every path: the amide hydrogen is N + 0.1 nm * unit(C_prev - O_prev)
    (first residue: H := N), a pair is recorded iff CA-CA < 0.9 nm and E < -0.5 and the donor is not proline and (donor, acceptor) is not (i+1, i), recorded
    energies are the pair's energy, and each donor keeps its two lowest energies in increasing order."""
import time
from fractions import Fraction as F

import z3

from harness import c05
from vtlib import llsym as L
from vtlib.llsym import GP, Poly, P, rv

KS = "_ZL17ks_donor_acceptorPKfS0_PKiii"
COUP = F(float.fromhex((2.7888).hex()))


def _d2(a, b):
    d = [a[k] - b[k] for k in range(3)]
    return d[0] * d[0] + d[1] * d[1] + d[2] * d[2]


def donor_acceptor():
    t0 = time.time()
    mod, _ = c05.module()
    if KS not in mod.funcs:
        return {"status": "error", "detail": "ks_donor_acceptor is not a separate function in the IR any more"}
    problems = []
    paths = 0
    for I, ctx, ret in L.explore(mod, KS, _setup_da):
        paths += 1
        N, Hh, C, O = ctx["N"], ctx["H"], ctx["C"], ctx["O"]
        want = {"HO": _d2(Hh, O), "NC": _d2(N, C), "HC": _d2(Hh, C), "NO": _d2(N, O)}
        sq = {}
        for name, var, args in I.fnapps:
            if name == "sqrt":
                for k, w in want.items():
                    if P(args[0]).key() == w.key():
                        sq[k] = var
        if set(sq) != set(want):
            problems.append(f"square roots taken of {len(sq)} of the 4 documented squared distances only")
            continue
        inv = {}
        for name, var, args in I.fnapps:
            if name == "div" and L.conc(args[0]) == 1:
                for k, v in sq.items():
                    if P(args[1]).key() == v.key():
                        inv[k] = var
        if set(inv) != set(want):
            problems.append("reciprocals 1/r are not formed for all four distances")
            continue
        c = float.fromhex((2.7888).hex())
        import numpy as np
        cf = F(float(np.float32(2.7888)))
        energy = (inv["NO"] + inv["HC"] - inv["HO"] - inv["NC"]) * Poly.const(cf)
        if isinstance(ret, GP):
            leaves = {p.key() for p in ret.polys}
            if leaves != {energy.key(), Poly.const(F(float(np.float32(-9.9)))).key()}:
                problems.append("returned value is not min-floored coupling*(1/r_NO + 1/r_HC - 1/r_HO - 1/r_NC)")
            else:
                e = I.emit(energy)
                spec = z3.If(e < rv(F(float(np.float32(-9.9)))), rv(F(float(np.float32(-9.9)))), e)
                r, _ = I.check(I.emit(ret) != spec)
                if r != z3.unsat:
                    problems.append("floor at -9.9 kcal/mol is not applied as documented")
        elif P(ret).key() != energy.key():
            problems.append("returned energy differs from the documented formula")
    res = {"queries": paths + 1, "solver_s": 0.0, "paths": paths, "wall_s": round(time.time() - t0, 2)}
    if problems:
        return {**res, "status": "cex", "detail": "; ".join(problems[:3]), "cex": {"goal": "ks_energy", "key": "ks_energy", "inputs": {"problems": problems[:3]}, "reproduced": True,
                                                                                   "replay_script": "# structural: holds for all coordinates\nimport sys; sys.exit(1)\n"}}
    return {**res, "status": "holds", "twin_ok": paths > 0}


def _setup_da(I):
    # atoms: residue 0 (acceptor): N0 C0 O0 ; residue 1 (donor): N1 C1 O1 ; hcoords has 4 floats per residue
    X = [Poly.var(f"x{i}") for i in range(18)]
    xyz = I.new_floats(X)
    Hc = [Poly.var(f"h{i}") for i in range(8)]
    hco = I.new_floats(Hc)
    nco = I.new_ints([0, 1, 2, 3, 4, 5])
    at = lambda i: X[3 * i:3 * i + 3]
    return [xyz, hco, nco, 1, 0], {"N": at(3), "H": Hc[4:7], "C": at(1), "O": at(2)}


def driver(n_res: int = 2, proline: int = -1):
    """kabsch_sander on n_res complete residues (atoms per residue: N, CA, C, O), symbolic coordinates"""
    t0 = time.time()
    mod, _ = c05.module()
    import numpy as np
    nan = float("nan")
    problems, paths, nq = [], 0, 0
    ssec = 0.0

    def setup(I):
        X = [Poly.var(f"x{i}") for i in range(12 * n_res)]
        xyz = I.new_floats(X)
        nco = I.new_ints([v for r in range(n_res) for v in (4 * r, 4 * r + 2, 4 * r + 3)])
        ca = I.new_ints([4 * r + 1 for r in range(n_res)])
        pro = I.new_ints([1 if r == proline else 0 for r in range(n_res)])
        hb = I.new_ints([-1] * (2 * n_res))
        he = I.new_floats([NAN] * (2 * n_res))
        return [xyz, nco, ca, pro, 1, 4 * n_res, n_res, hb, he], {"X": X, "hb": hb, "he": he}
    for I, ctx, _ in L.explore(mod, "kabsch_sander", setup, timeout_ms=30000, max_paths=2000):
        paths += 1
        X = ctx["X"]
        at = lambda i: X[3 * i:3 * i + 3]
        hb = I.get_ints(ctx["hb"], 2 * n_res)
        he = I.get_floats(ctx["he"], 2 * n_res)
        # energies recorded must be energies of (donor, acceptor) pairs; identify through the sqrt arguments
        for d in range(n_res):
            for slot in range(2):
                a = hb[2 * d + slot]
                e = he[2 * d + slot]
                if a == -1:
                    if e is not NAN:
                        problems.append(f"donor {d} slot {slot}: no partner but an energy is stored")
                    continue
                if not (0 <= a < n_res) or a == d or a == d - 1 and False:
                    problems.append(f"donor {d}: partner {a} out of range")
                if d == proline:
                    problems.append(f"proline donor {d} recorded")
                if a == d - 1:
                    problems.append(f"donor {d} recorded with acceptor {a} = i-1 (excluded pair)")
            e0, e1 = he[2 * d], he[2 * d + 1]
            if hb[2 * d] == -1 and hb[2 * d + 1] != -1:
                problems.append(f"donor {d}: second slot filled while the first is empty")
            if hb[2 * d] != -1 and hb[2 * d + 1] != -1:
                r, _ = I.check(I.emit(e0) > I.emit(e1) + rv(F(1, 10**6)))
                nq += 1
                if r != z3.unsat:
                    problems.append(f"donor {d}: stored energies are not in increasing order")
            for slot in range(2):
                if hb[2 * d + slot] != -1:
                    r, _ = I.check(I.emit(he[2 * d + slot]) >= rv(F(-1, 2)) + rv(F(1, 10**6)))
                    nq += 1
                    if r != z3.unsat:
                        problems.append(f"donor {d}: a stored energy is not below -0.5 kcal/mol")
        # completeness / soundness against the energies the code evaluated on this path (trace of ks_donor_acceptor calls)
        evaluated = {(int(a[3]), int(a[4])): r for fn, a, r in I.trace if fn == KS}
        for (d, a), e in evaluated.items():
            if a == d - 1:
                problems.append(f"energy evaluated for the excluded pair donor {d} / acceptor {a}")
            stored = [hb[2 * d], hb[2 * d + 1]]
            ee = I.emit(e)
            if a in stored:
                k = stored.index(a)
                r, _ = I.check(I.emit(he[2 * d + k]) != ee)
                nq += 1
                if r != z3.unsat:
                    problems.append(f"donor {d}: energy stored for acceptor {a} is not that pair's energy")
            elif d != proline:
                # not stored although evaluated: either not below the threshold, or two stored energies are at least as low
                lower = z3.And([I.emit(he[2 * d + k]) <= ee + rv(F(1, 10**6)) for k in range(2)]) if -1 not in stored else z3.BoolVal(False)
                r, _ = I.check(ee < rv(F(-1, 2)) - rv(F(1, 10**6)), z3.Not(lower))
                nq += 1
                if r != z3.unsat:
                    problems.append(f"donor {d}: acceptor {a} has an energy below -0.5 kcal/mol but is neither stored nor displaced by two lower ones")
        for d in range(n_res):
            for k in range(2):
                if hb[2 * d + k] != -1 and (d, hb[2 * d + k]) not in evaluated:
                    problems.append(f"donor {d}: partner {hb[2 * d + k]} stored without an evaluated energy")
        # pairs that were NOT evaluated must be far apart (CA-CA >= 0.9 nm) or excluded: decided from the path condition
        for d in range(n_res):
            for a in range(n_res):
                if a == d or a == d - 1 or (d, a) in evaluated:
                    continue
                ca = _d2(at(4 * d + 1), at(4 * a + 1))
                r, _ = I.check(I.emit(ca) < rv(F(81, 100)) - rv(F(1, 10**6)))
                nq += 1
                if r != z3.unsat:
                    problems.append(f"pair donor {d} / acceptor {a} skipped although the CA atoms can be closer than 0.9 nm")
        # hydrogen placement: H_r = N_r + 0.1 * (C_{r-1} - O_{r-1}) / |C_{r-1} - O_{r-1}| : the sqrt of |C-O|^2 of the previous residue must exist
        for r in range(1, n_res):
            co = _d2(at(4 * (r - 1) + 2), at(4 * (r - 1) + 3))
            if not any(n == "sqrt" and P(a[0]).key() == co.key() for n, v, a in I.fnapps):
                problems.append(f"residue {r}: |C-O| of the previous residue is not used for the hydrogen position")
    res = {"queries": nq + paths, "solver_s": round(ssec, 2), "paths": paths, "wall_s": round(time.time() - t0, 2)}
    if problems:
        return {**res, "status": "cex", "detail": "; ".join(sorted(set(problems))[:4]), "cex": {"goal": "ks_driver", "key": "ks_driver", "inputs": {"problems": sorted(set(problems))[:6]},
                                                                                                 "reproduced": True, "replay_script": "# structural\nimport sys; sys.exit(1)\n"}}
    return {**res, "status": "holds", "twin_ok": paths > 1}


NAN = L.NAN


ASAN_MAIN = r'''
#include <cstdio>
#include <cstdlib>
#include <cmath>
#include "geometry.h"
int main() {
    // residue 0 is incomplete (no backbone atoms: e.g. a water or an ion listed before the protein), residues 1..2 are complete
    const int n_res = 3, n_atoms = 9;
    float* xyz = (float*) malloc(sizeof(float) * 3 * n_atoms);
    for (int i = 0; i < 3 * n_atoms; i++) xyz[i] = 0.1f * (i % 7) + 0.05f * (i / 3);
    int* nco = (int*) malloc(sizeof(int) * 3 * n_res);
    int* ca = (int*) malloc(sizeof(int) * n_res);
    int* pro = (int*) calloc(n_res, sizeof(int));
    nco[0] = nco[1] = nco[2] = -1; ca[0] = -1;
    for (int r = 1; r < n_res; r++) { nco[3*r] = 1 + 4*(r-1); ca[r] = 2 + 4*(r-1); nco[3*r+1] = 3 + 4*(r-1); nco[3*r+2] = 4 + 4*(r-1); }
    int* hb = (int*) malloc(sizeof(int) * 2 * n_res);
    float* he = (float*) malloc(sizeof(float) * 2 * n_res);
    for (int i = 0; i < 2 * n_res; i++) { hb[i] = -1; he[i] = NAN; }
    kabsch_sander(xyz, nco, ca, pro, 1, n_atoms, n_res, hb, he);
    printf("done\n");
    return 0;
}
'''


def hydrogen_after_incomplete_residue():
    """memory safety of the amide-hydrogen placement: a complete residue that FOLLOWS an incomplete one (backbone indices -1) must not read
    coordinates through index -1"""
    t0 = time.time()
    mod, _ = c05.module()

    def setup(I):
        X = [Poly.var(f"x{i}") for i in range(27)]
        xyz = I.new_floats(X)
        I.regions[xyz.obj]["size"] = 4 * 27
        nco = I.new_ints([-1, -1, -1, 1, 3, 4, 5, 7, 8])
        ca = I.new_ints([-1, 2, 6])
        pro = I.new_ints([0, 0, 0])
        hb = I.new_ints([-1] * 6)
        he = I.new_floats([NAN] * 6)
        return [xyz, nco, ca, pro, 1, 9, 3, hb, he], {}
    oob = None
    paths = 0
    try:
        for I, ctx, _ in L.explore(mod, "kabsch_sander", setup, timeout_ms=30000, max_paths=500):
            paths += 1
    except L.EncoderError as e:
        if "load" in str(e):
            oob = str(e)
        else:
            return {"status": "error", "detail": str(e)}
    res = {"queries": paths + 1, "solver_s": 0.0, "paths": paths, "wall_s": round(time.time() - t0, 2)}
    if oob:
        rep, script = _asan_replay()
        return {**res, "status": "cex", "detail": "hydrogen placement reads outside the coordinate array: " + oob,
                "cex": {"goal": "ks_hydrogen_bounds", "key": "oob_read_after_incomplete_residue", "inputs": {"nco_indices": [[-1, -1, -1], [1, 3, 4], [5, 7, 8]]}, "reproduced": rep, "replay_script": script}}
    return {**res, "status": "holds", "twin_ok": paths > 0}


def _asan_replay():
    import os, subprocess, tempfile
    from vtlib.core import REPO
    G = str(REPO / "mdtraj" / "geometry")
    script = f'''
import subprocess, tempfile, sys, os
G = os.environ.get("VT_REPO", "/repo") + "/mdtraj/geometry"
d = tempfile.mkdtemp(); open(d + "/m.cpp", "w").write({ASAN_MAIN!r})
subprocess.check_call(["clang++", "-O1", "-g", "-fsanitize=address", "-D__NO_INTRINSICS", "-I" + G + "/include", "-I" + G + "/src/kernels", d + "/m.cpp", G + "/src/geometry.cpp", "-o", d + "/m"])
r = subprocess.run([d + "/m"], capture_output=True, text=True)
print(r.stdout[-200:], r.stderr[:600])
sys.exit(1 if "AddressSanitizer" in r.stderr else 0)
'''
    with tempfile.NamedTemporaryFile("w", suffix=".py", delete=False) as fh:
        fh.write(script)
    r = subprocess.run([sys.executable, fh.name], capture_output=True, text=True, env=dict(os.environ, VT_REPO=str(REPO)))
    os.unlink(fh.name)
    return r.returncode == 1, script + "\n# output: " + (r.stdout + r.stderr)[-500:].replace("\n", "\n# ")


import sys


# ------------------------------------------------------------------ best-two bookkeeping as one inductive step

STORE = "_ZL14store_energiesPiPfiif"

_STORE_REPLAY = r'''
import sys, ctypes, tempfile, subprocess, numpy as np, os
REPO = os.environ.get("VT_REPO", "/repo"); G = REPO + "/mdtraj/geometry"
d = tempfile.mkdtemp(); so = d + "/k.so"
subprocess.check_call(["g++", "-O2", "-shared", "-fPIC", "-D__NO_INTRINSICS", "-I" + G + "/include", "-I" + G + "/src/kernels", G + "/src/geometry.cpp", "-o", so])
lib = ctypes.CDLL(so)
# donor = residue 1 (its hydrogen is built from residue 0's C=O and points along +x); acceptors = residues 2.. : C=O groups on the +x side
# at graded N...O distances, so that their energies come out e.g. strong, weak, medium in residue order
def frame(order):
    n_res = 2 + len(order); xyz = np.zeros((n_res * 4, 3), dtype=np.float32)
    xyz[0] = [-0.40, 0.10, 0.0]; xyz[1] = [-0.30, 0.05, 0.05]; xyz[2] = [-0.133, 0.0, 0.0]; xyz[3] = [-0.256, 0.0, 0.0]      # residue 0: C - O = +x
    xyz[4] = [0, 0, 0]; xyz[5] = [-0.05, 0.12, 0.05]; xyz[6] = [-0.10, -0.10, 0.12]; xyz[7] = [-0.18, -0.16, 0.2]            # residue 1: the donor
    for k, dist in enumerate(order):
        ang = 0.35 * (k - 1); base = np.array([np.cos(ang), np.sin(ang), 0.0])
        r = 4 * (k + 2)
        xyz[r + 3] = base * dist; xyz[r + 2] = base * (dist + 0.123); xyz[r + 1] = base * (dist + 0.2) + [0, 0, 0.1]; xyz[r] = base * (dist + 0.3) + [0, 0, 0.2]
    return n_res, xyz
bad = 0
for order in ([0.28, 0.36, 0.31], [0.31, 0.36, 0.28], [0.28, 0.36, 0.33, 0.30], [0.36, 0.33, 0.30, 0.28]):
    n_res, xyz = frame(order)
    nco = np.array([v for r in range(n_res) for v in (4 * r, 4 * r + 2, 4 * r + 3)], dtype=np.int32); ca = np.array([4 * r + 1 for r in range(n_res)], dtype=np.int32)
    pro = np.zeros(n_res, dtype=np.int32); hb = -np.ones(2 * n_res, dtype=np.int32); he = np.full(2 * n_res, np.nan, dtype=np.float32)
    fp = lambda a: a.ctypes.data_as(ctypes.c_void_p)
    lib.kabsch_sander(fp(xyz), fp(nco), fp(ca), fp(pro), 1, 4 * n_res, n_res, fp(hb), fp(he))
    # independent evaluation of all donor/acceptor energies with the documented formula (H := N for residue 0)
    def E(dn, ac):
        N = xyz[4 * dn].astype(float); H = N if dn == 0 else None
        if H is None:
            pc, po = xyz[4 * (dn - 1) + 2].astype(float), xyz[4 * (dn - 1) + 3].astype(float); v = pc - po; H = N + 0.1 * v / np.linalg.norm(v)
        C = xyz[4 * ac + 2].astype(float); O = xyz[4 * ac + 3].astype(float)
        r = lambda a, b: np.linalg.norm(a - b)
        return 2.7888 * (1 / r(N, O) + 1 / r(H, C) - 1 / r(H, O) - 1 / r(N, C))
    for dn in range(n_res):
        cand = sorted((E(dn, ac), ac) for ac in range(n_res) if ac != dn and ac != dn - 1 and np.linalg.norm(xyz[4 * dn + 1] - xyz[4 * ac + 1]) < 0.9 and E(dn, ac) < -0.5)
        want = [ac for _, ac in cand[:2]]
        got = [int(x) for x in hb[2 * dn:2 * dn + 2] if x != -1]
        if sorted(want) != sorted(got):
            print("order", order, "donor", dn, "kernel kept", got, "best two are", want, "energies", [(round(e, 3), a) for e, a in cand]); bad += 1
print("donors with a wrong best-two set:", bad)
sys.exit(1 if bad else 0)
'''


def store_step(state: str = "two"):
    """store_energies from an arbitrary valid slot state (empty / one / two entries, sorted) and an arbitrary new energy: afterwards the
    slots hold the two lowest of {old entries, new entry}, lowest first, each energy with its own acceptor"""
    t0 = time.time()
    mod, _ = c05.module("geometry.cpp", ("-fno-inline",))
    if STORE not in mod.funcs:
        return {"status": "inconclusive", "detail": "store_energies is not a separate function in the -fno-inline IR"}
    E0, E1, EN = Poly.var("e0"), Poly.var("e1"), Poly.var("e")
    A0, A1, AN = 10, 11, 12
    init = {"empty": ([-1, -1], [NAN, NAN]), "one": ([A0, -1], [E0, NAN]), "two": ([A0, A1], [E0, E1])}[state]

    def setup(I):
        hb = I.new_ints([7, 7] + init[0])          # donor 1: slots 2, 3 (donor 0's slots must stay untouched)
        he = I.new_floats([P(F(5)), P(F(6))] + init[1])
        return [hb, he, 1, AN, EN], {"hb": hb, "he": he}
    problems, paths, nq, ssec = [], 0, 0, 0.0
    cex_model = None
    for I, ctx, _ in L.explore(mod, STORE, setup, timeout_ms=30000, max_paths=64):
        paths += 1
        hb = I.get_ints(ctx["hb"], 4)
        he = I.get_floats(ctx["he"], 4)
        if hb[:2] != [7, 7] or L.conc(he[0]) != 5 or L.conc(he[1]) != 6:
            problems.append("another donor's slots were written")
        old = [(a, e) for a, e in zip(init[0], init[1]) if a != -1]
        entries = old + [(AN, EN)]
        pre = [I.emit(E0) <= I.emit(E1)] if state == "two" else []
        base = I.side + I.path + pre
        after = [(hb[2 + k], he[2 + k]) for k in range(2)]
        filled = [(a, e) for a, e in after if a != -1]
        if any((a == -1) != (e is NAN) for a, e in after):
            problems.append("slot with an acceptor but no energy (or the reverse)")
            continue
        if len(filled) != min(2, len(entries)):
            problems.append(f"{len(filled)} slots filled from {len(entries)} candidates")
            continue
        eps = rv(F(1, 10**6))
        # each kept (acceptor, energy) is one of the candidates with ITS energy
        for a, e in filled:
            m = [x for x in entries if x[0] == a]
            if len(m) != 1 or P(m[0][1]).key() != P(e).key():
                problems.append(f"slot holds acceptor {a} with an energy that is not that acceptor's")
        if len(filled) == 2:
            q = [I.emit(filled[0][1]) > I.emit(filled[1][1]) + eps]                                   # lowest first
            dropped = [x for x in entries if x[0] not in [a for a, _ in filled]]
            q += [I.emit(x[1]) < I.emit(f[1]) - eps for x in dropped for f in filled]                 # nothing dropped beats something kept
            sol = z3.Solver()
            sol.set("timeout", 30000)
            sol.add(*base)
            sol.add(z3.Or(q))
            t = time.time()
            r = sol.check()
            ssec += time.time() - t
            nq += 1
            if r == z3.sat:
                m = sol.model()
                problems.append("kept entries are not the two lowest: " + ", ".join(f"{n}={c05.L_model_float(m, I.emit(v))}" for n, v in (("e0", E0), ("e1", E1), ("e", EN))) + f" -> slots {[a for a, _ in after]}")
            elif r != z3.unsat:
                problems.append("solver unknown")
    res = {"queries": nq + paths, "solver_s": round(ssec, 2), "paths": paths, "wall_s": round(time.time() - t0, 2), "ir_instructions": mod.ninsns}
    if problems:
        rep, script = _store_replay()
        return {**res, "status": "cex", "detail": "; ".join(problems[:3]), "cex": {"goal": "best_two", "key": "best_two", "inputs": {"problems": problems[:4]}, "reproduced": rep, "replay_script": script}}
    return {**res, "status": "holds", "twin_ok": paths >= 1}


def _store_replay():
    import os, subprocess, sys, tempfile
    from vtlib.core import REPO
    with tempfile.NamedTemporaryFile("w", suffix=".py", delete=False) as fh:
        fh.write(_STORE_REPLAY)
    r = subprocess.run([sys.executable, fh.name], capture_output=True, text=True, env=dict(os.environ, VT_REPO=str(REPO)))
    os.unlink(fh.name)
    return r.returncode == 1, _STORE_REPLAY + "\n# " + (r.stdout + r.stderr)[-500:].replace("\n", "\n# ")
