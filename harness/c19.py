"""C19 — incremental writing equals one-shot writing; ragged writes are refused atomically.
The real write() methods run under CrossHair on recording back ends.  Primary form: ONE write call from an
ARBITRARY valid writer state (k frames already stored, with/without time, with/without cell): a consistent
call appends exactly its frames; an inconsistent one raises and leaves every stored array as it was."""
import vtlib.xhfix  # noqa: F401
import io
import types

import numpy as np

import mdtraj.formats.hdf5 as _h5
import mdtraj.formats.lammpstrj as _lmp
import mdtraj.formats.mdcrd as _mdcrd
import mdtraj.formats.netcdf as _nc
import mdtraj.formats.xyzfile as _xyz
from vtlib.fakes import NoSuchNodeError
from vtlib.xhfix import conc

NA = 2


def frames(start, n, n_atoms=NA):
    a = np.zeros((n, n_atoms, 3), dtype=np.float32)
    a[:, :, 0] = np.arange(start, start + n, dtype=np.float32)[:, None]
    a[:, :, 1] = np.arange(n_atoms, dtype=np.float32)[None, :]
    return a


def times(start, n):
    return np.arange(start, start + n, dtype=np.float32) * 2.0


def cells(start, n):
    return np.arange(start, start + n, dtype=np.float32)[:, None] + np.array([[5.0, 6.0, 7.0]], dtype=np.float32)


def angles(n):
    return np.full((n, 3), 90.0, dtype=np.float32)


# ------------------------------------------------------------------ HDF5 recording back end

class _Attrs(dict):
    def __getattr__(self, n):
        try:
            return self[n]
        except KeyError:
            raise AttributeError(n)

    def __setattr__(self, n, v):
        self[n] = v


class WNode:
    def __init__(self, shape):
        self.shape0 = tuple(shape[1:])
        self.rows = []
        self.attrs = _Attrs()

    def append(self, arr):
        arr = np.asarray(arr)
        if tuple(arr.shape[1:]) != self.shape0:
            raise ValueError("the shapes of the appended object and the EArray differ")   # pytables' behaviour
        self.rows += [np.array(r) for r in arr]

    def __len__(self):
        return len(self.rows)

    @property
    def shape(self):
        return (len(self.rows),) + self.shape0


class WH5:
    def __init__(self):
        self.root = types.SimpleNamespace(_v_attrs=types.SimpleNamespace())
        self.nodes = {}
        self.flushes = 0

    def create_earray(self, where, name, atom=None, shape=None, **k):
        n = WNode(shape)
        self.nodes[name] = n
        setattr(self.root, name, n)
        return n

    def get_node(self, where, name):
        if name in self.nodes:
            return self.nodes[name]
        raise NoSuchNodeError(name)

    def flush(self):
        self.flushes += 1

    def close(self):
        pass

    def snapshot(self):
        return {k: len(v) for k, v in self.nodes.items()}


class _FakeTablesW:
    NoSuchNodeError = NoSuchNodeError

    @staticmethod
    def Float32Atom():
        return "f4"


_H5Cls = _h5.HDF5TrajectoryFile


def h5_state(k, has_time, has_cell, append_mode):
    """a writer over a file that already holds k frames (k == 0 and mode 'w': nothing written yet)"""
    f = object.__new__(_H5Cls)
    f._open, f.mode, f.tables = True, ("a" if append_mode else "w"), _FakeTablesW()
    f._handle = WH5()
    f._frame_index, f._needs_initialization = 0, True
    if k > 0:
        f.write(frames(0, k), time=times(0, k) if has_time else None,
                cell_lengths=cells(0, k) if has_cell else None, cell_angles=angles(k) if has_cell else None)
    return f


def _ids(rows):
    return [int(round(float(r[0][0]))) for r in rows]


def _h5_step(k, ht, hc, m, gt, gc, ga, na_ok, amode):
    k, m = conc(k, 0, 4), conc(m, 1, 3)
    f = h5_state(k, ht, hc, amode)
    before = f._handle.snapshot()
    fi = f._frame_index
    kw = dict(time=times(k, m) if gt else None, cell_lengths=cells(k, m) if gc else None, cell_angles=angles(m) if ga else None)
    consistent = (k == 0 or (gt == ht and gc == hc and ga == hc and na_ok)) and gc == ga
    try:
        f.write(frames(k, m, NA if na_ok else NA + 1), **kw)
        raised = False
    except (ValueError, TypeError):
        raised = True
    h = f._handle
    if not consistent:
        # refused, and every stored array is exactly as long as before (atomic refusal); position unchanged
        return raised and h.snapshot() == before and f._frame_index == fi
    if raised:
        return False
    ok = _ids(h.nodes["coordinates"].rows) == list(range(k + m)) and f._frame_index == k + m
    if (gt if k == 0 else ht):
        ok = ok and [float(x) for x in h.nodes["time"].rows] == [2.0 * i for i in range(k + m)]
    else:
        ok = ok and "time" not in h.nodes
    if (gc if k == 0 else hc):
        ok = ok and [int(round(float(r[0]))) for r in h.nodes["cell_lengths"].rows] == [5 + i for i in range(k + m)] \
            and len(h.nodes["cell_angles"]) == k + m
    else:
        ok = ok and "cell_lengths" not in h.nodes
    return ok and h.flushes >= 1


def h5_write_step(k: int, ht: bool, hc: bool, m: int, gt: bool, gc: bool, ga: bool, na_ok: bool, amode: bool) -> bool:
    """
    pre: 0 <= k <= 3 and 1 <= m <= 3
    post: __return__
    """
    return _h5_step(k, ht, hc, m, gt, gc, ga, na_ok, amode)


def h5_refuse_then_continue(k: int, ht: bool, hc: bool, gt: bool, gc: bool, m: int) -> bool:
    """
    pre: 1 <= k <= 2 and 1 <= m <= 2
    pre: gt != ht or gc != hc
    post: __return__
    """
    k, m = conc(k, 1, 2), conc(m, 1, 2)
    f = h5_state(k, ht, hc, False)
    try:
        f.write(frames(k, m), time=times(k, m) if gt else None, cell_lengths=cells(k, m) if gc else None, cell_angles=angles(m) if gc else None)
        return False
    except ValueError:
        pass
    f.write(frames(k, m), time=times(k, m) if ht else None, cell_lengths=cells(k, m) if hc else None, cell_angles=angles(m) if hc else None)
    h = f._handle
    return _ids(h.nodes["coordinates"].rows) == list(range(k + m)) and all(len(n) == k + m for n in h.nodes.values()) and f._frame_index == k + m


# ------------------------------------------------------------------ NetCDF recording back end

class WVar:
    def __init__(self, h, name, dims):
        self.h, self.name, self.dims = h, name, dims
        self.rows = {}
        self.record = bool(dims) and dims[0] == "frame"

    def __setitem__(self, key, val):
        if not self.record:
            return
        if isinstance(key, tuple):
            key = key[0]
        start = key.start
        val = np.asarray(val)
        want = tuple(self.h.dims[d] for d in self.dims[1:])
        if tuple(val.shape[1:]) != want:
            raise ValueError("shape mismatch: objects cannot be broadcast")   # netCDF4/scipy behaviour
        for i, r in enumerate(val):
            self.rows[start + i] = np.array(r)
        self.h.n_records = max(self.h.n_records, start + len(val))   # the unlimited dimension grows for every record variable

    @property
    def shape(self):
        return (self.h.n_records,) + tuple(self.h.dims[d] for d in self.dims[1:])


class WNC:
    def __init__(self):
        self.dims, self.variables, self.n_records, self.syncs = {}, {}, 0, 0

    @property
    def dimensions(self):
        return self.dims

    def createDimension(self, name, n):
        self.dims[name] = n

    def createVariable(self, name, typ, dims):
        v = WVar(self, name, dims)
        self.variables[name] = v
        return v

    def sync(self):
        self.syncs += 1

    flush = sync

    def close(self):
        pass

    def snapshot(self):
        return (self.n_records, {k: sorted(v.rows) for k, v in self.variables.items() if v.record})


_NCCls = _nc.NetCDFTrajectoryFile
_nc.socket = types.SimpleNamespace(gethostname=lambda: "host")   # environment stub (the title attribute only)


def nc_state(k, has_time, has_cell):
    f = object.__new__(_NCCls)
    f._closed, f._mode = False, "w"
    f._handle = WNC()
    f._frame_index, f._needs_initialization = 0, True
    if k > 0:
        f.write(frames(0, k), time=times(0, k) if has_time else None,
                cell_lengths=cells(0, k) if has_cell else None, cell_angles=angles(k) if has_cell else None)
    return f


def nc_write_step(k: int, ht: bool, hc: bool, m: int, gt: bool, gc: bool, ga: bool, na_ok: bool) -> bool:
    """
    pre: 0 <= k <= 3 and 1 <= m <= 3
    post: __return__
    """
    k, m = conc(k, 0, 4), conc(m, 1, 3)
    f = nc_state(k, ht, hc)
    before = f._handle.snapshot()
    fi = f._frame_index
    kw = dict(time=times(k, m) if gt else None, cell_lengths=cells(k, m) if gc else None, cell_angles=angles(m) if ga else None)
    consistent = (k == 0 or (gt == ht and gc == hc and ga == hc and na_ok)) and gc == ga
    try:
        f.write(frames(k, m, NA if na_ok else NA + 1), **kw)
        raised = False
    except (ValueError, TypeError):
        raised = True
    h = f._handle
    if not consistent:
        return raised and h.snapshot() == before and f._frame_index == fi
    if raised:
        return False
    rows = h.variables["coordinates"].rows
    ok = sorted(rows) == list(range(k + m)) and [int(round(float(rows[i][0][0]))) for i in range(k + m)] == list(range(k + m)) \
        and f._frame_index == k + m and h.n_records == k + m
    if (gt if k == 0 else ht):
        ok = ok and [float(h.variables["time"].rows[i]) for i in range(k + m)] == [2.0 * i for i in range(k + m)]
    else:
        ok = ok and "time" not in h.variables
    if (gc if k == 0 else hc):
        ok = ok and [int(round(float(h.variables["cell_lengths"].rows[i][0]))) for i in range(k + m)] == [5 + i for i in range(k + m)]
    else:
        ok = ok and "cell_lengths" not in h.variables
    return ok


# ------------------------------------------------------------------ text writers: partition equivalence via the real reader

def _text_partition(fmt, n, a, b, box):
    """write frames 0..n-1 as [0,a) [a,b) [b,n) (empty pieces skipped) and in one shot; the two files must be identical
    where the format stores no per-call counter, and must read back (real reader) to the same frames otherwise."""
    n, a, b = conc(n, 1, 4), conc(a, 0, 4), conc(b, 0, 4)
    outs = []
    for pieces in ([(0, a), (a, b), (b, n)], [(0, n)]):
        if fmt == "mdcrd":
            fh = io.BytesIO()
            f = object.__new__(_mdcrd.MDCRDTrajectoryFile)
            f._is_open, f._filename, f._n_atoms, f._mode, f._w_has_box, f._frame_index, f._has_box, f._line_counter = True, "m", None, "w", None, 0, "detect", 0
        elif fmt == "xyz":
            fh = io.StringIO()
            f = object.__new__(_xyz.XYZTrajectoryFile)
            f._is_open, f._filename, f._mode, f._frame_index, f._n_frames, f._line_counter = True, "m", "w", 0, None, 0
        else:
            fh = io.StringIO()
            f = object.__new__(_lmp.LAMMPSTrajectoryFile)
            f._is_open, f._filename, f._mode, f._frame_index, f._line_counter = True, "m", "w", 0, 0
        f._fh = fh
        for s, e in pieces:
            if e <= s:
                continue
            if fmt == "mdcrd":
                f.write(frames(s, e - s), cells(s, e - s) if box else None)
            elif fmt == "xyz":
                f.write(frames(s, e - s))
            else:
                f.write(frames(s, e - s), cells(s, e - s), angles(e - s))
        outs.append(fh.getvalue())
        f._is_open = False
    inc, one = outs
    if fmt == "lammpstrj":   # the per-call TIMESTEP counter differs; everything else must be identical
        strip = lambda t: [ln for i, ln in enumerate(t.split("\n")) if not (i > 0 and t.split("\n")[i - 1] == "ITEM: TIMESTEP")]
        return strip(inc) == strip(one) and inc.count("ITEM: TIMESTEP") == n
    return inc == one


def mdcrd_partition(n: int, a: int, b: int, box: bool) -> bool:
    """
    pre: 1 <= n <= 4 and 0 <= a <= b <= n
    post: __return__
    """
    return _text_partition("mdcrd", n, a, b, box)


def xyz_partition(n: int, a: int, b: int) -> bool:
    """
    pre: 1 <= n <= 4 and 0 <= a <= b <= n
    post: __return__
    """
    return _text_partition("xyz", n, a, b, False)


def lammpstrj_partition(n: int, a: int, b: int) -> bool:
    """
    pre: 1 <= n <= 4 and 0 <= a <= b <= n
    post: __return__
    """
    return _text_partition("lammpstrj", n, a, b, False)


def gro_pdb_partition(fmt: int, n: int, a: int, b: int, cell: bool) -> bool:
    """
    pre: 0 <= fmt <= 1 and 1 <= n <= 4 and 0 <= a <= b <= n
    post: __return__
    """
    # gro (one write call per piece) and pdb (one write call per model): the text written in pieces equals the one-shot text
    import mdtraj.formats.gro as _gro
    import mdtraj.formats.pdb.pdbfile as _pdb
    from mdtraj.core import element as _el
    from mdtraj.core.topology import Topology
    fmt, n, a, b = conc(fmt, 0, 1), conc(n, 1, 4), conc(a, 0, 4), conc(b, 0, 4)
    # (CrossHair silences the builtin print; the PDB writer prints to its file object: give the module an explicit one)
    _pdb.print = lambda *x, file=None, **k: file.write(" ".join(str(v) for v in x) + "\n")
    top = Topology()
    ch = top.add_chain()
    r = top.add_residue("ALA", ch)
    for i in range(NA):
        top.add_atom("C%d" % i, _el.carbon, r)
    outs = []
    for pieces in ([(0, a), (a, b), (b, n)], [(0, n)]):
        fh = io.StringIO()
        if fmt == 0:
            f = object.__new__(_gro.GroTrajectoryFile)
            f._open, f._mode, f._file, f._frame_index, f.n_atoms = True, "w", fh, 0, 0
            for s_, e in pieces:
                if e <= s_:
                    continue
                box = None
                if cell:
                    box = np.zeros((e - s_, 3, 3))
                    for k in range(3):
                        box[:, k, k] = cells(s_, e - s_)[:, k]
                f.write(frames(s_, e - s_), top, times(s_, e - s_), box)
        else:
            f = object.__new__(_pdb.PDBTrajectoryFile)
            f._open, f._mode, f._file, f._header_written, f._footer_written, f._last_topology = True, "w", fh, False, False, None
            for s_, e in pieces:
                for k in range(s_, e):
                    if cell:
                        f.write(frames(k, 1)[0], top, modelIndex=k, unitcell_lengths=tuple(cells(0, 1)[0]), unitcell_angles=(90.0, 90.0, 90.0))
                    else:
                        f.write(frames(k, 1)[0], top, modelIndex=k)
        outs.append(fh.getvalue())
    inc, one = outs
    if fmt == 0:
        return inc == one and inc.count("Generated with MDTraj") == n
    return inc == one and inc.count("MODEL ") == n and inc.count("CRYST1") == (1 if cell else 0)


def pdb_refusal_atomic(k: int, reason: int, cell: bool, after: bool) -> bool:
    """
    pre: 0 <= k <= 2 and 0 <= reason <= 3
    post: __return__
    """
    # one write from any state (k models already written): a call that is refused (wrong number of positions, NaN, infinity, b-factor out
    # of range) raises and leaves the text as it was; the file then continues as if the refused call had not happened
    import mdtraj.formats.pdb.pdbfile as _pdb
    from mdtraj.core import element as _el
    from mdtraj.core.topology import Topology
    k, reason = conc(k, 0, 2), conc(reason, 0, 3)
    _pdb.print = lambda *x, file=None, **kw: file.write(" ".join(str(v) for v in x) + "\n")
    top = Topology()
    ch = top.add_chain()
    r = top.add_residue("ALA", ch)
    for i in range(NA):
        top.add_atom("C%d" % i, _el.carbon, r)

    def fresh():
        fh = io.StringIO()
        f = object.__new__(_pdb.PDBTrajectoryFile)
        f._open, f._mode, f._file, f._header_written, f._footer_written, f._last_topology = True, "w", fh, False, False, None
        return f, fh

    def good(f, i):
        kw = dict(unitcell_lengths=(50.0, 60.0, 70.0), unitcell_angles=(90.0, 90.0, 90.0)) if cell else {}
        f.write(frames(i, 1)[0], top, modelIndex=i, **kw)
    f, fh = fresh()
    for i in range(k):
        good(f, i)
    before = fh.getvalue()
    bad = frames(k, 1)[0].astype(np.float64)
    kw = dict(unitcell_lengths=(50.0, 60.0, 70.0), unitcell_angles=(90.0, 90.0, 90.0)) if cell else {}
    if reason == 0:
        bad = bad[:1]
    elif reason == 1:
        bad[0, 0] = np.nan
    elif reason == 2:
        bad[1, 2] = np.inf
    else:
        kw["bfactors"] = [0.5, 100.0]
    try:
        f.write(bad, top, modelIndex=k, **kw)
        return False
    except ValueError:
        pass
    if k > 0 and fh.getvalue() != before:
        return False
    if "MODEL" in fh.getvalue()[len(before):] or "ATOM" in fh.getvalue()[len(before):]:       # (the very first call may already have written the header)
        return False
    if after:
        good(f, k)
        g, gh = fresh()
        for i in range(k + 1):
            good(g, i)
        if fh.getvalue() != gh.getvalue():
            return False
        if fh.getvalue().count("MODEL ") != k + 1 or fh.getvalue().count("ENDMDL") != k + 1:
            return False
    return True


def mdcrd_ragged_box(k: int, hb: bool, m: int) -> bool:
    """
    pre: 1 <= k <= 2 and 1 <= m <= 2
    post: __return__
    """
    k, m = conc(k, 1, 2), conc(m, 1, 2)
    fh = io.BytesIO()
    f = object.__new__(_mdcrd.MDCRDTrajectoryFile)
    f._is_open, f._filename, f._n_atoms, f._mode, f._w_has_box, f._frame_index, f._has_box, f._line_counter = True, "m", None, "w", None, 0, "detect", 0
    f._fh = fh
    f.write(frames(0, k), cells(0, k) if hb else None)
    before = fh.getvalue()
    try:
        f.write(frames(k, m), None if hb else cells(k, m))
        raised = False
    except ValueError:
        raised = True
    f._is_open = False
    return raised and fh.getvalue() == before
