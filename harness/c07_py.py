"""C07 (Python side) — torsion index tables and kernel dispatch, under CrossHair.

* indices_phi/psi/omega/chi1/chi2 on small topologies whose atom PRESENCE is symbolic (one boolean per atom name per
  residue; 2 chains): the result must be exactly the residues that have all four documented atoms in the documented
  residues OF THE SAME CHAIN, in residue order, each row in table order.
* compute_angles / compute_dihedrals dispatch with the compiled kernels replaced by recorders: which kernel, the per-frame
  TRANSPOSED cell, the orthogonal flag <=> all angles within allclose of 90 degrees, periodic / opt / no-cell branches."""
import vtlib.xhfix  # noqa: F401
import numpy as np

import mdtraj.geometry.angle as _ang
import mdtraj.geometry.dihedral as _dih
from mdtraj.core import element as _el
from mdtraj.core.topology import Topology
from mdtraj.core.trajectory import Trajectory
from vtlib.xhfix import conc

BB = ("N", "CA", "C")


def _topo(res_atoms, chains):
    """res_atoms: list of lists of atom names; chains: chain number of each residue (non-decreasing)"""
    t = Topology()
    ch, cur = None, None
    for names, c in zip(res_atoms, chains):
        if c != cur:
            ch, cur = t.add_chain(), c
        r = t.add_residue("ALA", ch)
        for n in names:
            t.add_atom(n, _el.carbon, r)
    return t


def _spec(top, pattern):
    """independent reading of the documentation: pattern entries '-X' / 'X' / '+X' refer to the previous / same / next residue
    of the SAME chain; one row per residue that has them all, in residue order"""
    rows = []
    for chain in top.chains:
        res = list(chain.residues)
        for i, r in enumerate(res):
            row = []
            for a in pattern:
                off = -1 if a[0] == "-" else (1 if a[0] == "+" else 0)
                name = a.lstrip("+-")
                j = i + off
                if not (0 <= j < len(res)):
                    row = None
                    break
                hit = [x.index for x in res[j].atoms if x.name == name]
                if not hit:
                    row = None
                    break
                row.append(hit[-1])
            if row is not None:
                rows.append(row)
    return rows


def _names(bits, alphabet):
    return [n for n, b in zip(alphabet, bits) if b]


def backbone_torsions(which: int, a0: bool, a1: bool, a2: bool, b0: bool, b1: bool, b2: bool, c0: bool, c1: bool, c2: bool, split: int) -> bool:
    """
    pre: 0 <= which <= 2 and 0 <= split <= 2
    post: __return__
    """
    which, split = conc(which, 0, 2), conc(split, 0, 2)
    res = [_names((a0, a1, a2), BB), _names((b0, b1, b2), BB), _names((c0, c1, c2), BB)]
    chains = [[0, 0, 0], [0, 0, 1], [0, 1, 1]][split]          # chain break after residue 2 / after residue 1 / none
    top = _topo(res, chains)
    f, pat = [(_dih.indices_phi, ["-C", "N", "CA", "C"]), (_dih.indices_psi, ["N", "CA", "C", "+N"]), (_dih.indices_omega, ["CA", "C", "+N", "+CA"])][which]
    got = f(top)
    want = _spec(top, pat)
    return got.shape == (len(want), 4) and [list(map(int, r)) for r in got] == want


CHI1_ALPHA = ("N", "CA", "CB", "CG", "CG1", "OG1", "SG")
CHI1_PATTERNS = [["N", "CA", "CB", "CG"], ["N", "CA", "CB", "CG1"], ["N", "CA", "CB", "SG"], ["N", "CA", "CB", "OG"], ["N", "CA", "CB", "OG1"]]
CHI2_ALPHA = ("CA", "CB", "CG", "CG1", "CD", "CD1", "SD")
CHI2_PATTERNS = [["CA", "CB", "CG", "CD"], ["CA", "CB", "CG", "CD1"], ["CA", "CB", "CG1", "CD1"], ["CA", "CB", "CG", "OD1"], ["CA", "CB", "CG", "ND1"], ["CA", "CB", "CG", "SD"]]
CHI3_ALPHA = ("CB", "CG", "CD", "NE", "CE", "OE1", "SD")
CHI3_PATTERNS = [["CB", "CG", "CD", "NE"], ["CB", "CG", "CD", "CE"], ["CB", "CG", "CD", "OE1"], ["CB", "CG", "SD", "CE"]]
CHI4_ALPHA = ("CG", "CD", "NE", "CZ", "CE", "NZ", "NH1")
CHI4_PATTERNS = [["CG", "CD", "NE", "CZ"], ["CG", "CD", "CE", "NZ"]]
CHI5_PATTERNS = [["CD", "NE", "CZ", "NH1"]]


def _chi(f, alpha, patterns, bits, other_first):
    varied = _names(bits, alpha)
    fixed = ["N", "CA", "CB", "CG", "CD"]
    res = [fixed, varied] if other_first else [varied, fixed]
    top = _topo(res, [0, 0])
    got = [list(map(int, r)) for r in f(top)]
    # documented meaning: for each residue (in order), the first... every table row whose four atoms are all present
    want = []
    for r in top.residues:
        names = {a.name: a.index for a in r.atoms}
        for p in patterns:
            if all(n in names for n in p):
                want.append((r.index, [names[n] for n in p]))
    # every (residue, table row) match contributes one row; rows are ordered by residue
    return sorted(got) == sorted(w[1] for w in want) and _residue_order(top, got)


def _residue_order(top, rows):
    rid = [top.atom(r[1]).residue.index for r in rows]
    return rid == sorted(rid)


def chi1_indices(b0: bool, b1: bool, b2: bool, b3: bool, b4: bool, b5: bool, b6: bool, other_first: bool) -> bool:
    """
    post: __return__
    """
    return _chi(_dih.indices_chi1, CHI1_ALPHA, CHI1_PATTERNS, (b0, b1, b2, b3, b4, b5, b6), other_first)


def chi2_indices(b0: bool, b1: bool, b2: bool, b3: bool, b4: bool, b5: bool, b6: bool, other_first: bool) -> bool:
    """
    post: __return__
    """
    return _chi(_dih.indices_chi2, CHI2_ALPHA, CHI2_PATTERNS, (b0, b1, b2, b3, b4, b5, b6), other_first)


def chi345_indices(which: int, b0: bool, b1: bool, b2: bool, b3: bool, b4: bool, b5: bool, b6: bool, other_first: bool) -> bool:
    """
    pre: 3 <= which <= 5
    post: __return__
    """
    which = conc(which, 3, 5)
    f, alpha, pats = {3: (_dih.indices_chi3, CHI3_ALPHA, CHI3_PATTERNS), 4: (_dih.indices_chi4, CHI4_ALPHA, CHI4_PATTERNS),
                      5: (_dih.indices_chi5, CHI4_ALPHA, CHI5_PATTERNS)}[which]
    return _chi(f, alpha, pats, (b0, b1, b2, b3, b4, b5, b6), other_first)


# ------------------------------------------------------------------ dispatch

class _Rec:
    def __init__(self):
        self.calls = []

    def __getattr__(self, name):
        def f(*a):
            self.calls.append((name, a))
        return f


def _traj(cell: int):
    xyz = np.arange(2 * 4 * 3, dtype=np.float32).reshape(2, 4, 3) * 0.1
    t = Trajectory(xyz, None)
    if cell:
        t.unitcell_lengths = np.array([[2.0, 3.0, 4.0], [2.5, 3.0, 4.0]], dtype=np.float32)
        ang = {1: [[90.0, 90.0, 90.0]] * 2, 2: [[90.0, 90.0, 90.0], [90.0, 80.0, 90.0]], 3: [[60.0, 70.0, 80.0]] * 2, 4: [[90.0, 90.0, 90.00001]] * 2,
               5: [[80.0, 90.0, 90.0]] * 2, 6: [[90.0, 80.0, 90.0]] * 2, 7: [[90.0, 90.0, 80.0]] * 2}[cell]      # 5..7: a single angle off 90
        t.unitcell_angles = np.array(ang, dtype=np.float32)
    return t


def dispatch(which: bool, cell: int, periodic: bool, opt: bool, ptype: int = 0) -> bool:
    """
    pre: 0 <= cell <= 7 and 0 <= ptype <= 2
    post: __return__
    """
    cell, ptype = conc(cell, 0, 7), conc(ptype, 0, 2)
    flag = periodic
    periodic = [bool, np.bool_, int][ptype](periodic)        # the flag as a Python bool, a numpy bool (e.g. an element of a mask) or 0/1
    mod = _ang if which else _dih
    rec = _Rec()
    mod._geometry = rec
    ref = []
    if which:
        mod._angle = lambda traj, idx, per, out: ref.append(("ref", per))
    else:
        mod._dihedral = lambda traj, idx, per, out=None: ref.append(("ref", per))
    t = _traj(cell)
    idx = [[0, 1, 2], [1, 2, 3]] if which else [[0, 1, 2, 3]]
    (mod.compute_angles if which else mod.compute_dihedrals)(t, idx, periodic=periodic, opt=opt)
    kname = "_angle" if which else "_dihedral"
    use_cell = flag and cell != 0
    if not opt:
        return rec.calls == [] and len(ref) == 1 and bool(ref[0][1]) == bool(flag)
    if len(rec.calls) != 1 or ref:
        return False
    name, a = rec.calls[0]
    if not use_cell:
        return name == kname and len(a) == 3 and a[0].shape == (2, 4, 3) and [list(r) for r in a[1]] == idx
    if name != kname + "_mic" or len(a) != 5:
        return False
    box = a[2]
    vec = t.unitcell_vectors
    ok = box.shape == (2, 3, 3) and all(np.array_equal(box[f], vec[f].T) for f in range(2)) and box.flags["C_CONTIGUOUS"]
    orth_want = cell in (1, 4)      # every frame within np.allclose of 90 degrees
    return ok and bool(a[4]) == orth_want and [list(r) for r in a[1]] == idx


# ------------------------------------------------------------------ the numpy reference paths (opt=False)

def reference_paths(which: bool, periodic: bool, ptype: int) -> bool:
    """
    pre: 0 <= ptype <= 1
    post: __return__
    """
    # _angle / _dihedral: every bond vector is requested with the CALLER's periodic flag (and opt=False), for the right atom pairs, and the value
    # returned is acos / atan2 of the textbook expression of exactly those vectors
    import math
    ptype = conc(ptype, 0, 1)
    flag = periodic
    periodic = [bool, np.bool_][ptype](periodic)
    mod = _ang if which else _dih
    calls = []
    rng = np.random.RandomState(3)
    vecs = {}

    def disp(traj, pairs, periodic=True, opt=True):
        pairs = np.asarray(pairs)
        calls.append(([tuple(int(v) for v in p) for p in pairs], bool(periodic), bool(opt)))
        out = np.zeros((2, len(pairs), 3), dtype=np.float32)
        for k, (a, b) in enumerate(pairs):
            key = (int(a), int(b))
            if key not in vecs:
                vecs[key] = rng.randn(2, 3).astype(np.float32)
            out[:, k, :] = vecs[key]
        return out
    mod.distance = __import__("types").SimpleNamespace(compute_displacements=disp)
    t = _traj(3)
    if which:
        idx = np.array([[0, 1, 2], [3, 1, 0]])
        out = np.zeros((2, 2), dtype=np.float32)
        got = mod._angle(t, idx, periodic, out)
        want_pairs = {(1, 0), (1, 2), (1, 3)}
    else:
        idx = np.array([[0, 1, 2, 3], [3, 2, 0, 1]])
        got = mod._dihedral(t, idx, periodic)
        want_pairs = {(0, 1), (1, 2), (2, 3), (3, 2), (2, 0)}
    asked = {p for c in calls for p in c[0]}
    if asked != want_pairs or any(c[1] != bool(flag) or c[2] for c in calls):
        return False
    got = np.asarray(got)
    for f in range(2):
        for r, row in enumerate(idx):
            if which:
                u, v = vecs[(row[1], row[0])][f].astype(float), vecs[(row[1], row[2])][f].astype(float)
                w = math.acos(max(-1.0, min(1.0, float(u @ v / np.linalg.norm(u) / np.linalg.norm(v)))))
            else:
                b1, b2, b3 = (vecs[(row[k], row[k + 1])][f].astype(float) for k in range(3))
                w = math.atan2(np.linalg.norm(b2) * float(b1 @ np.cross(b2, b3)), float(np.cross(b1, b2) @ np.cross(b2, b3)))
            d = abs(float(got[f, r]) - w)
            if min(d, abs(d - 2 * math.pi)) > 1e-4:
                return False
    return True


# ------------------------------------------------------------------ named torsions after in-place topology edits

def torsions_after_edit(which: int, edit: int, primed: bool) -> bool:
    """
    pre: 0 <= which <= 3 and 0 <= edit <= 3
    post: __return__
    """
    # history: (optionally) query once, edit the SAME topology in place through the public API, query again: the second answer must be what a
    # freshly built topology with the edited content gives
    which, edit = conc(which, 0, 3), conc(edit, 0, 3)
    f = [_dih.indices_phi, _dih.indices_psi, _dih.indices_omega, _dih.indices_chi1][which]
    res = [["N", "CA", "CB", "CG", "C"], ["N", "CA", "CB", "CG", "C"], ["N", "CA", "CB", "XG", "C"]]
    top = _topo(res, [0, 0, 0])
    if primed:
        f(top)
    atoms = list(top.atoms)
    if edit == 0:
        atoms[13].name = "CG"                     # residue 2: XG -> CG (chi1 becomes defined there)
        res2 = [res[0], res[1], ["N", "CA", "CB", "CG", "C"]]
    elif edit == 1:
        atoms[5].name = "NX"                      # residue 1 loses its N
        res2 = [res[0], ["NX", "CA", "CB", "CG", "C"], res[2]]
    elif edit == 2:
        top.delete_atom_by_index(2)               # residue 0 loses CB: every later index shifts
        res2 = [["N", "CA", "CG", "C"], res[1], res[2]]
    else:
        res2 = res
    fresh = _topo(res2, [0, 0, 0])
    return [list(map(int, r)) for r in f(top)] == [list(map(int, r)) for r in f(fresh)]


# ------------------------------------------------------------------ the convenience wrappers hand their flags on

_ARG = ("N", "CA", "C", "O", "CB", "CG", "CD", "NE", "CZ", "NH1", "NH2")


def wrapper_flags(which: int, periodic: bool, opt: bool) -> bool:
    """
    pre: 0 <= which <= 7
    post: __return__
    """
    which = conc(which, 0, 7)
    t = Topology()
    ch = t.add_chain()
    for _ in range(3):
        r = t.add_residue("ARG", ch)
        for n in _ARG:
            t.add_atom(n, _el.carbon, r)
    traj = Trajectory(np.zeros((1, t.n_atoms, 3), dtype=np.float32), t)
    seen = []
    real = _dih.compute_dihedrals
    _dih.compute_dihedrals = lambda tr, indices, periodic=True, opt=True: seen.append((tr, bool(periodic), bool(opt), len(indices))) or np.zeros((1, len(indices)), dtype=np.float32)
    try:
        f = [_dih.compute_phi, _dih.compute_psi, _dih.compute_omega, _dih.compute_chi1, _dih.compute_chi2, _dih.compute_chi3, _dih.compute_chi4, _dih.compute_chi5][which]
        f(traj, periodic=periodic, opt=opt)
    finally:
        _dih.compute_dihedrals = real
    return len(seen) == 1 and seen[0][0] is traj and seen[0][1] == bool(periodic) and seen[0][2] == bool(opt) and seen[0][3] >= 1


def closest_contact_frame(frame: int, periodic: bool, have_cell: bool) -> bool:
    """
    pre: 0 <= frame <= 2
    post: __return__
    """
    import mdtraj.geometry.distance as _d
    frame = conc(frame, 0, 2)
    xyz = (np.arange(3 * 4 * 3, dtype=np.float32).reshape(3, 4, 3) * 0.37) % 2.9
    t = Trajectory(xyz.copy(), None)
    if have_cell:
        t.unitcell_lengths = np.array([[2.0, 3.0, 4.0], [2.5, 3.5, 4.5], [3.0, 3.25, 5.0]])
        t.unitcell_angles = np.array([[90.0, 90.0, 90.0], [80.0, 100.0, 70.0], [90.0, 90.0, 120.0]])
    rec = _Rec()
    _d._geometry = rec
    _d.find_closest_contact(t, [0, 1], [2, 3], frame=frame, periodic=periodic)
    if len(rec.calls) != 1 or rec.calls[0][0] != "_find_closest_contact":
        return False
    a = rec.calls[0][1]
    if not np.array_equal(a[0], xyz[frame]) or list(a[1]) != [0, 1] or list(a[2]) != [2, 3]:
        return False
    if periodic and have_cell:
        return a[3] is not None and np.allclose(a[3], t.unitcell_vectors[frame], atol=1e-6)
    return a[3] is None
