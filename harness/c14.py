"""C14 (criteria side) — baker_hubbard / wernet_nilsson / _compute_bounded_geometry on SYMBOLIC distances (E2 symnum).

compute_distances is replaced by a source of symbolic positive distances (per triplet and frame: d_DH, d_HA, d_DA, with the
triangle inequalities as premises); _get_bond_triplets by a fixed triplet list (its own obligation is in c14_py).  The real
functions then run on z3 reals — the boolean masks fork — and on every path the reported set is compared with the DOCUMENTED
criteria typed in independently:
  BH : reported  <=>  #{frames: d_HA < cutoff and theta_DHA > angle_cutoff(deg)} / n_frames > freq, theta from the law of cosines
  WN : per frame   <=>  d_DA < 0.33 - 0.000044 * delta^2, delta = angle H-D-A in DEGREES (law of cosines)
acos is a named value with monotonicity against the code's comparison constants; thresholds are excluded by a margin."""
import math
import time

import numpy as np
import z3

import mdtraj.geometry.hbond as _hb
from vtlib import symnum as S
from vtlib.symnum import NP, Goals, Sym, SymB, sym, tz

TRIPLETS = np.array([[0, 1, 2], [3, 4, 2]])


def _dist_source(D):
    """compute_distances stub: pairs of atom indices -> the symbolic distance of that pair per frame"""
    def f(traj, pairs, periodic=True, opt=True):
        pairs = np.asarray(pairs)
        out = np.empty((D["n_frames"], len(pairs)), dtype=object)
        for k, (a, b) in enumerate(pairs):
            key = (min(int(a), int(b)), max(int(a), int(b)))
            for fr in range(D["n_frames"]):
                out[fr, k] = D["d"][key][fr]
        D["calls"].append((pairs.tolist(), periodic))
        return out.view(S.SA)
    return f


def _setup(n_frames, n_trip):
    S.new_ctx(timeout_ms=30000)
    trip = TRIPLETS[:n_trip]
    D = {"n_frames": n_frames, "d": {}, "calls": []}
    prem = []
    for t in trip:
        d, h, a = (int(x) for x in t)
        keys = [(min(d, h), max(d, h)), (min(h, a), max(h, a)), (min(d, a), max(d, a))]
        for key in keys:
            if key not in D["d"]:
                D["d"][key] = [sym(f"d{key[0]}{key[1]}_f{f}") for f in range(n_frames)]
        for f in range(n_frames):
            x, y, z = (tz(D["d"][k][f]) for k in keys)
            prem += [x > S.rat(0.05), y > S.rat(0.05), z > S.rat(0.05), x < 1, y < 1, z < 1, x + y >= z, y + z >= x, x + z >= y]
    return trip, D, prem


class _Traj:
    topology = object()


def _cos_law(a, b, c):
    """cosine of the angle between sides a and b (opposite side c)"""
    return (tz(a) * tz(a) + tz(b) * tz(b) - tz(c) * tz(c)) / (2 * tz(a) * tz(b))


def baker_hubbard(n_frames: int = 2, n_trip: int = 1, freq: float = 0.4, distance_cutoff: float = 0.25, angle_cutoff: float = 120.0, periodic: bool = True):
    t0 = time.time()
    trip, D, prem = _setup(n_frames, n_trip)
    S.CTX.acos_breakpoints = [math.radians(angle_cutoff)]
    S.CTX.cons += prem
    _hb.np = NP()
    _hb.compute_distances = _dist_source(D)
    _hb._get_bond_triplets = lambda top, exclude_water=True, sidechain_only=False: trip.copy()
    paths = S.explore(lambda: _hb.baker_hubbard(_Traj(), freq=freq, distance_cutoff=distance_cutoff, angle_cutoff=angle_cutoff, periodic=periodic))
    G = Goals(30000)
    _periodic_goal(G, D, periodic, "baker_hubbard")
    margin = S.rat(1e-4)
    cosc = S.rat(math.cos(math.radians(angle_cutoff)))
    inputs = {f"{k}_f{f}": v[f] for k, v in D["d"].items() for f in range(n_frames)}
    for i, (path, cons, assumed, res) in enumerate(paths):
        reported = {tuple(int(x) for x in r) for r in np.asarray(res)}
        base = cons + path
        for t in trip:
            d, h, a = (int(x) for x in t)
            dh, ha, da = D["d"][(min(d, h), max(d, h))], D["d"][(min(h, a), max(h, a))], D["d"][(min(d, a), max(d, a))]
            # documented per-frame criterion, with every threshold excluded by a margin; theta = angle at H between D and A
            frames_in = [z3.And(tz(ha[f]) < S.rat(distance_cutoff) - margin, _cos_law(dh[f], ha[f], da[f]) < cosc - margin) for f in range(n_frames)]
            frames_out = [z3.Or(tz(ha[f]) > S.rat(distance_cutoff) + margin, _cos_law(dh[f], ha[f], da[f]) > cosc + margin) for f in range(n_frames)]
            robust = z3.And([z3.Or(frames_in[f], frames_out[f]) for f in range(n_frames)])
            count = z3.Sum([z3.If(frames_in[f], 1, 0) for f in range(n_frames)])
            should = z3.ToReal(count) / n_frames > S.rat(freq)
            is_rep = tuple(t.tolist()) in reported
            G.add(f"bh_set[{i}.{d}-{h}-{a}]", base + [robust], should if is_rep else z3.Not(should), inputs)
    r = G.run(_replay_bh(trip, n_frames, freq, distance_cutoff, angle_cutoff))
    r["paths"] = len(paths)
    r["distance_calls"] = D["calls"][:4]
    r["wall_s"] = round(time.time() - t0, 2)
    return r


def _periodic_goal(G, D, periodic, fn):
    """every side of every D-H...A triangle is measured under the caller's periodic flag (mixing conventions gives a wrong triangle)"""
    flags = sorted({bool(p) for _, p in D["calls"]})
    G.add("periodic_flag_forwarded", [], z3.BoolVal(flags == [bool(periodic)] and len(D["calls"]) >= 1), {"periodic": Sym(S.rat(1 if periodic else 0))})


_PERIODIC_REPLAY = '''
import sys, numpy as np, mdtraj as md
from mdtraj.core import element as el
top = md.Topology(); ch = top.add_chain(); r1 = top.add_residue("ALA", ch); r2 = top.add_residue("GLY", ch)
n = top.add_atom("N", el.nitrogen, r1); h = top.add_atom("H", el.hydrogen, r1); o = top.add_atom("O", el.oxygen, r2)
top.add_bond(n, h)
L = 2.0
if "{fn}".endswith("hubbard"):
    # the donor sits across the cell boundary from H and O: plain distances N-H = 1.9, N-O = 1.71; minimum images 0.1 and 0.29
    xyz = np.array([[[1.95, 1.0, 1.0], [0.05, 1.0, 1.0], [0.24, 1.0, 1.0]]], dtype=np.float32); want = (1, 0)
else:
    # Wernet-Nilsson looks at d(D,A) and the angle at the donor: plain geometry puts H 1.9 nm away but almost ON the D->A line (1.5 deg: bond),
    # the minimum image puts it behind the donor (148 deg: no bond)
    xyz = np.array([[[0.05, 1.0, 1.0], [1.97, 1.05, 1.0], [0.30, 1.0, 1.0]]], dtype=np.float32); want = (0, 1)
t = md.Trajectory(xyz, top, unitcell_lengths=[[L, L, L]], unitcell_angles=[[90, 90, 90]])
per = {fn}(t, periodic=True); non = {fn}(t, periodic=False)
per = per if "{fn}".endswith("hubbard") else per[0]; non = non if "{fn}".endswith("hubbard") else non[0]
print("periodic=True:", np.asarray(per).tolist(), " periodic=False:", np.asarray(non).tolist(), " expected counts", want)
sys.exit(1 if (len(per), len(non)) != want else 0)
'''


def _replay_periodic(fn):
    def rep(name, vals):
        import subprocess, sys as _s, tempfile, os
        script = _PERIODIC_REPLAY.format(fn="md." + fn)
        with tempfile.NamedTemporaryFile("w", suffix=".py", delete=False) as fh:
            fh.write(script)
        r = subprocess.run([_s.executable, fh.name], capture_output=True, text=True)
        os.unlink(fh.name)
        return r.returncode == 1, script + "\n# " + (r.stdout + r.stderr)[-300:].replace("\n", "\n# "), name.split("[")[0]
    return rep


def _replay_bh(trip, n_frames, freq, dc, ac):
    bh = _replay_bh_values(trip, n_frames, freq, dc, ac)
    per = _replay_periodic("baker_hubbard")
    return lambda name, vals: per(name, vals) if name.startswith("periodic_flag") else bh(name, vals)


def _replay_bh_values(trip, n_frames, freq, dc, ac):
    def rep(name, vals):
        """rebuild coordinates realising the three distances per frame and call the real md.baker_hubbard"""
        script = f'''
import sys, math, numpy as np, mdtraj as md, warnings
warnings.simplefilter("ignore")
vals = {vals!r}; trip = {trip.tolist()!r}; n_frames = {n_frames}
top = md.Topology(); ch = top.add_chain()
na = max(max(t) for t in trip) + 1
els = {{}}
for d, h, a in trip: els[d] = md.element.nitrogen; els[h] = md.element.hydrogen; els[a] = md.element.oxygen
atoms = []
for i in range(na):
    r = top.add_residue("ALA", ch); atoms.append(top.add_atom("X%d" % i, els.get(i, md.element.carbon), r))
for d, h, a in trip: top.add_bond(atoms[d], atoms[h])
xyz = np.zeros((n_frames, na, 3), dtype=np.float32)
def g(i, j, f): return vals["(%d, %d)_f%d" % (min(i, j), max(i, j), f)]
for f in range(n_frames):
    for k, (d, h, a) in enumerate(trip):
        off = np.array([10.0 * k, 0, 0])
        dh, ha, da = g(d, h, f), g(h, a, f), g(d, a, f)
        xyz[f, h] = off; xyz[f, d] = off + [dh, 0, 0]
        c = (dh * dh + ha * ha - da * da) / (2 * dh * ha); c = max(-1, min(1, c))
        if k == 0 or a != trip[0][2]: xyz[f, a] = off + [ha * c, ha * math.sqrt(1 - c * c), 0]
t = md.Trajectory(xyz, top)
got = set(map(tuple, md.baker_hubbard(t, freq={freq}, distance_cutoff={dc}, angle_cutoff={ac}, periodic=False).tolist()))
want = set()
for d, h, a in trip:
    n = 0
    for f in range(n_frames):
        dh, ha, da = g(d, h, f), g(h, a, f), g(d, a, f)
        th = math.degrees(math.acos(max(-1, min(1, (dh * dh + ha * ha - da * da) / (2 * dh * ha)))))
        n += (ha < {dc} and th > {ac})
    if n / n_frames > {freq}: want.add((d, h, a))
print("baker_hubbard reported", sorted(got), "criterion says", sorted(want))
sys.exit(1 if got != want else 0)
'''
        import subprocess, sys as _s, tempfile
        with tempfile.NamedTemporaryFile("w", suffix=".py", delete=False) as fh:
            fh.write(script)
        r = subprocess.run([_s.executable, fh.name], capture_output=True, text=True)
        return r.returncode == 1, script, name.split("[")[0]
    return rep


def _replay_wn(trip, n_frames):
    per = _replay_periodic("wernet_nilsson")

    def rep(name, vals):
        if name.startswith("periodic_flag"):
            return per(name, vals)
        script = f'''
import sys, math, numpy as np, mdtraj as md, warnings
warnings.simplefilter("ignore")
vals = {vals!r}; trip = {trip.tolist()!r}; n_frames = {n_frames}
top = md.Topology(); ch = top.add_chain()
na = max(max(t) for t in trip) + 1
els = {{}}
for d, h, a in trip: els[d] = md.element.nitrogen; els[h] = md.element.hydrogen; els[a] = md.element.oxygen
atoms = []
for i in range(na):
    r = top.add_residue("ALA", ch); atoms.append(top.add_atom("X%d" % i, els.get(i, md.element.carbon), r))
for d, h, a in trip: top.add_bond(atoms[d], atoms[h])
xyz = np.zeros((n_frames, na, 3), dtype=np.float32)
def g(i, j, f): return vals["(%d, %d)_f%d" % (min(i, j), max(i, j), f)]
d, h, a = trip[0]
for f in range(n_frames):
    dh, ha, da = g(d, h, f), g(h, a, f), g(d, a, f)
    xyz[f, h] = 0; xyz[f, d] = [dh, 0, 0]
    c = (dh * dh + ha * ha - da * da) / (2 * dh * ha); c = max(-1, min(1, c))
    xyz[f, a] = [ha * c, ha * math.sqrt(1 - c * c), 0]
    for o in range(na):
        if o not in (d, h, a): xyz[f, o] = [50.0 + 5 * o, 0, 0]
t = md.Trajectory(xyz, top)
got = [set(map(tuple, np.asarray(x).tolist())) for x in md.wernet_nilsson(t, periodic=False)]
bad = 0
for f in range(n_frames):
    dh, ha, da = g(d, h, f), g(h, a, f), g(d, a, f)
    ang = math.degrees(math.acos(max(-1, min(1, (da * da + dh * dh - ha * ha) / (2 * da * dh)))))      # angle at the donor between D-A and D-H
    want = da < 0.33 - 0.000044 * ang * ang
    print("frame", f, "r_DA", da, "delta", ang, "criterion", want, "reported", (d, h, a) in got[f])
    bad += want != ((d, h, a) in got[f])
sys.exit(1 if bad else 0)
'''
        import subprocess, sys as _s, tempfile, os
        with tempfile.NamedTemporaryFile("w", suffix=".py", delete=False) as fh:
            fh.write(script)
        r = subprocess.run([_s.executable, fh.name], capture_output=True, text=True)
        os.unlink(fh.name)
        return r.returncode == 1, script + "\n# " + (r.stdout + r.stderr)[-400:].replace("\n", "\n# "), name.split("[")[0]
    return rep


def wernet_nilsson(n_frames: int = 2, n_trip: int = 1, periodic: bool = True):
    t0 = time.time()
    trip, D, prem = _setup(n_frames, n_trip)
    S.CTX.cons += prem
    _hb.np = NP()
    _hb.compute_distances = _dist_source(D)
    _hb._get_bond_triplets = lambda top, exclude_water=True, sidechain_only=False: trip.copy()
    paths = S.explore(lambda: (_hb.wernet_nilsson(_Traj(), periodic=periodic), dict(S.CTX.fn_args), dict(S.CTX.cache)))
    G = Goals(30000)
    _periodic_goal(G, D, periodic, "wernet_nilsson")
    margin = S.rat(1e-5)
    inputs = {f"{k}_f{f}": v[f] for k, v in D["d"].items() for f in range(n_frames)}
    for i, (path, cons, assumed, (res, fnargs, cache)) in enumerate(paths):
        if len(res) != n_frames:
            G.add(f"wn_one_list_per_frame[{i}]", [], z3.BoolVal(False), inputs)
            continue
        base = cons + path
        # acos applications of this path: (result variable, argument)
        acos_vars = [(v, fnargs[v.get_id()][1]) for k, v in cache.items() if k[0] == "acos" and v.get_id() in fnargs]
        for f in range(n_frames):
            reported = {tuple(int(x) for x in r) for r in np.asarray(res[f])}
            for t in trip:
                d, h, a = (int(x) for x in t)
                dh, ha, da = D["d"][(min(d, h), max(d, h))][f], D["d"][(min(h, a), max(h, a))][f], D["d"][(min(d, a), max(d, a))][f]
                is_rep = tuple(t.tolist()) in reported
                cosd = _cos_law(da, dh, ha)                    # angle at the DONOR between D-A and D-H
                clipped = z3.If(cosd < -1, S.rat(-1), z3.If(cosd > 1, S.rat(1), cosd))
                # which named acos value is acos(clipped)?  (decided by the solver, not by position)
                var = None
                for v, arg in acos_vars:
                    r, _ = S.prove(arg == clipped, base, 5000)
                    if r == "holds":
                        var = v
                        break
                if var is None:
                    # no angle was computed for this triplet on this path: it was pre-filtered; it must then be unreportable
                    G.add(f"wn_prefiltered[{i}.f{f}.{d}-{h}-{a}]", base, z3.And(z3.BoolVal(not is_rep), tz(da) >= S.rat(0.33) - S.rat(1e-9)) if not is_rep else z3.BoolVal(False), inputs)
                    continue
                deg = var * S.rat(180.0) / S.PI
                bound = S.rat(0.33) - S.rat(0.000044) * deg * deg
                robust = z3.Or(tz(da) < bound - margin, tz(da) > bound + margin)
                G.add(f"wn_set[{i}.f{f}.{d}-{h}-{a}]", base + [robust], (tz(da) < bound) if is_rep else z3.Not(tz(da) < bound), inputs)
    r = G.run(_replay_wn(trip, n_frames))
    r["paths"] = len(paths)
    r["wall_s"] = round(time.time() - t0, 2)
    return r
