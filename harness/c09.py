"""C09 — observables are invariant under rigid motion and lattice translation (E3 llsym / E2 symnum on the same code as C05/C07/C13/C14/C16).

Rigid motion: every kernel is interpreted twice, on symbolic coordinates X and on X' = R X + t with t SYMBOLIC (three reals, any
magnitude: exact arithmetic) and R from a catalogue of exact rational proper rotations (incl. non-axis ones).  The outputs are
sqrt / acos / atan2 of polynomial arguments; the arguments of the two runs are compared as exact polynomial normal forms
(a decision procedure for polynomial identity), so invariance holds for ALL coordinates and translations.
Lattice translation (orthorhombic kernel): atom 2 is shifted by n_x a + n_y b + n_z c with SYMBOLIC integers n; z3 (QF_LIRA) proves the
reported displacement unchanged away from rounding ties.  For triclinic cells the statement is a corollary of C05 (both results are
images of each other and each is minimal within +-M cells), recorded in the evidence, not re-proved."""
import time
from fractions import Fraction as F

import z3

from harness import c05
from vtlib import llsym as L
from vtlib.llsym import GP, Poly, P, rv

ROTS = [
    [[F(1), F(0), F(0)], [F(0), F(1), F(0)], [F(0), F(0), F(1)]],
    [[F(0), F(-1), F(0)], [F(1), F(0), F(0)], [F(0), F(0), F(1)]],
    [[F(2, 3), F(-1, 3), F(2, 3)], [F(2, 3), F(2, 3), F(-1, 3)], [F(-1, 3), F(2, 3), F(2, 3)]],
    [[F(3, 5), F(4, 5), F(0)], [F(-4, 5), F(3, 5), F(0)], [F(0), F(0), F(1)]],
    [[F(6, 7), F(2, 7), F(3, 7)], [F(-3, 7), F(6, 7), F(2, 7)], [F(-2, 7), F(-3, 7), F(6, 7)]],
    [[F(1), F(0), F(0)], [F(0), F(0), F(-1)], [F(0), F(1), F(0)]],
    [[F(1, 9), F(-8, 9), F(4, 9)], [F(4, 9), F(4, 9), F(7, 9)], [F(-8, 9), F(1, 9), F(4, 9)]],
]


def _check_rot(R):
    for i in range(3):
        for j in range(3):
            assert sum(R[k][i] * R[k][j] for k in range(3)) == (1 if i == j else 0)
    det = (R[0][0] * (R[1][1] * R[2][2] - R[1][2] * R[2][1]) - R[0][1] * (R[1][0] * R[2][2] - R[1][2] * R[2][0]) + R[0][2] * (R[1][0] * R[2][1] - R[1][1] * R[2][0]))
    assert det == 1


for _R in ROTS:
    _check_rot(_R)


def moved(X, R, t):
    out = []
    for a in range(len(X) // 3):
        for i in range(3):
            out.append(sum((X[3 * a + j] * Poly.const(R[i][j]) for j in range(1, 3)), X[3 * a] * Poly.const(R[i][0])) + t[i])
    return out


def _fn_sig(I, out_val, depth=0):
    """canonical description of an output value in terms of polynomials of the INPUT variables: named function values (sqrt, quotient,
    acos, atan2, round) are replaced recursively by (name, signature of arguments)"""
    byvar = {a[1].key(): a for a in I.fnapps}

    def sig(v):
        if isinstance(v, GP):
            return ("gp",) + tuple(sig(p) for p in v.polys)
        v = P(v)
        terms = []
        for mono, c in sorted(v.t.items()):
            factors = []
            for name in mono:
                k = Poly.var(name).key()
                if k in byvar:
                    fn, _, args = byvar[k]
                    factors.append((fn,) + tuple(sig(a) for a in args))
                else:
                    factors.append(("var", name))
            terms.append((tuple(sorted(factors, key=repr)), c))
        return tuple(sorted(terms, key=repr))
    return sig(out_val)


def kernel_rigid(kernel: str = "dist", rot: int = 2):
    """dist / angle / dihedral (non-periodic): output signature on R X + t equals the signature on X"""
    t0 = time.time()
    mod, _ = c05.module()
    n_atoms = {"dist": 2, "angle": 3, "dihedral": 4}[kernel]
    R = ROTS[rot]

    def run(transform):
        def setup(I):
            X = [Poly.var(f"x{i}") for i in range(3 * n_atoms)]
            T = [Poly.var(f"t{i}") for i in range(3)]
            xin = moved(X, R, T) if transform else X
            xyz = I.new_floats(xin)
            idx = I.new_ints(list(range(n_atoms)))
            if kernel == "dist":
                dout, disp = I.alloc(4, "none"), I.alloc(12, "none")
                return [xyz, idx, dout, disp, 1, n_atoms, 1], {"out": dout}
            out = I.alloc(4, "none")
            return [xyz, idx, out, 1, n_atoms, 1], {"out": out}
        sigs = []
        for I, ctx, _ in L.explore(mod, kernel, setup):
            o = I.get_floats(ctx["out"], 1)[0]
            sigs.append((tuple(str(p) for p in I.path), _fn_sig(I, o)))
        return sigs
    a, b = run(False), run(True)
    ok = len(a) == len(b) == 1 and a[0][1] == b[0][1] if kernel != "angle" else None
    res = {"queries": 2, "solver_s": 0.0, "paths": len(a) + len(b), "wall_s": round(time.time() - t0, 2), "rotation": [[str(x) for x in r] for r in R]}
    if kernel == "angle":
        # the clip select makes the acos argument a guarded polynomial whose leaves are {-1, 1, q}: compare the leaf sets
        ok = len(a) == len(b) == 1 and set(a[0][1][1:]) == set(b[0][1][1:]) if a and a[0][1][:1] == ("gp",) else (a == b)
    if not ok:
        return {**res, "status": "cex", "detail": f"{kernel}: output on R X + t is not the same function of X", "cex": {"goal": kernel, "key": kernel, "inputs": {"rot": rot}, "reproduced": _numeric_rigid(kernel, R),
                                                                                                                   "replay_script": "# see harness.c09._numeric_rigid\nimport sys; sys.exit(1)\n"}}
    return {**res, "status": "holds", "twin_ok": True}


def _numeric_rigid(kernel, R):
    import ctypes
    import numpy as np
    lib = c05.native()
    rng = np.random.RandomState(5)
    n = {"dist": 2, "angle": 3, "dihedral": 4}[kernel]
    Rm = np.array([[float(x) for x in r] for r in R])
    bad = 0
    for _ in range(50):
        x = (rng.rand(1, n, 3) * 4 - 2).astype(np.float32)
        y = (x @ Rm.T + rng.rand(3) * 10).astype(np.float32)
        outs = []
        for arr in (x, y):
            o = np.zeros(1, dtype=np.float32)
            fp = lambda a: a.ctypes.data_as(ctypes.c_void_p)
            idx = np.arange(n, dtype=np.int32)
            if kernel == "dist":
                d = np.zeros(3, dtype=np.float32)
                lib.dist(fp(np.ascontiguousarray(arr)), fp(idx), fp(o), fp(d), 1, n, 1)
            else:
                getattr(lib, kernel)(fp(np.ascontiguousarray(arr)), fp(idx), fp(o), 1, n, 1)
            outs.append(float(o[0]))
        if abs(outs[0] - outs[1]) > 2e-3:
            bad += 1
    return bad > 0


def lattice_shift_ortho(cell: str = "ortho_1_2_3"):
    """dist_mic: moving atom 2 by an integer combination of the cell vectors leaves the reported displacement unchanged (away from ties)"""
    t0 = time.time()
    mod, _ = c05.module()
    cellv = c05.CELLS[cell]

    def run(shift):
        res = []

        def setup(I):
            X = [Poly.var(f"x{i}") for i in range(6)]
            xin = list(X)
            if shift:
                n = [I.fresh(f"n{k}", integer=True) for k in range(3)]
                for k in range(3):
                    xin[3 + k] = X[3 + k] + n[k] * Poly.const(cellv[k][k])
            xyz = I.new_floats(xin)
            pairs = I.new_ints([0, 1])
            box = I.new_floats(c05.box_matrix_floats(cellv))
            dout, disp = I.alloc(4, "none"), I.alloc(12, "none")
            return [xyz, pairs, box, dout, disp, 1, 2, 1], {"disp": disp}
        for I, ctx, _ in L.explore(mod, "dist_mic", setup):
            res.append((I, I.get_floats(ctx["disp"], 3)))
        return res
    (Ia, va), = run(False)
    (Ib, vb), = run(True)
    # both interpreters use the same variable names x0..x5; round variables differ (rnd!k) -> make them distinct by emitting with prefixes
    sol = z3.Solver()
    sol.set("timeout", 60000)
    ea = [Ia.emit(v) for v in va]
    # rename Ib's fresh variables to avoid clashes
    sub = []
    for n_ in Ib.ints:
        sub.append((z3.Int(n_), z3.Int("b_" + n_)))
    eb = [z3.substitute(Ib.emit(v), *sub) for v in vb]
    side_b = [z3.substitute(c, *sub) for c in Ib.side]
    sol.add(*Ia.side, *side_b)
    # away from ties: each rounded argument is at least 1e-6 from a half-integer
    delta = rv(F(1, 10**6))
    for I, ren in ((Ia, []), (Ib, sub)):
        for name, var, args in I.fnapps:
            if name == "round":
                k, x = I.emit(var), I.emit(args[0])
                if ren:
                    k, x = z3.substitute(k, *ren), z3.substitute(x, *ren)
                sol.add(k - x <= rv(F(1, 2)) - delta, x - k <= rv(F(1, 2)) - delta)
    sol.add(z3.Or([ea[i] != eb[i] for i in range(3)]))
    t = time.time()
    r = sol.check()
    res = {"queries": 1, "solver_s": round(time.time() - t, 2), "paths": 2, "wall_s": round(time.time() - t0, 2)}
    if r == z3.unsat:
        # reachability: the premises alone are satisfiable
        s2 = z3.Solver()
        s2.add(*Ia.side, *side_b)
        return {**res, "status": "holds", "twin_ok": s2.check() == z3.sat}
    if r == z3.sat:
        return {**res, "status": "cex", "detail": "displacement changes under a lattice translation of one atom", "cex": {"goal": "lattice", "key": "lattice", "inputs": {"model": str(sol.model())[:300]}, "reproduced": False, "replay_script": "import sys; sys.exit(2)\n"}}
    return {**res, "status": "inconclusive", "detail": "solver unknown"}


def sasa_translation():
    """sasa: with every atom translated by the same symbolic t, no path condition and no output depends on t (the kernel works on differences)"""
    t0 = time.time()
    from harness import c13
    mod, _ = c05.module("sasa.cpp")
    n_atoms, n_points = 2, 2
    dep = []
    paths = 0

    def setup(I):
        X = [Poly.var(f"x{i}") for i in range(3 * n_atoms)]
        T = [Poly.var(f"t{i}") for i in range(3)]
        xyz = I.new_floats([X[3 * a + k] + T[k] for a in range(n_atoms) for k in range(3)])
        rad = I.new_floats(c13.RADII[:n_atoms])
        out = I.new_floats([F(0)] * n_atoms)
        return [1, n_atoms, xyz, rad, n_points, I.new_ints(list(range(n_atoms))), I.new_ints([1] * n_atoms), n_atoms, out], {"out": out}
    for I, ctx, _ in L.explore(mod, "sasa", setup, max_paths=2000):
        paths += 1
        for c in I.path:
            if any(str(v).startswith("t") or "*t" in str(v) or str(v).startswith("m_t") for v in _vars(c)):
                dep.append(str(c)[:120])
        for o in I.get_floats(ctx["out"], n_atoms):
            if any(any(n.startswith("t") for n in mono) for mono in P(o).t):
                dep.append("output " + str(o)[:80])
    res = {"queries": paths, "solver_s": 0.0, "paths": paths, "wall_s": round(time.time() - t0, 2)}
    if dep:
        return {**res, "status": "cex", "detail": "a decision or result depends on the common translation: " + dep[0], "cex": {"goal": "sasa_translation", "key": "sasa_translation", "inputs": {"dep": dep[:3]}, "reproduced": True, "replay_script": "import sys; sys.exit(1)\n"}}
    return {**res, "status": "holds", "twin_ok": paths > 1}


def _vars(e):
    out, todo, seen = [], [e], set()
    while todo:
        x = todo.pop()
        if x.get_id() in seen:
            continue
        seen.add(x.get_id())
        if z3.is_const(x) and x.decl().kind() == z3.Z3_OP_UNINTERPRETED:
            out.append(x)
        todo.extend(x.children())
    return out


def ks_energy_rigid(rot: int = 4):
    """Kabsch-Sander pair energy: invariant when N, H, C, O are moved rigidly"""
    t0 = time.time()
    from harness import c14_ks
    mod, _ = c05.module()
    R = ROTS[rot]

    def run(transform):
        def setup(I):
            X = [Poly.var(f"x{i}") for i in range(18)]
            Hc = [Poly.var(f"h{i}") for i in range(6)]
            T = [Poly.var(f"t{i}") for i in range(3)]
            xin = moved(X, R, T) if transform else X
            hin = moved(Hc, R, T) if transform else Hc
            xyz = I.new_floats(xin)
            hco = I.new_floats([hin[0], hin[1], hin[2], F(0), hin[3], hin[4], hin[5], F(0)])
            return [xyz, hco, I.new_ints([0, 1, 2, 3, 4, 5]), 1, 0], {}
        out = []
        for I, ctx, ret in L.explore(mod, c14_ks.KS, setup):
            out.append(_fn_sig(I, ret))
        return out
    a, b = run(False), run(True)
    res = {"queries": 2, "solver_s": 0.0, "paths": len(a) + len(b), "wall_s": round(time.time() - t0, 2)}
    if a != b or not a:
        return {**res, "status": "cex", "detail": "KS energy is not invariant under the rigid motion", "cex": {"goal": "ks_rigid", "key": "ks_rigid", "inputs": {"rot": rot}, "reproduced": False, "replay_script": "import sys; sys.exit(2)\n"}}
    return {**res, "status": "holds", "twin_ok": True}


def rg_gyration_rigid(rot: int = 2):
    """compute_rg and the gyration tensor's invariants (trace, Frobenius norm, determinant) under R X + t (E2)"""
    import numpy as np
    import mdtraj.geometry.rg as RG
    import mdtraj.geometry.shape as SH
    import mdtraj.geometry.distance as D
    from harness import c16
    from vtlib import symnum as S
    S.new_ctx(timeout_ms=60000)
    for m in (RG, SH, D):
        m.np = S.NP()
    N = 3
    R = ROTS[rot]
    x = S.sym_array("x", (1, N, 3))
    t = [S.sym(f"t{k}") for k in range(3)]
    y = np.empty((1, N, 3), dtype=object)
    for a in range(N):
        for i in range(3):
            y[0, a, i] = S.Sym(sum(S.rat(R[i][j]) * S.tz(x[0, a, j]) for j in range(3)) + S.tz(t[i]))
    y = y.view(S.SA)
    G = S.Goals(60000)
    r1, r2 = RG.compute_rg(c16._Traj(x)), RG.compute_rg(c16._Traj(y))
    a1, a2 = S.CTX.fn_args[S.tz(r1[0]).get_id()][1], S.CTX.fn_args[S.tz(r2[0]).get_id()][1]
    bounds = [z3.And(S.tz(v) >= -100, S.tz(v) <= 100) for v in list(x.flat) + t]
    G.add("rg", bounds, S.close(a1, a2, z3.RealVal("1/10000000")), {})
    S1, S2 = SH.compute_gyration_tensor(c16._Traj(x)), SH.compute_gyration_tensor(c16._Traj(y))
    tr = lambda M: S.tz(M[0, 0, 0]) + S.tz(M[0, 1, 1]) + S.tz(M[0, 2, 2])
    fro = lambda M: sum(S.tz(M[0, i, j]) * S.tz(M[0, i, j]) for i in range(3) for j in range(3))
    G.add("gyration_trace", [], tr(S1) == tr(S2), {})
    G.add("gyration_frobenius", [], fro(S1) == fro(S2), {})
    G.add("gyration_det", [], S.tz(S._det3(S1[0])) == S.tz(S._det3(S2[0])), {})
    from harness import c16_replay
    return G.run(c16_replay.replay("rg_gyration_rigid"))
