"""C16 — derived descriptors equal their defining formulas (E2 symnum: the real numpy code on z3 reals).

Coordinates (and masses / charges / distances where relevant) are SYMBOLIC; topologies are small and concrete.  Oracles are the
closed forms from the documentation / literature, typed in independently; z3 decides the identity for all values."""
import math
import time
import types

import numpy as np
import z3

from harness import c16_replay as _rp
from vtlib import symnum as S
from vtlib.symnum import NP, Goals, Sym, sym, sym_array, tz


class _El:
    def __init__(self, mass, symbol="C"):
        self.mass, self.symbol = mass, symbol


class _Atom:
    def __init__(self, index, mass, name="C", residue=None):
        self.index, self.element, self.name, self.residue = index, _El(mass), name, residue


class _Top:
    def __init__(self, masses):
        self.atoms = [_Atom(i, m) for i, m in enumerate(masses)]


class _Traj:
    def __init__(self, xyz, masses=None):
        self.xyz = xyz
        self.n_frames, self.n_atoms = xyz.shape[0], xyz.shape[1]
        self.top = self.topology = _Top(masses or [1.0] * xyz.shape[1])

    def __len__(self):
        return self.n_frames


def _vec_eq(a, b):
    return z3.And([tz(x) == tz(y) for x, y in zip(a, b)])


MASS_SETS = {"equal": None, "CHO": [12.011, 1.008, 15.999], "heavy_first": [200.0, 1.0, 1.0], "CNS": [12.011, 14.007, 32.06]}


def rg(masses: str = "equal"):
    """radius of gyration: Rg^2 = sum_i w_i |r_i - c|^2 with w = m / sum m and c the MASS-WEIGHTED centre (the plain mean for equal masses);
    coordinates symbolic in [-100, 100] nm, masses from a small catalogue"""
    import mdtraj.geometry.rg as M
    S.new_ctx(timeout_ms=60000)
    M.np = NP()
    F, N = 2, 3
    xyz = sym_array("x", (F, N, 3))
    mset = MASS_SETS[masses]
    marr = None if mset is None else np.array(mset)
    S.CTX.cons += [z3.And(tz(x) >= -100, tz(x) <= 100) for x in xyz.flat]
    paths = S.explore(lambda: M.compute_rg(_Traj(xyz), masses=marr))
    G = Goals(60000)
    inp = {f"x{f}{i}{k}": xyz[f, i, k] for f in range(F) for i in range(N) for k in range(3)}
    ms = mset or [1.0] * N
    inp.update({f"m{i}": Sym(S.rat(ms[i])) for i in range(N)})
    for pi, (path, cons, assumed, out) in enumerate(paths):
        prem = cons + path
        for f in range(F):
            w = [S.rat(m) for m in ms]
            W = sum(w[1:], w[0])
            c = [sum((w[i] * tz(xyz[f, i, k]) for i in range(1, N)), w[0] * tz(xyz[f, 0, k])) / W for k in range(3)]
            want = sum((w[i] * sum(((tz(xyz[f, i, k]) - c[k]) * (tz(xyz[f, i, k]) - c[k]) for k in range(1, 3)), (tz(xyz[f, i, 0]) - c[0]) * (tz(xyz[f, i, 0]) - c[0])) for i in range(N)), z3.RealVal(0)) / W
            e = tz(out[f])
            arg = S.CTX.fn_args.get(e.get_id())
            if not arg or arg[0] != "sqrt":
                G.add(f"rg_is_sqrt[{pi}.f{f}]", prem, z3.BoolVal(False), inp)
                continue
            # (float constants such as 1/N are not exact rationals: compare with a small absolute + relative tolerance)
            G.add(f"rg_squared[{pi}.f{f}]", prem, S.close(arg[1], want, z3.RealVal("1/100000000"), z3.RealVal("1/100000000")), inp)
    r = G.run(_replay_rg(mset is not None))
    r["paths"] = len(paths)
    return r


def _replay_rg(weighted):
    def rep(name, vals):
        script = f'''
import sys, numpy as np, mdtraj as md
vals = {vals!r}
xyz = np.array([[[vals["x%d%d%d" % (f, i, k)] for k in range(3)] for i in range(3)] for f in range(2)], dtype=np.float32)
m = np.array([vals.get("m%d" % i, 1.0) for i in range(3)])
t = md.Trajectory(xyz, None)
got = md.compute_rg(t, masses=m if {weighted} else None)
w = m / m.sum(); c = (xyz.astype(float) * w[None, :, None]).sum(1)
want = np.sqrt((w[None, :] * ((xyz.astype(float) - c[:, None, :]) ** 2).sum(2)).sum(1))
print("compute_rg", got, "definition", want)
sys.exit(1 if np.abs(got - want).max() > 1e-4 * max(1.0, np.abs(want).max()) else 0)
'''
        import subprocess, sys as _s, tempfile
        with tempfile.NamedTemporaryFile("w", suffix=".py", delete=False) as fh:
            fh.write(script)
        r = subprocess.run([_s.executable, fh.name], capture_output=True, text=True)
        return r.returncode == 1, script + "\n# " + (r.stdout + r.stderr)[-300:].replace("\n", "\n# "), name.split("[")[0]
    return rep


def centers():
    """centre of mass = sum m_i r_i / sum m_i (element masses from the topology); centre of geometry = mean"""
    import mdtraj.geometry.distance as M
    S.new_ctx(timeout_ms=30000)
    M.np = NP()
    F, N = 2, 3
    xyz = sym_array("x", (F, N, 3))
    masses = [12.011, 1.008, 15.999]
    t = _Traj(xyz, masses)
    com = M.compute_center_of_mass(t)
    cog = M.compute_center_of_geometry(t)
    G = Goals(30000)
    Mt = sum(masses)
    bounds = [z3.And(tz(x) >= -1000, tz(x) <= 1000) for x in xyz.flat]
    for f in range(F):
        for k in range(3):
            want = sum(S.rat(masses[i]) * tz(xyz[f, i, k]) for i in range(N)) / S.rat(Mt)
            G.add(f"com[f{f}.{k}]", bounds, S.close(com[f, k], want, z3.RealVal("1/1000000000")), {})
            G.add(f"cog[f{f}.{k}]", [], tz(cog[f, k]) == sum(tz(xyz[f, i, k]) for i in range(N)) / N, {})
    return G.run(_rp.replay("centers"))


def gyration_and_shape():
    """gyration tensor S = (1/N) sum (r-c)(r-c)^T; asphericity b = l3 - (l1+l2)/2, acylindricity c = l2 - l1,
    relative shape anisotropy kappa^2 = (b^2 + 3/4 c^2) / (l1+l2+l3)^2 over the sorted eigenvalues"""
    import mdtraj.geometry.shape as M
    import mdtraj.geometry.distance as D
    S.new_ctx(timeout_ms=60000)
    M.np = NP()
    D.np = NP()
    F, N = 2, 3
    xyz = sym_array("x", (F, N, 3))
    t = _Traj(xyz)
    Sg = M.compute_gyration_tensor(t)
    G = Goals(60000)
    for f in range(F):
        c = [sum(tz(xyz[f, i, k]) for i in range(N)) / N for k in range(3)]
        for a in range(3):
            for b in range(3):
                want = sum((tz(xyz[f, i, a]) - c[a]) * (tz(xyz[f, i, b]) - c[b]) for i in range(N)) / N
                G.add(f"gyration[f{f}.{a}{b}]", [], tz(Sg[f, a, b]) == want, {})
    asp, acy, kap = M.asphericity(t), M.acylindricity(t), M.relative_shape_anisotropy(t)
    prem = list(S.CTX.cons)
    eigs = S.CTX.eig
    # each descriptor called principal_moments once: 3 eigenvalue triples per frame set
    for k, (name, val) in enumerate((("asphericity", asp), ("acylindricity", acy), ("kappa2", kap))):
        for f in range(F):
            idx, ls, mat = eigs[k * F + f]
            l1, l2, l3 = ls
            b = l3 - (l1 + l2) / 2
            cc = l2 - l1
            if name == "asphericity":
                G.add(f"{name}[f{f}]", prem, tz(val[f]) == b, {})
            elif name == "acylindricity":
                G.add(f"{name}[f{f}]", prem, tz(val[f]) == cc, {})
            else:
                tot = l1 + l2 + l3
                G.add(f"{name}[f{f}]", prem + [tot > S.rat(1e-3)] + S.CTX.assumed, tz(val[f]) * tot * tot == b * b + z3.RealVal("3/4") * cc * cc, {})
    return G.run(_rp.replay("gyration_and_shape"))


KARPLUS = {  # published constants (Hz), typed from the cited tables: (A, B, C, phi0 in degrees)
    "compute_J3_HN_HA": {"Bax2007": (8.4, -1.36, 0.33, -60), "Ruterjans1999": (7.90, -1.05, 0.65, -60), "Bax1997": (7.09, -1.42, 1.55, -60)},
    "compute_J3_HN_C": {"Bax2007": (4.36, -1.08, -0.01, 180)},
    "compute_J3_HN_CB": {"Bax2007": (3.71, -0.59, 0.08, 60)},
}


def karplus():
    """J(phi) = A cos^2(phi + phi0) + B cos(phi + phi0) + C with the published constants; phi symbolic"""
    import mdtraj.nmr.scalar_couplings as M
    S.new_ctx(timeout_ms=30000)
    M.np = NP()
    phi = sym_array("phi", (1, 2))
    idx = np.array([[0, 1, 2, 3], [4, 5, 6, 7]])
    M.compute_phi = lambda traj: (idx, phi)
    G = Goals(30000)
    for fn, models in KARPLUS.items():
        for model, (A, B, C, p0) in models.items():
            ind, J = getattr(M, fn)(object(), model=model)
            for k in range(2):
                c = (phi[0, k] + math.radians(p0)).cos()
                # the argument of the code's cosine must be phi + phi0 (same named value) — compare through the named cosine of phi+phi0
                want = S.rat(A) * tz(c) * tz(c) + S.rat(B) * tz(c) + S.rat(C)
                G.add(f"{fn}.{model}[{k}]", list(S.CTX.cons), tz(J[0, k]) == want, {})
            G.add(f"{fn}.{model}.indices", [], z3.BoolVal(ind is idx), {})
    return G.run(_rp.replay("karplus"))


def density():
    """density = total mass / volume, in kg/m^3 (1 dalton/nm^3 = 1.66053907 kg/m^3)"""
    import mdtraj.geometry.thermodynamic_properties as M
    S.new_ctx(timeout_ms=30000)
    M.np = NP()
    vols = sym_array("V", (2,))
    masses = [12.011, 1.008, 15.999]
    t = types.SimpleNamespace(top=_Top(masses), unitcell_volumes=vols)
    d = M.density(t)
    d2 = M.density(t, masses=[2.0, 3.0])
    G = Goals(30000)
    prem = [tz(v) > S.rat(0.1) for v in vols] + S.CTX.assumed + S.CTX.cons
    for f in range(2):
        G.add(f"density[f{f}]", prem, S.close(tz(d[f]) * tz(vols[f]), S.rat(sum(masses) * 1.66053907), z3.RealVal("1/100000")), {})
        G.add(f"density_masses[f{f}]", prem, S.close(tz(d2[f]) * tz(vols[f]), S.rat(5.0 * 1.66053907), z3.RealVal("1/100000")), {})
    return G.run(_rp.replay("density"))


def dipoles():
    """dipole moment = sum_i q_i (r_i - r_0), r_i - r_0 rebuilt from minimum-image displacements (molecule's first atom -> i) + (atom 0 -> first atom)"""
    import mdtraj.geometry.thermodynamic_properties as M
    S.new_ctx(timeout_ms=30000)
    M.np = NP()
    F, N = 1, 4
    res_first = [0, 0, 2, 2]
    q = [sym(f"q{i}") for i in range(N)]
    charges = np.array(q, dtype=object).view(S.SA)
    D = {}

    def disp(traj, pairs, periodic=True, opt=True):
        out = np.empty((F, len(pairs), 3), dtype=object)
        for k, (a, b) in enumerate(np.asarray(pairs)):
            for c in range(3):
                key = (int(a), int(b), c)
                if int(a) == int(b):
                    out[0, k, c] = 0.0
                    continue
                if key not in D:
                    D[key] = sym(f"d{a}_{b}_{c}")
                out[0, k, c] = D[key]
        return out.view(S.SA)
    M.md = types.SimpleNamespace(compute_displacements=disp)
    atoms = []
    for i in range(N):
        res = types.SimpleNamespace(atom=lambda k, i=i: types.SimpleNamespace(index=res_first[i]))
        atoms.append(types.SimpleNamespace(index=i, residue=res))
    t = types.SimpleNamespace(top=types.SimpleNamespace(atoms=atoms))
    mom = M.dipole_moments(t, charges)
    G = Goals(30000)
    # INDEPENDENT definition: mu = sum_i q_i (r_i - r_0), with r_i - r_0 rebuilt from minimum-image displacements as (first atom of i's molecule -> i)
    # + (atom 0 -> that first atom); compute_displacements(pairs (a, b)) is the displacement FROM a TO b (C05).  A displacement the code asked for in
    # the opposite direction is the negative of the same physical vector.
    def disp(a, b, c):
        if a == b:
            return z3.RealVal(0)
        if (a, b, c) in D:
            return tz(D[(a, b, c)])
        if (b, a, c) in D:
            return -tz(D[(b, a, c)])
        return None
    for c in range(3):
        want = z3.RealVal(0)
        ok = True
        for i in range(N):
            loc, mol = disp(res_first[i], i, c), disp(0, res_first[i], c)
            if loc is None or mol is None:
                ok = False
                break
            want = want + tz(q[i]) * (loc + mol)
        G.add(f"dipole[{c}]", [], (tz(mom[0, c]) == want) if ok else z3.BoolVal(False), {})
    return G.run(_rp.replay("dipoles"))


# ------------------------------------------------------------------ residue contacts

def _contact_top():
    import mdtraj as md
    top = md.Topology()
    ch = top.add_chain()
    spec = [("ALA", ["N", "CA", "CB", "HB1"]), ("GLY", ["N", "CA", "HA2"]), ("HOH", ["O", "H1"]), ("SER", ["N", "CA", "CB", "OG", "HG"]), ("LYS", ["CA", "CB"]), ("VAL", ["N", "CA", "CB"])]
    from mdtraj.core import element as E
    for rn, names in spec:
        r = top.add_residue(rn, ch)
        for n in names:
            top.add_atom(n, E.hydrogen if n.startswith("H") else (E.oxygen if n.startswith("O") else (E.nitrogen if n == "N" else E.carbon)), r)
    return top


def contacts(scheme: str = "closest-heavy", mode: str = "all", soft_min: bool = False, periodic: bool = True, ignore_nonprotein: bool = True):
    """column i of compute_contacts is the minimum (or soft minimum) over EXACTLY the atom pairs the scheme designates for residue pair i,
    and residue_pairs[i] is that pair (running-offset bookkeeping with residues of unequal size)"""
    import mdtraj.geometry.contact as M
    S.new_ctx(timeout_ms=60000)
    M.np = NP()
    top = _contact_top()
    F = 2
    D = {}

    flags = []

    def dist(traj, pairs, periodic=True, opt=True):
        flags.append(bool(periodic))
        out = np.empty((F, len(pairs)), dtype=object)
        for k, (a, b) in enumerate(pairs):
            for f in range(F):
                key = (min(int(a), int(b)), max(int(a), int(b)), f)
                if key not in D:
                    D[key] = sym(f"d{key[0]}_{key[1]}_f{f}")
                    S.CTX.cons += [tz(D[key]) > S.rat(0.05), tz(D[key]) < 5]
                out[f, k] = D[key]
        return out.view(S.SA)
    M.md = types.SimpleNamespace(compute_distances=dist)
    class _T:
        topology = top
        n_residues = top.n_residues
        n_frames = F

        def __len__(self):
            return F
    _T.top = top
    traj = _T()
    cont = "all" if mode == "all" else [[0, 3], [3, 5], [1, 4], [0, 5]]
    import warnings
    with warnings.catch_warnings():
        warnings.simplefilter("ignore")
        dist_out, pairs = M.compute_contacts(traj, contacts=cont, scheme=scheme, ignore_nonprotein=ignore_nonprotein, soft_min=soft_min, soft_min_beta=20, periodic=periodic)
    G = Goals(60000)
    G.add("periodic_flag_forwarded", [], z3.BoolVal(len(flags) >= 1 and all(f == bool(periodic) for f in flags)), {})
    H = lambda a: a.element.symbol == "H"
    sc = lambda a: a.residue.name not in ("HOH",) and a.name not in ("C", "CA", "N", "O", "HA", "H")

    def members(r):
        atoms = list(top.residue(r).atoms)
        if scheme == "ca":
            return [a.index for a in atoms if a.name == "CA"]
        if scheme == "closest":
            return [a.index for a in atoms]
        if scheme == "closest-heavy":
            return [a.index for a in atoms if not H(a)]
        if scheme == "sidechain":
            return [a.index for a in atoms if sc(a)]
        return [a.index for a in atoms if sc(a) and (not H(a) or top.residue(r).name == "GLY")]
    has_ca = lambda x: any(a.name == "CA" for a in top.residue(x).atoms)
    # documented: 'all' = every residue pair at least three apart, restricted to protein residues (those with a CA) when ignore_nonprotein;
    # the 'ca' scheme can only report pairs in which both residues HAVE a CA
    want_pairs = [(i, j) for i in range(top.n_residues) for j in range(i + 3, top.n_residues)
                  if all(has_ca(x) for x in (i, j)) or (not ignore_nonprotein and scheme != "ca")] if mode == "all" else [tuple(p) for p in cont]
    got_pairs = [tuple(int(v) for v in p) for p in np.asarray(pairs)]
    G.add("residue_pairs", [], z3.BoolVal(got_pairs == want_pairs), {})
    G.add("one_label_per_column", [], z3.BoolVal(np.asarray(dist_out).shape == (F, len(got_pairs))), {})
    prem = list(S.CTX.cons) + list(S.CTX.assumed)
    if got_pairs == want_pairs:
        for col, (i, j) in enumerate(want_pairs):
            ap = [(a, b) for a in members(i) for b in members(j)]
            for f in range(F):
                ds = [tz(D[(min(a, b), max(a, b), f)]) for a, b in ap]
                val = tz(dist_out[f, col])
                if not soft_min or scheme == "ca":
                    G.add(f"min[{col}.f{f}]", prem, z3.And(z3.And([val <= d for d in ds]), z3.Or([val == d for d in ds])), {})
                else:
                    # soft minimum beta / log(sum_k exp(beta / d_k)) rebuilt with the same named exp / log / quotient values
                    es = [(Sym(S.rat(20.0)) / Sym(d)).exp() for d in ds]
                    tot = es[0]
                    for e in es[1:]:
                        tot = tot + e
                    spec = Sym(S.rat(20.0)) / tot.log()
                    G.add(f"softmin[{col}.f{f}]", prem, val == tz(spec), {})
    r = G.run(_replay_contacts(scheme, cont, soft_min, periodic, ignore_nonprotein))
    r["residue_pairs"] = got_pairs
    return r


def _replay_contacts(scheme, cont, soft_min, periodic=True, ignore_nonprotein=True):
    def rep(name, vals):
        script = f'''
import sys, itertools, warnings, numpy as np, mdtraj as md
warnings.simplefilter("ignore")
sys.path.insert(0, "/verif")
from harness.c16 import _contact_top
top = _contact_top(); rng = np.random.RandomState(7)
t = md.Trajectory((rng.rand(3, top.n_atoms, 3) * 3).astype(np.float32), top)
t.unitcell_lengths = np.full((3, 3), 1.7); t.unitcell_angles = np.full((3, 3), 90.0)      # a cell much smaller than the spread: the two conventions differ
scheme, cont, soft, periodic = {scheme!r}, {cont!r}, {soft_min!r}, {periodic!r}
d, pairs = md.compute_contacts(t, contacts=cont, scheme=scheme, soft_min=soft, soft_min_beta=20, periodic=periodic, ignore_nonprotein={ignore_nonprotein!r})
if d.shape[1] != len(pairs):
    print("distance columns:", d.shape[1], " residue-pair labels:", len(pairs)); sys.exit(1)
H = lambda a: a.element.symbol == "H"
sc = lambda a: a.residue.name != "HOH" and a.name not in ("C", "CA", "N", "O", "HA", "H")
def members(r):
    atoms = list(top.residue(r).atoms)
    return {{"ca": [a.index for a in atoms if a.name == "CA"], "closest": [a.index for a in atoms], "closest-heavy": [a.index for a in atoms if not H(a)],
            "sidechain": [a.index for a in atoms if sc(a)], "sidechain-heavy": [a.index for a in atoms if sc(a) and (not H(a) or top.residue(r).name == "GLY")]}}[scheme]
bad = 0
for col, (i, j) in enumerate(pairs):
    ap = list(itertools.product(members(i), members(j)))
    dd = md.compute_distances(t, ap, periodic=periodic)
    want = dd.min(axis=1) if (not soft or scheme == "ca") else 20.0 / np.log(np.exp(20.0 / dd).sum(axis=1))
    if not np.allclose(d[:, col], want, rtol=1e-4, atol=1e-5): bad += 1
print("columns deviating from the scheme's definition:", bad, "of", len(pairs))
sys.exit(1 if bad else 0)
'''
        import subprocess, sys as _s, tempfile
        with tempfile.NamedTemporaryFile("w", suffix=".py", delete=False) as fh:
            fh.write(script)
        r = subprocess.run([_s.executable, fh.name], capture_output=True, text=True)
        return r.returncode == 1, script + "\n# " + (r.stdout + r.stderr)[-300:].replace("\n", "\n# "), name.split("[")[0]
    return rep


def rdf_normalisation():
    """g(r_k) = count_k / (n_pairs * sum_f 1/V_f * 4/3 pi (e_{k+1}^3 - e_k^3)); r_k the bin centre; V_f symbolic"""
    import mdtraj.geometry.rdf as M
    S.new_ctx(timeout_ms=30000)
    M.np = NP()
    vols = sym_array("V", (2,))
    S.CTX.cons += [tz(v) > S.rat(0.5) for v in vols] + [tz(v) < 1000 for v in vols]
    dist = np.array([[0.11, 0.26, 0.31], [0.12, 0.41, 0.33]])
    M.compute_distances = lambda traj, pairs, periodic=True, opt=True: dist
    class _T:                                            # what compute_rdf may legitimately ask a trajectory
        unitcell_volumes = vols
        n_frames, n_atoms = 2, 3

        def __len__(self):
            return 2
    t = _T()
    pairs = np.array([[0, 1], [0, 2], [1, 2]])
    r, g = M.compute_rdf(t, pairs, r_range=(0.1, 0.5), n_bins=4)
    counts, edges = np.histogram(dist, range=(0.1, 0.5), bins=4)
    G = Goals(30000)
    prem = list(S.CTX.cons) + list(S.CTX.assumed)
    inv = tz(1 / Sym(tz(vols[0]))) + tz(1 / Sym(tz(vols[1])))
    for k in range(4):
        shell = S.rat(4.0 / 3.0 * math.pi * (edges[k + 1] ** 3 - edges[k] ** 3))
        G.add(f"rdf_norm[{k}]", prem, S.close(tz(g[k]) * (3 * inv * shell), S.rat(float(counts[k])), z3.RealVal("1/1000000")), {})
        G.add(f"rdf_r[{k}]", [], z3.BoolVal(abs(float(r[k]) - 0.5 * (edges[k] + edges[k + 1])) < 1e-12), {})
    return G.run(_rp.replay("rdf_normalisation"))


def squareform_placement():
    """squareform puts column i at [r0, r1] and [r1, r0] of the residue pair i (symmetric), zeros elsewhere"""
    import mdtraj.geometry.contact as M
    S.new_ctx(timeout_ms=30000)
    M.np = NP()
    d = sym_array("d", (2, 3))
    pairs = np.array([[0, 3], [1, 2], [3, 1]])
    cm = M.squareform(d, pairs)
    G = Goals(30000)
    for f in range(2):
        for a in range(4):
            for b in range(4):
                hit = [i for i, (p, q) in enumerate(pairs) if (p, q) == (a, b) or (q, p) == (a, b)]
                want = tz(d[f, hit[0]]) if hit else z3.RealVal(0)
                got = cm[f, a, b]
                G.add(f"squareform[{f}.{a}{b}]", [], (tz(got) == want), {})
    return G.run(_rp.replay("squareform_placement"))
