"""C13 (Python layer) — shrake_rupley's bookkeeping around the kernel, under CrossHair.  The compiled kernel is replaced by its
contract as proved on the IR (harness/c13.py): out[f, mapping[j]] += area[f][j] for every SELECTED atom j (mask[j] == 1), nothing
else is touched; the per-atom areas are distinct powers of two so every sum identifies its terms."""
import vtlib.xhfix  # noqa: F401
import numpy as np

import mdtraj.geometry.sasa as _sasa
from mdtraj.core import element as _el
from mdtraj.core.topology import Topology
from mdtraj.core.trajectory import Trajectory
from vtlib.xhfix import conc

ELEMS = [_el.carbon, _el.nitrogen, _el.oxygen, _el.hydrogen, _el.sulfur]
N_ATOMS, RES_OF = 5, [0, 0, 1, 2, 2]          # three residues of 2, 1, 2 atoms


def _traj(two_chains=False):
    top = Topology()
    ch = top.add_chain()
    ch2 = top.add_chain() if two_chains else ch          # residue 1 and 2 in a second chain: residue indices stay GLOBAL
    res = [top.add_residue("ALA", ch), top.add_residue("GLY", ch2), top.add_residue("SER", ch2)]
    for i in range(N_ATOMS):
        top.add_atom("A%d" % i, ELEMS[i], res[RES_OF[i]])
    xyz = np.arange(2 * N_ATOMS * 3, dtype=np.float32).reshape(2, N_ATOMS, 3)
    return Trajectory(xyz, top)


AREA = np.array([[1.0, 2.0, 4.0, 8.0, 16.0], [32.0, 64.0, 128.0, 256.0, 512.0]], dtype=np.float32)


_TABLE0 = dict(_sasa._ATOMIC_RADII)          # the documented default radii, captured before any call


class _Kernel:
    def __init__(self):
        self.calls = []

    def _sasa(self, xyz, radii, n_sphere_points, atom_mapping, mask, out):
        self.calls.append({"radii": np.array(radii), "n": n_sphere_points, "map": np.array(atom_mapping), "mask": np.array(mask), "out0": np.array(out)})
        for f in range(xyz.shape[0]):
            for j in range(xyz.shape[1]):
                if mask[j]:
                    out[f, atom_mapping[j]] += AREA[f, j]


def bookkeeping(residue_mode: bool, use_idx: bool, k0: bool, k1: bool, k2: bool, k3: bool, k4: bool, probe10: int, override: bool, get_mapping: bool, two_chains: bool = False, primed: bool = False) -> bool:
    """
    pre: 0 <= probe10 <= 3
    pre: (not use_idx) or k0 or k1 or k2 or k3 or k4
    post: __return__
    """
    probe = conc(probe10, 0, 3) / 10.0
    k = _Kernel()
    _sasa._geometry = k
    t = _traj(two_chains)
    if primed:
        # a HISTORY: an earlier call on the same topology and probe with OTHER radii must leave nothing behind
        _sasa.shrake_rupley(t, probe_radius=probe, n_sphere_points=7, change_radii={"C": 0.3, "N": 0.4} if not override else None)
        del k.calls[:]
    idx = [i for i, b in enumerate((k0, k1, k2, k3, k4)) if b] if use_idx else None
    kw = {}
    if override:
        kw["change_radii"] = {"C": 0.5}
    r = _sasa.shrake_rupley(t, probe_radius=probe, n_sphere_points=7, mode="residue" if residue_mode else "atom",
                            atom_indices=None if idx is None else np.array(idx), get_mapping=get_mapping, **kw)
    if get_mapping:
        r, mapping = r
        if list(mapping) != (RES_OF if residue_mode else list(range(N_ATOMS))):
            return False
    if len(k.calls) != 1:
        return False
    c = k.calls[0]
    sel = list(range(N_ATOMS)) if idx is None else idx
    # radii = table value (or override) + probe, per atom, in atom order
    if dict(_sasa._ATOMIC_RADII) != _TABLE0:     # change_radii must not outlive the call it was passed to
        return False
    table = dict(_TABLE0)
    if override:
        table["C"] = 0.5
    want_r = np.array([table[e.symbol] for e in ELEMS], dtype=np.float32) + probe
    if not np.allclose(c["radii"], want_r, atol=1e-6) or c["n"] != 7:
        return False
    if list(c["mask"]) != [1 if i in sel else 0 for i in range(N_ATOMS)]:
        return False
    if list(c["map"]) != (RES_OF if residue_mode else list(range(N_ATOMS))):
        return False
    ngroups = 3 if residue_mode else N_ATOMS
    if r.shape != (2, ngroups):
        return False
    for f in range(2):
        for g in range(ngroups):
            members = [j for j in range(N_ATOMS) if (RES_OF[j] if residue_mode else j) == g and j in sel]
            want = float(sum(AREA[f, j] for j in members)) if members else -1.0
            if float(r[f, g]) != want:
                return False
    return True
