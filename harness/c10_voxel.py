"""C10 — the voxel neighbour list itself (mdtraj/geometry/src/neighborlist.cpp: _compute_neighborlist, Voxels::getVoxelIndex / getNeighbors /
findLowerBound / findUpperBound) executed symbolically from its clang AST (engine E5, vtlib/cxxsym.py).

Two atoms in a concrete cell with a concrete cutoff.  The x coordinates of both atoms are SYMBOLIC reals anywhere within +-2.5 cell lengths;
their y and z coordinates run over a grid of fractional positions that includes both sides of every face and positions outside the cell
(the obligation fixes atom 0's grid point and loops over atom 1's).  With y and z concrete every quantity of the search is linear in the two
unknowns plus the integers introduced by floor / round (the wrap into the cell, the image shifts), the squared distance against the squared
cutoff becomes a bound on |dx| (vtlib.cxxsym.Quad), so z3 decides every branch.  Paths fork on comparisons (x-range tests, binary searches,
sort order).  Per path the lists are concrete, and the claim is

      0 in neighbors[1]  and  1 in neighbors[0], each exactly once   <=>   some lattice image of the pair is closer than the cutoff

with the right-hand side written here as a finite disjunction over image triples (a margin of 1e-5 around the cutoff is outside the claim).
A counterexample is a pair of positions; it is replayed on a native build of the current neighborlist.cpp through a shim."""
import itertools
import json
import math
import os
import subprocess
import sys
import tempfile
import time
from fractions import Fraction as F

import z3

from vtlib import cxxsym as X
from vtlib.core import REPO

G = REPO / "mdtraj" / "geometry"
_PROG = {}

CELLS = {
    "cubic3": [[3, 0, 0], [0, 3, 0], [0, 0, 3]],
    "ortho345": [[3, 0, 0], [0, 4, 0], [0, 0, 5]],
    "ortho543": [[5, 0, 0], [0, 4, 0], [0, 0, 3]],
    # lengths 3, 4, 5 angles 80, 100, 70 in the standard orientation, rounded to 4 decimals
    "triclinic": [[3, 0, 0], [F(13681, 10000), F(37588, 10000), 0], [F(-8682, 10000), F(12400, 10000), F(47650, 10000)]],
    "hex": [[3, 0, 0], [F(-15, 10), F(25981, 10000), 0], [0, 0, 4]],
    # a strongly skewed cell (lengths 2.42, 3.05, 2.13, angles 121.1, 124.5, 88.6): c leans by almost half of a and a third of b
    "skewed": [[F(24226, 10000), 0, 0], [F(764, 10000), F(30449, 10000), 0], [F(-12072, 10000), F(-10723, 10000), F(13941, 10000)]],
}
GRID = (F(-3, 10), F(15, 100), F(85, 100), F(12, 10))          # fractional y / z positions: outside below, just inside, just inside the upper face, outside above
GRID_FINE = (F(-3, 10), F(5, 100), F(22, 100), F(41, 100), F(59, 100), F(78, 100), F(95, 100), F(12, 10))


def program():
    if "p" not in _PROG:
        _PROG["p"] = X.Program(G / "src" / "neighborlist.cpp", ["_compute_neighborlist"], ["VoxelIndex", "Voxels"], [], [str(G / "include"), str(G / "src" / "kernels")], conc_records=("VoxelIndex",), merge_minmax=True)
    return _PROG["p"]


def _width(cell):
    import numpy as np
    c = np.array([[float(v) for v in r] for r in cell])
    return abs(np.linalg.det(c)) / max(np.linalg.norm(np.cross(c[(i + 1) % 3], c[(i + 2) % 3])) for i in range(3))


def _spec(cell, cut, dx, dy, dz, margin):
    """(inside, outside): some image closer than cut - margin / every image farther than cut + margin; dx is a z3 term, dy and dz Fractions"""
    a, b, c = cell
    ins, outs = [], []
    for nb in range(-3, 4):
        for nc in range(-3, 4):
            yy = dy + nb * F(b[1]) + nc * F(c[1])
            zz = dz + nc * F(c[2])
            for sgn, lst in ((-1, ins), (1, outs)):
                rest = (cut + sgn * margin) ** 2 - yy * yy - zz * zz
                if rest <= 0:
                    if sgn == 1:
                        pass                                   # never within cut + margin through this (nb, nc): contributes True to `outs`
                    continue
                r = F(math.sqrt(float(rest)))
                for na in range(-8, 9):
                    e = dx + X.tz(nb * F(b[0]) + nc * F(c[0]) + na * F(a[0]))
                    if sgn == -1:
                        lst.append(z3.And(e < X.tz(r), e > X.tz(-r)))
                    else:
                        lst.append(z3.Or(e > X.tz(r), e < X.tz(-r)))
    return (z3.Or(*ins) if ins else z3.BoolVal(False)), (z3.And(*outs) if outs else z3.BoolVal(True))


def voxel_pair(cell: str = "cubic3", cut_frac: float = 0.8, g0: int = 0, periodic: bool = True, points: str = "", grid: str = "coarse", spectator: str = "", row: int = -1):
    """g0: index of atom 0's (y, z) grid point (0..15); atom 1 runs over the whole grid.  points: 'y0,z0,y1,z1' (Cartesian, nm) replaces the grid by
    one explicit pair of (y, z) positions.  spectator: 'x,y,z' of a third, concrete atom far from both (it stretches the bounding box that
    sets the voxel grid when there is no cell); its list must stay empty.  row >= 0: atom 1 runs over ONE row of the grid (that y, every z)"""
    t0 = time.time()
    P = program()
    cm = [[F(v) for v in r] for r in CELLS[cell]]
    cut = F(cut_frac * _width(cm) / 2).limit_denominator(1000)
    margin = F(1, 100000)
    Lx = cm[0][0]
    x0, x1 = z3.Real("x0"), z3.Real("x1")
    base = [x0 >= X.tz(-F(5, 2) * Lx), x0 <= X.tz(F(7, 2) * Lx), x1 >= X.tz(-F(5, 2) * Lx), x1 <= X.tz(F(7, 2) * Lx)]
    GR = GRID if grid == "coarse" else GRID_FINE
    fy0, fz0 = GR[g0 // len(GR)], GR[g0 % len(GR)]
    tot = {"queries": 0, "solver_s": 0.0, "paths": 0, "pairs": 0}
    seen = {True: 0, False: 0}
    box = [v for r in cm for v in r]
    explicit = [F(v).limit_denominator(100000) for v in points.split(",")] if points else None
    for fy1, fz1 in (itertools.product(GR if row < 0 else [GR[row]], GR) if not explicit else [(None, None)]):
        # Cartesian y, z of the grid points (fractional along b and c; the x contribution of b and c is absorbed by the symbolic x)
        def yz(fy, fz):
            return fy * cm[1][1] + fz * cm[2][1], fz * cm[2][2]
        (y0, z0), (y1, z1) = (yz(fy0, fz0), yz(fy1, fz1)) if not explicit else ((explicit[0], explicit[1]), (explicit[2], explicit[3]))
        xyz = [X.SReal(x0), y0, z0, X.SReal(x1), y1, z1]
        spec3 = [F(v).limit_denominator(100000) for v in spectator.split(",")] if spectator else []
        xyz += spec3
        n_at = 2 + len(spec3) // 3

        def run():
            r = P.env["_compute_neighborlist"](X.Ptr(list(xyz), 0), n_at, cut, X.Ptr(list(box), 0) if periodic else None)
            return [list(v.a) for v in r.a]
        spec_in, spec_out = _spec(cm, cut, x1 - x0, y1 - y0, z1 - z0, margin) if periodic else (None, None)
        if not periodic:
            rest_in, rest_out = (cut - margin) ** 2 - (y1 - y0) ** 2 - (z1 - z0) ** 2, (cut + margin) ** 2 - (y1 - y0) ** 2 - (z1 - z0) ** 2
            d = x1 - x0
            ri, ro = (F(math.sqrt(float(rest_in))) if rest_in > 0 else None), (F(math.sqrt(float(rest_out))) if rest_out > 0 else None)
            spec_in = z3.And(d < X.tz(ri), d > X.tz(-ri)) if ri is not None else z3.BoolVal(False)
            spec_out = z3.Or(d > X.tz(ro), d < X.tz(-ro)) if ro is not None else z3.BoolVal(True)
        tot["pairs"] += 1
        try:
            for path, lists, ctx, stats in X.explore(run, base, max_paths=4000, timeout_ms=20000):
                tot["paths"] += 1
                ok_shape = len(lists) == n_at and all(isinstance(v, int) for l in lists for v in l)
                got_in = lists == [[1], [0]] + [[]] * (n_at - 2)
                got_out = lists == [[], []] + [[]] * (n_at - 2)
                if not ok_shape or not (got_in or got_out):
                    why = f"lists {lists} are neither the symmetric pair nor empty (asymmetric, duplicated or foreign entries)"
                    goal = z3.BoolVal(True)
                else:
                    why = "listed although every image is beyond the cutoff" if got_in else "not listed although an image is within the cutoff"
                    goal = spec_out if got_in else spec_in
                s = z3.Solver()
                s.set("timeout", 20000)
                s.add(*ctx.base, *path, goal)
                t = time.time()
                r = s.check()
                tot["solver_s"] += time.time() - t
                tot["queries"] += 1
                if r == z3.sat:
                    m = s.model()
                    val = lambda v: float(m.eval(v, model_completion=True).as_fraction())
                    pos = [[val(x0), float(y0), float(z0)], [val(x1), float(y1), float(z1)]] + [[float(v) for v in spec3[k:k + 3]] for k in range(0, len(spec3), 3)]
                    rep, script = replay(cell, float(cut), pos, periodic)
                    return {**tot, "status": "cex", "detail": f"cell {cell}, cutoff {float(cut):.4f}, atoms at {pos}: {why}; lists {lists}",
                            "cex": {"goal": "voxel_pair", "key": "voxel_pair", "inputs": {"cell": cell, "cutoff": float(cut), "positions": pos}, "reproduced": rep, "replay_script": script}}
                if r != z3.unsat:
                    return {**tot, "status": "inconclusive", "detail": "solver: unknown"}
                seen[got_in] += 1
            tot["queries"] += stats["queries"]
            tot["solver_s"] += stats["solver_s"]
        except X.OutOfBounds as e:
            return {**tot, "status": "cex", "detail": f"out-of-bounds access: {e} (cell {cell}, atom 1 grid point {float(fy1)}, {float(fz1)})",
                    "cex": {"goal": "voxel.bounds", "key": "voxel.bounds", "inputs": {"cell": cell}, "reproduced": False, "replay_script": ""}}
        except (X.Unsupported, X.LowerError) as e:
            return {**tot, "status": "inconclusive", "detail": f"{type(e).__name__}: {e}"}
    tot["solver_s"] = round(tot["solver_s"], 2)
    if not (seen[True] and seen[False]) and not explicit and row < 0:
        return {**tot, "status": "inconclusive", "detail": f"reachability twin failed: paths with the pair listed {seen[True]}, not listed {seen[False]}"}
    return {**tot, "status": "holds", "twin_ok": True, "wall_s": round(time.time() - t0, 2)}


_REPLAY = r'''
import sys, os, ctypes, tempfile, subprocess, itertools, json, numpy as np
def _die(*a):
    import traceback; traceback.print_exception(*a); os._exit(3)
sys.excepthook = _die
REPO = os.environ.get("VT_REPO", "/repo"); G = REPO + "/mdtraj/geometry"
SHIM = """
#include "%%s/src/neighborlist.cpp"
extern "C" int vt_nl(const float* xyz, int n, float cut, const float* box, int* out, int cap) {
    vector<vector<int> > nb = _compute_neighborlist(xyz, n, cut, box);
    int k = 0;
    for (int i = 0; i < n; i++) for (size_t j = 0; j < nb[i].size(); j++) { if (k + 2 <= cap) { out[k] = i; out[k+1] = nb[i][j]; } k += 2; }
    return k; }
""" %% G
d = tempfile.mkdtemp(); open(d + "/s.cpp", "w").write(SHIM)
subprocess.check_call(["g++", "-O2", "-msse4.1", "-shared", "-fPIC", "-I" + G + "/include", "-I" + G + "/src/kernels", d + "/s.cpp", "-o", d + "/s.so"])
lib = ctypes.CDLL(d + "/s.so")
fp = lambda a: a.ctypes.data_as(ctypes.c_void_p)
case = json.loads(%(case)r)
cell = np.array(case["cell"], dtype=float); xyz = np.array(case["positions"], dtype=np.float32); cut = case["cutoff"]
out = np.zeros(64, dtype=np.int32); box = np.ascontiguousarray(cell, dtype=np.float32)
k = lib.vt_nl(fp(xyz), len(xyz), ctypes.c_float(cut), fp(box) if case["periodic"] else None, fp(out), 64)
lists = [[] for _ in xyz]
for a, b in out[:k].reshape(-1, 2): lists[a].append(int(b))
r = xyz[1].astype(float) - xyz[0].astype(float)
if case["periodic"]:
    r = r - np.round(np.linalg.solve(cell.T, r)) @ cell
    dist = min(np.linalg.norm(r + np.array(m) @ cell) for m in itertools.product(range(-3, 4), repeat=3))
else:
    dist = np.linalg.norm(r)
print("positions", xyz.tolist(), "cutoff", cut, ": minimum-image distance", round(float(dist), 5), " neighbour lists", lists)
want = ([[1], [0]] if dist < cut else [[], []]) + [[] for _ in xyz[2:]]
sys.exit(1 if (abs(dist - cut) > 1e-4 and lists != want) else 0)
'''


def replay(cell, cut, pos, periodic):
    case = {"cell": [[float(v) for v in r] for r in CELLS[cell]], "cutoff": cut, "positions": pos, "periodic": periodic}
    script = _REPLAY % {"case": json.dumps(case)}
    with tempfile.NamedTemporaryFile("w", suffix=".py", delete=False) as fh:
        fh.write(script)
    r = subprocess.run([sys.executable, fh.name], capture_output=True, text=True, env=dict(os.environ, VT_REPO=str(REPO)))
    os.unlink(fh.name)
    return r.returncode == 1, script + "\n# " + (r.stdout + r.stderr)[-500:].replace("\n", "\n# ")
