"""C15 / C14 (Python layer) — what compute_dssp and kabsch_sander do around the compiled routines (E1 CrossHair).

Topology symbolic: for each of 4 residues which of N, CA, C, O it has (4 bools for the two variable residues; the others complete), which
residue is PRO, where the chain break is; the compiled routine is replaced by a recorder that returns a per-(frame, residue) answer
chosen by symbolic ints.  Decided:
  compute_dssp   one code per residue per frame; 'NA' exactly for residues lacking any of N, CA, C, O; otherwise the routine's code, or
                 its image under the documented table (H,G,I -> H; E,B -> E; T,S,' ' -> C) when simplified; the routine receives for
                 every residue the indices of ITS atoms named N, C, O and CA (-1 when missing), the proline flags and the chain index.
  kabsch_sander  the matrix of frame f has entry [acceptor, donor] = energy exactly for the (donor, acceptor, energy) slots the routine
                 filled (the documented orientation: row i = C=O residue, column j = N-H residue), nothing else."""
import vtlib.xhfix  # noqa: F401
import numpy as np

import mdtraj.geometry.dssp as _dssp
import mdtraj.geometry.hbond as _hb
from mdtraj.core import element as _el
from mdtraj.core.topology import Topology
from mdtraj.core.trajectory import Trajectory
from vtlib.xhfix import conc

CODES = "HGIEBTS "
SIMPLE = {"H": "H", "G": "H", "I": "H", "E": "E", "B": "E", "T": "C", "S": "C", " ": "C"}
BB = ["N", "CA", "C", "O"]


def _traj(has1, has3, pro, brk):
    """4 residues; residues 0 and 2 complete, residues 1 and 3 have the backbone atoms selected by has1 / has3 (plus a CB and, out of order,
    an extra atom so that indices are not 4*r+k)"""
    top = Topology()
    ch = top.add_chain("A")          # both chains carry the SAME identifier: the routine must still be told they are different chains
    want = {}
    for r in range(4):
        if r == brk and r > 0:
            ch = top.add_chain("A")
        res = top.add_residue("PRO" if r == pro else ["ALA", "HOH", "GLY", "SER"][r], ch)
        have = [True] * 4 if r in (0, 2) else list(has1 if r == 1 else has3)
        order = ["CB", "O", "N", "C", "CA"] if r % 2 else ["N", "CA", "C", "O", "CB"]      # odd residues list the atoms in a different order
        idx = {}
        for nm in order:
            if nm == "CB" or have[BB.index(nm)]:
                a = top.add_atom(nm, _el.carbon, res)
                idx[nm] = a.index
        want[r] = idx
    n = top.n_atoms
    xyz = (np.arange(2 * n * 3, dtype=np.float32).reshape(2, n, 3) * 0.07) % 1.9
    return Trajectory(xyz, top), want


class _Rec:
    def __init__(self, answer=None):
        self.calls, self.answer = [], answer

    def _dssp(self, xyz, nco, ca, pro, chain_ids):
        self.calls.append((np.array(xyz), np.array(nco), np.array(ca), np.array(pro), np.array(chain_ids)))
        return self.answer

    def _kabsch_sander(self, xyz, nco, ca, pro, hbonds, henergies):
        self.calls.append((np.array(xyz), np.array(nco), np.array(ca), np.array(pro), None))
        for (f, d, s, a, e) in self.answer:
            hbonds[f, d, s] = a
            henergies[f, d, s] = e


def _args_ok(call, t, want, pro, brk, chains):
    xyz, nco, ca, prol, cid = call
    if not np.array_equal(xyz, t.xyz) or xyz.dtype != np.float32:
        return False
    for r in range(4):
        w = want[r]
        if [int(v) for v in nco[r]] != [w.get("N", -1), w.get("C", -1), w.get("O", -1)] or int(ca[r]) != w.get("CA", -1):
            return False
        if bool(prol[r]) != (r == pro):
            return False
        if chains and int(cid[r]) != (0 if (brk == 0 or r < brk) else 1):
            return False
    return True


def _has(miss):
    """0: complete; 1..4: the atom N / CA / C / O is missing"""
    return tuple(k != miss - 1 for k in range(4))


def dssp_codes(miss1: int, miss3: int, simplified: bool, rot: int) -> bool:
    """
    pre: 0 <= miss1 <= 4 and 0 <= miss3 <= 4 and 0 <= rot <= 7
    post: __return__
    """
    miss1, miss3, rot = conc(miss1, 0, 4), conc(miss3, 0, 4), conc(rot, 0, 7)
    t, want = _traj(_has(miss1), _has(miss3), -1, 0)
    answer = "".join(CODES[(k + rot) % 8] for k in range(8))          # every code at every (frame, residue) position as rot varies
    rec = _Rec(answer)
    _dssp._geometry = rec
    out = _dssp.compute_dssp(t, simplified=simplified)
    if len(rec.calls) != 1 or np.asarray(out).shape != (2, 4):
        return False
    for f in range(2):
        for r in range(4):
            complete = r in (0, 2) or (miss1 if r == 1 else miss3) == 0
            code = answer[4 * f + r]
            expect = "NA" if not complete else (SIMPLE[code] if simplified else code)
            if str(out[f, r]) != expect:
                return False
    return True


def dssp_arguments(miss1: int, miss3: int, pro: int, brk: int) -> bool:
    """
    pre: 0 <= miss1 <= 4 and 0 <= miss3 <= 4 and -1 <= pro <= 3 and 0 <= brk <= 3
    post: __return__
    """
    miss1, miss3, pro, brk = conc(miss1, 0, 4), conc(miss3, 0, 4), conc(pro, -1, 3), conc(brk, 0, 3)
    t, want = _traj(_has(miss1), _has(miss3), pro, brk)
    rec = _Rec("HGIEBTS ")
    _dssp._geometry = rec
    _dssp.compute_dssp(t)
    return len(rec.calls) == 1 and _args_ok(rec.calls[0], t, want, pro, brk, True)


def kabsch_sander_matrix(d0: int, a0: int, a1: int, d1: int, b0: int, two: bool) -> bool:
    """
    pre: 0 <= d0 <= 3 and 0 <= a0 <= 3 and 0 <= a1 <= 3 and 0 <= d1 <= 3 and 0 <= b0 <= 3
    pre: a0 != d0 and a1 != d0 and a0 != a1 and b0 != d1
    post: __return__
    """
    d0, a0, a1, d1, b0 = conc(d0, 0, 3), conc(a0, 0, 3), conc(a1, 0, 3), conc(d1, 0, 3), conc(b0, 0, 3)
    t, want = _traj((True,) * 4, (True,) * 4, -1, 0)
    # frame 0: donor d0 bonded to a0 (and to a1 when `two`); frame 1: donor d1 bonded to b0
    slots = [(0, d0, 0, a0, -1.5)] + ([(0, d0, 1, a1, -0.75)] if two else []) + [(1, d1, 0, b0, -2.25)]
    rec = _Rec(slots)
    _hb._geometry = rec
    mats = _hb.kabsch_sander(t)
    if len(rec.calls) != 1 or len(mats) != 2:
        return False
    for f in range(2):
        m = np.asarray(mats[f].todense())
        if m.shape != (4, 4):
            return False
        expect = np.zeros((4, 4))
        for (ff, d, s, a, e) in slots:
            if ff == f:
                expect[a, d] = e
        if not np.array_equal(m, expect):
            return False
    return True


def kabsch_sander_arguments(miss1: int, miss3: int, pro: int) -> bool:
    """
    pre: 0 <= miss1 <= 4 and 0 <= miss3 <= 4 and -1 <= pro <= 3
    post: __return__
    """
    miss1, miss3, pro = conc(miss1, 0, 4), conc(miss3, 0, 4), conc(pro, -1, 3)
    t, want = _traj(_has(miss1), _has(miss3), pro, 0)
    rec = _Rec([(0, 0, 0, 2, -1.0)])
    _hb._geometry = rec
    _hb.kabsch_sander(t)
    return len(rec.calls) == 1 and _args_ok(rec.calls[0], t, want, pro, 0, False)


def dssp_after_edit(edit: int, primed: bool, simplified: bool) -> bool:
    """a HISTORY: (compute_dssp,) an in-place topology edit that keeps every count, compute_dssp again: the second call follows the topology
    as it is now.
    pre: 0 <= edit <= 3
    post: __return__
    """
    edit = conc(edit, 0, 3)
    t, want = _traj((True,) * 4, (True,) * 4, -1, 2)
    rec = _Rec("HGIEBTS ")
    _dssp._geometry = rec
    if primed:
        _dssp.compute_dssp(t, simplified=simplified)
    top = t.topology
    pro, brk = -1, 2
    if edit == 0:                                   # residue 1 becomes a proline
        top.residue(1).name = "PRO"
        pro = 1
    elif edit == 1:                                 # residue 0 loses its carbonyl oxygen by renaming (OXT-style terminal naming)
        [a for a in top.residue(0).atoms if a.name == "O"][0].name = "OC1"
        want[0] = {k: v for k, v in want[0].items() if k != "O"}
    elif edit == 2:                                 # residue 3's CB becomes its (second listed) CA: no change expected in the indices of N, C, O
        [a for a in top.residue(2).atoms if a.name == "CA"][0].name = "CX"
        want[2] = {k: v for k, v in want[2].items() if k != "CA"}
    del rec.calls[:]
    out = _dssp.compute_dssp(t, simplified=simplified)
    if len(rec.calls) != 1 or not _args_ok(rec.calls[0], t, want, pro, brk, True):
        return False
    for r in range(4):
        complete = all(k in want[r] for k in BB)
        for f in range(2):
            code = "HGIEBTS "[4 * f + r]
            expect = "NA" if not complete else (SIMPLE[code] if simplified else code)
            if str(out[f, r]) != expect:
                return False
    return True
