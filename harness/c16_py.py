"""C16 (time-resolved RDF) — compute_rdf_t's chunking over atom pairs (E1 CrossHair).

The pair list is processed in chunks of n_concurrent_pairs; the number of atoms, the chunk size and self_correlation are symbolic, the distance routine is replaced by a
deterministic source that records which pairs it was asked for.  Decided: every pair (including the i-i self pairs that self_correlation prepends) is handed over
exactly once, in order; and the result equals the result of a single chunk (the average over chunks is weighted by chunk size)."""
import vtlib.xhfix  # noqa: F401
import itertools
import types

import numpy as np

import mdtraj.geometry.rdf as _rdf
from vtlib.xhfix import conc


def _run(n_atoms, n_conc, selfcorr):
    pairs = np.array(list(itertools.combinations(range(n_atoms), 2)), dtype=np.int32)
    times = np.array([[0, 0], [0, 1], [0, 2]], dtype=np.int32)
    asked = []

    def dist_t(traj, p, t, periodic=True, opt=True):
        p = np.asarray(p)
        asked.extend((int(a), int(b)) for a, b in p)
        out = np.zeros((len(t), len(p)), dtype=np.float32)
        for k, (a, b) in enumerate(p):
            for n, (t0, t1) in enumerate(np.asarray(t)):
                out[n, k] = 0.07 + 0.11 * ((3 * int(a) + 5 * int(b) + 2 * int(t1)) % 8)
        return out
    _rdf.compute_distances_t = dist_t
    _rdf.range = lambda *a: range(*[int(x) for x in a])      # (CrossHair's range does not accept the numpy integer the code passes)
    traj = types.SimpleNamespace(n_frames=3, unitcell_volumes=np.array([8.0, 9.0, 10.0]))
    r, g = _rdf.compute_rdf_t(traj, pairs, times, r_range=(0.0, 1.0), bin_width=0.25, n_concurrent_pairs=n_conc, self_correlation=selfcorr)
    return pairs, asked, r, g


def rdf_t_chunks(n_atoms: int, n_conc: int, selfcorr: bool) -> bool:
    """
    pre: 3 <= n_atoms <= 4 and 1 <= n_conc <= 11
    post: __return__
    """
    n_atoms, n_conc = conc(n_atoms, 3, 4), conc(n_conc, 1, 11)
    selfcorr = True if selfcorr else False
    pairs, asked, r, g = _run(n_atoms, n_conc, selfcorr)
    want = ([(i, i) for i in range(n_atoms)] if selfcorr else []) + [tuple(int(v) for v in p) for p in pairs]
    if asked != want:
        return False
    _, _, r1, g1 = _run(n_atoms, 1000, selfcorr)
    return bool(np.allclose(r, r1) and np.allclose(g, g1, rtol=1e-9, atol=1e-12))
