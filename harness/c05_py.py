"""C05 (Python layer) — which kernel the distance entry points dispatch to, and with which arguments (E1 CrossHair).

The compiled module `_geometry` and the pure-numpy reference functions are replaced by recorders.  Per-frame cell shape
(orthorhombic / skewed for each of 3 frames), opt, periodic and presence of a cell are symbolic.  Expected, from the documentation
of the kernels: the orthorhombic kernel looks at the box diagonal only, so it may be chosen only if EVERY frame is orthorhombic;
the kernel receives, per frame, that frame's box matrix transposed, the float32 coordinates and the pairs unchanged; without cell or
with periodic=False the plain kernels are used."""
import vtlib.xhfix  # noqa: F401
import numpy as np

import mdtraj.geometry.distance as _d
from mdtraj.core.trajectory import Trajectory

XYZ = (np.arange(3 * 3 * 3, dtype=np.float32).reshape(3, 3, 3) * 0.37) % 2.9
PAIRS = np.array([[0, 1], [1, 2]], dtype=np.int32)
TIMES = np.array([[0, 1], [0, 2]], dtype=np.int32)
ORTHO_LA = ((2.0, 3.0, 4.0), (90.0, 90.0, 90.0))
SKEW_LA = ((2.5, 3.5, 4.5), (80.0, 100.0, 70.0))
SKEWS = ((80.0, 100.0, 70.0), (90.0, 90.0, 120.0), (90.0, 100.0, 90.0), (75.0, 90.0, 90.0))     # general; only gamma; only beta; only alpha off 90


class _Rec:
    def __init__(self):
        self.calls = []

    def __getattr__(self, name):
        def f(*a):
            self.calls.append((name, a))
        return f


def dispatch(api: int, o0: bool, o1: bool, o2: bool, opt: bool, periodic: bool, have_cell: bool, skew: int = 0) -> bool:
    """
    pre: 0 <= api <= 2
    pre: 0 <= skew <= 3
    post: __return__
    """
    rec = _Rec()
    _d._geometry = rec
    for nm in ("_distance_mic", "_distance_mic_t", "_displacement_mic", "_distance", "_distance_t", "_displacement"):
        setattr(_d, nm, (lambda nm: (lambda *a: rec.calls.append((nm, a))))(nm))
    t = Trajectory(XYZ.copy(), None)
    flags = [bool(o0), bool(o1), bool(o2)]
    if have_cell:
        t.unitcell_lengths = np.array([(ORTHO_LA if o else SKEW_LA)[0] for o in flags])
        t.unitcell_angles = np.array([ORTHO_LA[1] if o else SKEWS[skew] for o in flags])
    if api == 0:
        _d.compute_distances(t, PAIRS, periodic=periodic, opt=opt)
    elif api == 1:
        _d.compute_displacements(t, PAIRS, periodic=periodic, opt=opt)
    else:
        _d.compute_distances_t(t, PAIRS, TIMES, periodic=periodic, opt=opt)
    if len(rec.calls) != 1:
        return False
    name, a = rec.calls[0]
    mic = bool(periodic) and bool(have_cell)
    want = {(0, True, True): "_dist_mic", (0, True, False): "_distance_mic", (0, False, True): "_dist", (0, False, False): "_distance",
            (1, True, True): "_dist_mic_displacement", (1, True, False): "_displacement_mic", (1, False, True): "_dist_displacement", (1, False, False): "_displacement",
            (2, True, True): "_dist_mic_t", (2, True, False): "_distance_mic_t", (2, False, True): "_dist_t", (2, False, False): "_distance_t"}[(api if api in (0, 1) else 2, mic, bool(opt))]
    if name != want:
        return False
    if not np.array_equal(a[0], XYZ) or a[0].dtype != np.float32 or not np.array_equal(a[1], PAIRS):
        return False
    k = 2
    if api == 2:
        if not np.array_equal(a[2], TIMES):
            return False
        k = 3
    if mic:
        box = np.asarray(a[k])
        ortho_flag = a[-1]
        if bool(ortho_flag) != (flags[0] and flags[1] and flags[2]):
            return False
        uv = t.unitcell_vectors
        for f in range(3):
            if not np.allclose(box[f], uv[f].T, atol=1e-6):
                return False
    return True
