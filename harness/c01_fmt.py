"""C01 — the fixed-width coordinate field of the PDB writer (pdbfile._format_83) over ALL magnitudes.

The real function runs on a symbolic number (E2 symnum): its comparisons fork, so every path is a REGION of the real line described by the path
condition; the three kinds of outcome are '%8.3f' % f, its first eight characters, or a refusal.  The string formatting itself is a C-level
operation that cannot be executed symbolically, so each region is decided on SOLVER WITNESSES: z3 (Optimize over the grid of multiples of
0.001) produces the smallest and the largest member of the region, the members next to them, and members just inside each power of ten the
region contains; the real function is run on them and the field must be exactly 8 columns wide and read back to the number within one unit
of its last printed digit.  A refusal (ValueError) is never a silent difference; it is only a violation for numbers that fit with all three
decimals (-999.9995 < f < 9999.9995)."""
import time
from fractions import Fraction as F

import z3

from vtlib import symnum as S
from vtlib.symnum import Sym


class _Reached(Exception):
    def __init__(self, kind):
        self.kind = kind


def format_83():
    import mdtraj.formats.pdb.pdbfile as _pdb
    t0 = time.time()
    S.new_ctx(timeout_ms=20000)
    k = z3.Int("k")                                 # f = k / 1000: every number with three decimals
    f = Sym(z3.ToReal(k) / 1000)

    class Probe(Sym):
        def __float__(self):
            raise _Reached("fmt")

    def run():
        try:
            r = _pdb._format_83(Probe(f.e))
        except _Reached as e:
            return e.kind
        except ValueError:
            return "refused"
        return "returned:" + repr(r)[:20]
    paths = S.explore(run, max_paths=32)
    regions, problems, q, zs = [], [], 0, 0.0
    for path, cons, assumed, kind in paths:
        wit = set()
        for sense in ("min", "max"):
            o = z3.Optimize()
            o.set("timeout", 20000)
            o.add(*cons, *path, k >= -10**12, k <= 10**12)
            (o.minimize if sense == "min" else o.maximize)(k)
            t = time.time()
            r = o.check()
            zs += time.time() - t
            q += 1
            if r != z3.sat:
                return {"status": "inconclusive", "detail": "optimiser: " + str(r)}
            v = o.model().eval(k, model_completion=True).as_long()
            wit |= {v, v + (1 if sense == "min" else -1), v + (499 if sense == "min" else -499), v + (1000 if sense == "min" else -1000)}
        lo, hi = min(wit), max(wit)
        for e in range(0, 12):
            for sgn in (1, -1):
                for d in (-1, 0, 1, 499, -499):
                    wit.add(sgn * 10**e * 1000 + d)
                    wit.add(sgn * (10**e * 1000 - 500) + d)
        s = z3.Solver()
        s.add(*cons, *path)
        members = []
        for v in sorted(wit):
            s.push()
            s.add(k == v)
            t = time.time()
            inside = s.check() == z3.sat
            zs += time.time() - t
            q += 1
            s.pop()
            if inside:
                members.append(v)
        regions.append({"outcome": kind, "smallest": lo / 1000, "largest": hi / 1000, "witnesses": len(members)})
        for v in members:
            x = v / 1000.0
            try:
                text = _pdb._format_83(x)
            except ValueError:
                if -999.9995 < x < 9999.9995:
                    problems.append((x, "refused although an 8-column field holds it with all three decimals"))
                continue
            if len(text) != 8:
                problems.append((x, f"field {text!r} is {len(text)} columns wide"))
                continue
            try:
                back = float(text)
            except ValueError:
                problems.append((x, f"field {text!r} is not a number"))
                continue
            decimals = len(text.split(".")[1]) if "." in text else 0
            if abs(F(back) - F(v, 1000)) >= F(1, 10**decimals):
                problems.append((x, f"field {text!r} reads back as {back}"))
    res = {"queries": q, "solver_s": round(zs, 2), "paths": len(paths), "regions": regions, "wall_s": round(time.time() - t0, 2)}
    if problems:
        x, why = problems[0]
        script = ("import sys\nfrom mdtraj.formats.pdb.pdbfile import _format_83\nx = %r\ntry:\n    t = _format_83(x)\nexcept ValueError as e:\n    print('refused:', e); sys.exit(1 if -999.9995 < x < 9999.9995 else 0)\n"
                  "print(repr(x), '->', repr(t), 'width', len(t), 'reads back as', float(t))\nd = len(t.split('.')[1]) if '.' in t else 0\nsys.exit(1 if len(t) != 8 or abs(float(t) - x) >= 10 ** -d else 0)\n" % x)
        import subprocess, sys, tempfile, os
        with tempfile.NamedTemporaryFile("w", suffix=".py", delete=False) as fh:
            fh.write(script)
        r = subprocess.run([sys.executable, fh.name], capture_output=True, text=True)
        os.unlink(fh.name)
        return {**res, "status": "cex", "detail": f"coordinate {x}: {why}" + (f" (+{len(problems) - 1} more)" if len(problems) > 1 else ""),
                "cex": {"goal": "format_83", "key": "format_83", "inputs": {"f": x}, "reproduced": r.returncode == 1, "replay_script": script + "\n# " + (r.stdout + r.stderr)[-300:].replace("\n", "\n# ")}}
    kinds = {r["outcome"].split(":")[0] for r in regions}
    return {**res, "status": "holds", "twin_ok": {"fmt", "refused"} <= kinds and len(regions) >= 3}
