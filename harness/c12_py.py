"""C12 (topology side) — the bond-count keyword on a topology that has been EDITED after earlier selections (E1 CrossHair).

Whether a selection was evaluated before the edit (priming any cache), the edit (insert an atom at a symbolic index / delete an
unbonded atom / add a bond / none), and the threshold are symbolic.  Expected: the code the `n_bonds <op> k` selection compiles to selects exactly the atoms whose number
of incident bonds -- counted by atom identity over top.bonds after the edit -- satisfies the comparison."""
import vtlib.xhfix  # noqa: F401
import numpy as np

from mdtraj.core import element as _el
from mdtraj.core.topology import Topology
from vtlib.xhfix import conc


def _build():
    t = Topology()
    c = t.add_chain()
    r1 = t.add_residue("ALA", c)
    r2 = t.add_residue("HOH", c)
    a = [t.add_atom("N", _el.nitrogen, r1), t.add_atom("CA", _el.carbon, r1), t.add_atom("C", _el.carbon, r1), t.add_atom("O", _el.oxygen, r1),
         t.add_atom("O", _el.oxygen, r2), t.add_atom("H1", _el.hydrogen, r2), t.add_atom("NA", _el.sodium, r2)]
    for i, j in ((0, 1), (1, 2), (2, 3), (4, 5)):
        t.add_bond(a[i], a[j])
    return t, a, (r1, r2)


def _insert(t, name, pos, r1, r2):
    """insert at global index pos, keeping residue order consistent with index order (rindex given as documented)"""
    n1 = len(r1._atoms)
    if pos <= n1:
        return t.insert_atom(name, _el.carbon, r1, index=pos, rindex=pos)
    return t.insert_atom(name, _el.carbon, r2, index=pos, rindex=pos - n1)


def n_bonds_after_edit(primed: bool, edit: int, pos: int, k: int, op: int) -> bool:
    """
    pre: 0 <= edit <= 3 and 0 <= pos <= 7 and 0 <= k <= 3 and 0 <= op <= 2
    post: __return__
    """
    t, a, (r1, r2) = _build()
    edit, pos, k, op = conc(edit, 0, 3), conc(pos, 0, 7), conc(k, 0, 3), conc(op, 0, 2)
    if primed:
        [x.n_bonds for x in t.atoms]
    if edit == 1:
        _insert(t, "X", pos, r1, r2)
    elif edit == 2:
        t.delete_atom_by_index(6)                 # the unbonded ion
        if pos < 6:
            _insert(t, "Y", pos, r1, r2)
    elif edit == 3:
        t.add_bond(a[pos % 7], a[(pos + 2) % 7])
    # (pyparsing cannot run under CrossHair's tracer: the keyword's generated code `atom.n_bonds <op> k` over topology.atoms -- the
    #  form C12.select_expression proves select() evaluates -- is executed directly)
    got = [x.index for x in t.atoms if (x.n_bonds == k if op == 0 else x.n_bonds >= k if op == 1 else x.n_bonds < k)]
    cnt = {id(x): 0 for x in t.atoms}
    for b in t.bonds:
        for x in (b[0], b[1]):
            if id(x) in cnt:
                cnt[id(x)] += 1
    want = [x.index for x in t.atoms if (cnt[id(x)] == k if op == 0 else cnt[id(x)] >= k if op == 1 else cnt[id(x)] < k)]
    return got == sorted(want) and [x.index for x in t.atoms] == list(range(t.n_atoms))
