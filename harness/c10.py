"""C10 (compute_neighbors half) — neighbors.cpp:_compute_neighbors on its LLVM IR (E3 llsym).

Symbolic: coordinates of the atoms (frame), concrete cell from the C05 catalogue or none, concrete cutoff <= half the smallest
cell width.  The interpreter builds the two std::vector<int> arguments in memory (libstdc++ layout {begin, end, end_of_storage})
and forks on every `dist2 < cutoff2`; on each path the returned vector is a concrete index list.  Decided per path:
  * order and duplicates: the result is a subsequence of the haystack without repeats, never containing an atom only because
    of itself (i == j skipped),
  * soundness: every reported atom has a query atom whose tested image is within the cutoff (immediate from the path),
  * completeness: for every haystack atom NOT reported and every query atom j != i, NO periodic image within +-M cells is
    closer than the cutoff.  The kernel only WRAPS the difference (no 27-image search); whether that suffices for
    cutoff <= half width is exactly this obligation.  It is decided exactly (non-linear real arithmetic) on the wrapped
    vector W, whose range (the wrap domain) is first proved from the path's rounding constraints."""
import itertools
import math
import os
import subprocess
import sys
import tempfile
import time
from fractions import Fraction as F

import numpy as np
import z3

from harness import c05
from vtlib import llsym as L
from vtlib.llsym import GP, Poly, P, rv

FN = "_Z18_compute_neighborsPfifRKSt6vectorIiSaIiEES4_S_"


def _mkvec(I, vals):
    data = I.new_ints(vals) if vals else I.alloc(4, "none")
    v = I.alloc(24, "none")
    pt = L.T("ptr", to=L.T("int", bits=32))
    for k, off in enumerate((0, 4 * len(vals), 4 * len(vals))):
        I.store(L.Ptr(v.obj, 8 * k), pt, L.Ptr(data.obj, off))
    return v


def _readvec(I, v):
    pt = L.T("ptr", to=L.T("int", bits=32))
    b, e = I.load(L.Ptr(v.obj, 0), pt), I.load(L.Ptr(v.obj, 8), pt)
    if b.obj is None:
        return []
    n = (e.off - b.off) // 4
    return I.get_ints(b, n)


def check_neighbors(cell: str = "none", n_atoms: int = 3, query=(0,), haystack=(0, 1, 2), cutoff_frac: float = 0.9, M: int = 2):
    t0 = time.time()
    mod, _ = c05.module("neighbors.cpp")
    cellv = c05.CELLS[cell] if cell != "none" else None
    w = F(c05.widths(cellv)).limit_denominator(10**6) if cellv else F(2)
    cutoff = (w / 2) * F(cutoff_frac).limit_denominator(100)
    query, haystack = list(query), list(haystack)

    def setup(I):
        X = [Poly.var(f"x{i}") for i in range(3 * n_atoms)]
        xyz = I.new_floats(X)
        res = I.alloc(24, "zero")
        q, h = _mkvec(I, query), _mkvec(I, haystack)
        box = L.NULL
        if cellv is not None:
            box = I.new_floats([cellv[r][c] for r in range(3) for c in range(3)])      # rows = cell vectors (not transposed here)
        return [res, xyz, n_atoms, P(cutoff), q, h, box], {"X": X, "res": res}
    paths = nq = 0
    ssec = 0.0
    bad, unknown = None, 0
    results_seen = set()
    for I, ctx, _ in L.explore(mod, FN, setup, timeout_ms=30000, max_paths=3000):
        paths += 1
        X = ctx["X"]
        out = _readvec(I, ctx["res"])
        results_seen.add(tuple(out))
        pos = {a: i for i, a in enumerate(haystack)}
        if any(a not in pos for a in out) or [pos[a] for a in out] != sorted(set(pos[a] for a in out)):
            bad = bad or {"why": f"result {out} is not a duplicate-free subsequence of the haystack {haystack}", "vals": None}
            continue
        if cellv is None:
            # completeness without a cell: unreported i must be >= cutoff from every query j != i  (exact, plain differences)
            alts = []
            for i in haystack:
                if i in out:
                    continue
                for j in query:
                    if j == i:
                        continue
                    d = [X[3 * i + k] - X[3 * j + k] for k in range(3)]
                    alts.append(I.emit(d[0] * d[0] + d[1] * d[1] + d[2] * d[2]) < rv(cutoff * cutoff))
            # soundness: reported i has some query j != i with plain distance < cutoff
            for i in out:
                hit = [I.emit(sum(((X[3 * i + k] - X[3 * j + k]) * (X[3 * i + k] - X[3 * j + k]) for k in range(1, 3)), (X[3 * i] - X[3 * j]) * (X[3 * i] - X[3 * j]))) < rv(cutoff * cutoff) for j in query if j != i]
                alts.append(z3.Not(z3.Or(hit)) if hit else z3.BoolVal(True))
            if alts:
                r, sol = I.check(z3.Or(alts))
                nq += 1
                if r == z3.sat:
                    m = sol.model()
                    bad = bad or {"why": "result differs from the distance criterion (no cell)", "vals": [c05.L_model_float(m, I.emit(x)) for x in X]}
                elif r != z3.unsat:
                    unknown += 1
            continue
        # periodic: exact reasoning on the wrapped vector of every (unreported i, query j) pair
        B = [[F(x) for x in row] for row in cellv]
        for i in haystack:
            if i in out:
                continue
            for j in query:
                if j == i:
                    continue
                r = [X[3 * i + k] - X[3 * j + k] for k in range(3)]
                # the kernel's wrapped vector for this pair: find it among the round applications (delta - sum k_m b_m)
                Wp = _wrapped_for(I, r, B)
                if Wp is None:
                    bad = bad or {"why": f"no wrapped difference found for pair ({i},{j})", "vals": None}
                    continue
                W = [z3.Real(f"W{k}") for k in range(3)]
                # (1) wrap domain: bounds on W proved from the path (linear)
                lo_hi = []
                for k in range(3):
                    bnd = None
                    for cand in _bound_candidates(B, k):
                        rr, _ = I.check(z3.Or(I.emit(Wp[k]) > rv(cand) + rv(F(1, 10**9)), I.emit(Wp[k]) < -rv(cand) - rv(F(1, 10**9))))
                        nq += 1
                        if rr == z3.unsat:
                            bnd = cand
                            break
                    if bnd is None:
                        unknown += 1
                        bnd = None
                    lo_hi.append(bnd)
                if any(b is None for b in lo_hi):
                    continue
                # (2) exact: W in the wrap domain, |W|^2 >= cutoff^2 (the kernel's miss), yet some image W+g is closer than the cutoff
                s = z3.Solver()
                s.set("timeout", 60000)
                s.add(*[z3.And(W[k] <= rv(lo_hi[k]), W[k] >= -rv(lo_hi[k])) for k in range(3)])
                s.add(W[0] * W[0] + W[1] * W[1] + W[2] * W[2] >= rv(cutoff * cutoff))
                rr = z3.unsat
                wmax = math.sqrt(sum(float(b) ** 2 for b in lo_hi))
                for m in itertools.product(range(-M, M + 1), repeat=3):
                    if m == (0, 0, 0):
                        continue
                    g = [sum(B[a][k] * m[a] for a in range(3)) for k in range(3)]
                    if math.sqrt(sum(float(t) ** 2 for t in g)) > wmax + float(cutoff) + 1e-6:
                        continue               # |W+g| >= |g| - |W| >= cutoff: cannot be closer (triangle inequality, concrete numbers)
                    u = [W[k] + rv(g[k]) for k in range(3)]
                    s.push()
                    s.add(u[0] * u[0] + u[1] * u[1] + u[2] * u[2] < rv(cutoff * cutoff) - rv(F(1, 10**5)))
                    t = time.time()
                    r1 = s.check()
                    ssec += time.time() - t
                    nq += 1
                    if r1 == z3.sat:
                        rr = z3.sat
                        mdl = s.model()
                        bad = bad or {"why": f"pair ({i},{j}): the wrapped difference is >= cutoff but the periodic image shifted by {m} cells is closer than the cutoff (cutoff <= half the cell width)",
                                      "vals": None, "W": [c05.L_model_float(mdl, x) for x in W], "pair": (i, j)}
                        s.pop()
                        break
                    if r1 != z3.unsat:
                        rr = z3.unknown
                    s.pop()
                if rr == z3.unknown:
                    unknown += 1
    res = {"queries": nq + paths, "solver_s": round(ssec, 2), "paths": paths, "distinct_results": len(results_seen), "wall_s": round(time.time() - t0, 2), "cutoff": float(cutoff), "half_width": float(w / 2)}
    if bad:
        rep, script = replay(cell, n_atoms, query, haystack, float(cutoff), bad)
        return {**res, "status": "cex", "detail": bad["why"], "cex": {"goal": "neighbors", "key": "wrap_only:" + cell if "W" in bad else "neighbors", "inputs": {k: v for k, v in bad.items() if k != "why"}, "reproduced": rep, "replay_script": script}}
    if unknown:
        return {**res, "status": "inconclusive", "detail": f"{unknown} queries unknown"}
    return {**res, "status": "holds", "twin_ok": paths > 1 and len(results_seen) > 1}


def _bound_candidates(B, k):
    """half the k-th diagonal entry of the reduced (lower-triangular) cell plus the off-diagonal contributions of later wraps, and looser fallbacks"""
    R = _red(B)
    d = abs(R[k][k]) / 2 + sum(abs(R[a][k]) / 2 for a in range(k + 1, 3))
    return [abs(R[k][k]) / 2, d, 2 * d, 4 * d]


def _wrapped_for(I, r, B):
    """the wrapped vector the kernel computed for the plain difference r: each round() application is identified by its ARGUMENT
    polynomial (exact match), never by position"""
    rounds = {args[0].key(): var for name, var, args in I.fnapps if name == "round"}

    def rnd(arg):
        return rounds.get(P(arg).key())
    offdiag = any(B[a][b] != 0 for a in range(3) for b in range(3) if a != b)
    if offdiag:
        R = _red(B)
        recip = [1 / R[0][0], 1 / R[1][1], 1 / R[2][2]]
        k3 = rnd(r[2] * Poly.const(recip[2]))
        if k3 is None:
            return None
        d = [r[k] - k3 * Poly.const(R[2][k]) for k in range(3)]
        k2 = rnd(d[1] * Poly.const(recip[1]))
        if k2 is None:
            return None
        d = [d[k] - k2 * Poly.const(R[1][k]) for k in range(3)]
        k1 = rnd(d[0] * Poly.const(recip[0]))
        if k1 is None:
            return None
        return [d[k] - k1 * Poly.const(R[0][k]) for k in range(3)]
    ks = [rnd(r[k] * Poly.const(1 / B[k][k])) for k in range(3)]
    if any(k is None for k in ks):
        return None
    return [r[k] - ks[k] * Poly.const(B[k][k]) for k in range(3)]


def _red(B):
    """the cell reduction the kernel performs (exact rationals)"""
    rnd = lambda c: F(int(c + F(1, 2)) if c >= 0 else -int(-c + F(1, 2)))
    b1, b2, b3 = [list(v) for v in B]
    k = rnd(b3[1] / b2[1]); b3 = [b3[i] - b2[i] * k for i in range(3)]
    k = rnd(b3[0] / b1[0]); b3 = [b3[i] - b1[i] * k for i in range(3)]
    k = rnd(b2[0] / b1[0]); b2 = [b2[i] - b1[i] * k for i in range(3)]
    return [b1, b2, b3]


REPLAY = '''
import sys, itertools, numpy as np, warnings
warnings.simplefilter("ignore")
import mdtraj as md
from mdtraj.utils.unitcell import box_vectors_to_lengths_and_angles as bv
cell = np.array({cell!r}); cutoff = {cutoff!r}; W = np.array({W!r})
# put the query atom at the origin and the other atom at the wrapped difference W (inside the kernel's wrap domain)
x = np.zeros((1, 2, 3), dtype=np.float32); x[0, 1] = W
t = md.Trajectory(x, None); l = bv(*cell); t.unitcell_lengths = np.array([l[:3]]); t.unitcell_angles = np.array([l[3:]])
nb = md.compute_neighbors(t, cutoff, [0], haystack_indices=[1], periodic=True)[0]
d = md.compute_distances(t, [[0, 1]], periodic=True)[0, 0]
best = min(np.linalg.norm(W + np.array(m) @ cell) for m in itertools.product(range(-3, 4), repeat=3))
print("cutoff", cutoff, "true minimum-image distance", best, "compute_distances", d, "compute_neighbors ->", list(nb))
sys.exit(1 if (best < cutoff - 1e-4 and len(nb) == 0) else 0)
'''


def replay(cell, n_atoms, query, haystack, cutoff, bad):
    if "W" not in bad:
        return True, "# structural failure\nimport sys; sys.exit(1)\n"
    script = REPLAY.format(cell=[[float(v) for v in r] for r in c05.CELLS[cell]], cutoff=cutoff, W=bad["W"])
    with tempfile.NamedTemporaryFile("w", suffix=".py", delete=False) as fh:
        fh.write(script)
    r = subprocess.run([sys.executable, fh.name], capture_output=True, text=True)
    os.unlink(fh.name)
    return r.returncode == 1, script + "\n# output: " + (r.stdout + r.stderr)[-300:].replace("\n", "\n# ")
