"""C01 (partial) — what Trajectory.save_<fmt> hands to each format's writer, in the format's NATIVE units (E2 symnum).

The format's file class is replaced by a recorder that captures the arguments of write(); its `distance_unit` is the REAL class's
attribute, so the unit the code converts to is the one the class declares.  Coordinates, times and cell lengths are SYMBOLIC (z3
reals in object arrays), the trajectory object is built directly (no constructor casts).  The oracle is an independent table of each
format's native length unit taken from the format specifications (angstrom: dcd, netcdf, ncrst, rst7, mdcrd, pdb, xyz, lammpstrj,
dtr; nanometre: xtc, trr, h5, gro).  Decided: every number that reaches write() equals the trajectory's value times the documented
factor, times in ps and angles in degrees are passed unchanged, every frame / field goes to the right argument, and the
multi-file restart writers give file k exactly frame k's coordinates, time and cell."""
import time
import types

import numpy as np
import z3

import mdtraj.core.trajectory as _tr
import mdtraj.utils.unitcell as _uc
from mdtraj.core import element as _el
from mdtraj.core.topology import Topology
from vtlib import symnum as S
from vtlib.symnum import NP, Goals, Sym, sym_array, tz

NATIVE_ANGSTROM = {"dcd", "netcdf", "netcdfrst", "amberrst7", "mdcrd", "pdb", "xyz", "lammpstrj", "dtr"}
NATIVE_NM = {"xtc", "trr", "hdf5", "gro"}
CLASS_OF = {"hdf5": "HDF5TrajectoryFile", "lammpstrj": "LAMMPSTrajectoryFile", "xyz": "XYZTrajectoryFile", "pdb": "PDBTrajectoryFile", "xtc": "XTCTrajectoryFile",
            "trr": "TRRTrajectoryFile", "dcd": "DCDTrajectoryFile", "dtr": "DTRTrajectoryFile", "mdcrd": "MDCRDTrajectoryFile", "netcdf": "NetCDFTrajectoryFile",
            "netcdfrst": "AmberNetCDFRestartFile", "amberrst7": "AmberRestartFile", "gro": "GroTrajectoryFile"}


def _top(n):
    t = Topology()
    c = t.add_chain()
    r = t.add_residue("ALA", c)
    for i in range(n):
        t.add_atom("C%d" % i, _el.carbon, r)
    return t


def _traj(F, N, cell, angles=(90.0, 90.0, 90.0)):
    t = _tr.Trajectory.__new__(_tr.Trajectory)
    t._topology = _top(N)
    t._xyz = sym_array("x", (F, N, 3))
    t._time = sym_array("t", (F,))
    t._rmsd_traces = None
    if cell:
        t._unitcell_lengths = sym_array("L", (F, 3))
        t._unitcell_angles = np.array([list(angles)] * F, dtype=np.float64)
    else:
        t._unitcell_lengths = t._unitcell_angles = None
    return t


def _recorder(real_cls):
    calls = []
    du = getattr(real_cls, "distance_unit", None)
    if not isinstance(du, str):                      # extension types set it per instance: ask a real writer
        import os
        import tempfile
        d = tempfile.mkdtemp(prefix="c01_")
        try:
            inst = real_cls(os.path.join(d, "probe.bin"), "w")
            du = inst.distance_unit
            try:
                inst.close()
            except Exception:
                pass
        finally:
            import shutil
            shutil.rmtree(d, ignore_errors=True)

    class Rec:
        distance_unit = du

        def __init__(self, filename, mode="r", force_overwrite=True, **kw):
            self.filename = str(filename)

        def __enter__(self):
            return self

        def __exit__(self, *e):
            return False

        def write(self, *a, **k):
            calls.append((self.filename, a, k))

        def __setattr__(self, n, v):
            object.__setattr__(self, n, v)
    return Rec, calls


def _eq_arr(G, name, got, want_fn, shape, prem):
    got = np.asarray(got, dtype=object)
    if got.shape != shape:
        G.add(name + ".shape", [], z3.BoolVal(False), {})
        return
    for idx in np.ndindex(*shape):
        G.add(f"{name}{list(idx)}", prem, S.close(got[idx], want_fn(idx), z3.RealVal("1/1000000000"), z3.RealVal("1/1000000000")), {})


def save_units(fmt: str = "dcd", cell: bool = True, triclinic: bool = False, angles: str = ""):
    """angles: '' (80/100/70 when triclinic), or a cell with SOME right angles: 'hex' 90/90/120, 'mono' 90/100/90, 'mono_a' 75/90/90,
    'frame1' (frame 0 orthorhombic, frame 1 hexagonal)"""
    t0 = time.time()
    S.new_ctx(timeout_ms=30000)
    S.CTX.snap_tol = 1e-6
    _uc.np = NP()
    F, N = 2, 2
    ang = (80.0, 100.0, 70.0) if triclinic else (90.0, 90.0, 90.0)
    if angles:
        ang = {"hex": (90.0, 90.0, 120.0), "mono": (90.0, 100.0, 90.0), "mono_a": (75.0, 90.0, 90.0), "frame1": (90.0, 90.0, 120.0)}[angles]
        triclinic = True
    t = _traj(F, N, cell, ang)
    if angles == "frame1":
        t._unitcell_angles[0] = [90.0, 90.0, 90.0]
    real = getattr(_tr, CLASS_OF[fmt])
    Rec, calls = _recorder(real)
    setattr(_tr, CLASS_OF[fmt], Rec)
    factor = 10.0 if fmt in NATIVE_ANGSTROM else 1.0
    S.CTX.cons += [z3.And(tz(v) >= -1000, tz(v) <= 1000) for v in list(t._xyz.flat) + list(t._time.flat)]
    if cell:
        S.CTX.cons += [z3.And(tz(v) >= S.rat(0.5), tz(v) <= 100) for v in t._unitcell_lengths.flat]
    try:
        if fmt == "pdb":
            t.save_pdb("out.pdb", bfactors=None)
        elif fmt == "gro":
            t.save_gro("out.gro")
        else:
            getattr(t, "save_" + fmt)("out." + fmt)
    except Exception as e:
        if fmt == "mdcrd" and cell and triclinic and isinstance(e, ValueError):
            return {"status": "holds", "twin_ok": True, "queries": 1, "solver_s": 0.0, "detail": "non-rectilinear cell refused by save_mdcrd as documented", "wall_s": round(time.time() - t0, 2)}
        raise
    if fmt == "mdcrd" and cell and triclinic:
        return {"status": "cex", "detail": "save_mdcrd accepted a non-rectilinear cell", "cex": {"goal": "mdcrd_refuse", "key": "mdcrd_refuse", "inputs": {}, "reproduced": True, "replay_script": "import sys; sys.exit(1)\n"}}
    G = Goals(30000)
    prem = list(S.CTX.cons) + list(S.CTX.assumed) + list(S.CTX.path)
    X, T, Lh = t._xyz, t._time, t._unitcell_lengths
    if not calls:
        return {"status": "cex", "detail": "nothing was written", "cex": {"goal": "written", "key": "written", "inputs": {}, "reproduced": True, "replay_script": "import sys; sys.exit(1)\n"}}
    if fmt in ("pdb", "gro"):
        if len(calls) != (F if fmt == "pdb" else 1):
            G.add("one_write_per_model", [], z3.BoolVal(fmt == "gro"), {})
    def kwarg(call, names, pos=None):
        fn, a, k = call
        for n in names:
            if n in k:
                return k[n]
        return a[pos] if pos is not None and len(a) > pos else None
    if fmt == "pdb":
        for f, call in enumerate(calls):
            _eq_arr(G, f"pdb.xyz[f{f}]", kwarg(call, ["positions"], 0), lambda idx, f=f: tz(X[(f,) + idx]) * 10, (N, 3), prem)
            if cell:
                _eq_arr(G, f"pdb.lengths[f{f}]", call[2]["unitcell_lengths"], lambda idx, f=f: tz(Lh[(f,) + idx]) * 10, (3,), prem)
                G.add(f"pdb.angles[f{f}]", [], z3.BoolVal(list(call[2]["unitcell_angles"]) == list(ang)), {})
            G.add(f"pdb.modelIndex[f{f}]", [], z3.BoolVal(call[2].get("modelIndex") == f), {})
    else:
        call = calls[0]
        xyz = kwarg(call, ["xyz", "coordinates"], 0)
        _eq_arr(G, fmt + ".xyz", xyz, lambda idx: tz(X[idx]) * S.rat(factor), (F, N, 3), prem)
        if fmt in ("hdf5", "xtc", "trr", "netcdf", "dtr", "gro"):
            tm = kwarg(call, ["time", "times"])
            if fmt == "gro":
                tm = call[2].get("time", None) if "time" in call[2] else (call[1][2] if len(call[1]) > 2 else None)
            _eq_arr(G, fmt + ".time", tm, lambda idx: tz(T[idx]), (F,), prem)
        if cell and fmt != "xyz":                   # the xyz format stores no cell
            if fmt in ("xtc", "trr", "gro"):
                box = kwarg(call, ["box", "unitcell_vectors"])
                if fmt == "gro":
                    box = call[2].get("unitcell_vectors", call[1][3] if len(call[1]) > 3 else None)
                # box vectors in the standard orientation: |row k| = length k x factor, row 0 along x
                box = np.asarray(box, dtype=object)
                if box.shape != (F, 3, 3):
                    G.add(fmt + ".box.shape", [], z3.BoolVal(False), {})
                else:
                    for f in range(F):
                        for k in range(3):
                            n2 = sum(tz(box[f, k, c]) * tz(box[f, k, c]) for c in range(3))
                            want = tz(Lh[f, k]) * S.rat(factor)
                            G.add(f"{fmt}.box_len[f{f}.{k}]", prem, S.close(n2, want * want, z3.RealVal("1/100000"), z3.RealVal("1/100000")), {})
                        import math
                        for (i, j, a) in ((1, 2, ang[0]), (0, 2, ang[1]), (0, 1, ang[2])):      # alpha = angle(b, c), beta = (a, c), gamma = (a, b)
                            dot = sum(tz(box[f, i, c]) * tz(box[f, j, c]) for c in range(3))
                            want = tz(Lh[f, i]) * tz(Lh[f, j]) * S.rat(factor * factor) * S.rat(math.cos(math.radians(a)))
                            G.add(f"{fmt}.box_angle[f{f}.{i}{j}]", prem, S.close(dot, want, z3.RealVal("1/100000"), z3.RealVal("1/10000")), {})
                        G.add(f"{fmt}.box_a_along_x[f{f}]", prem, z3.And(tz(box[f, 0, 1]) == 0, tz(box[f, 0, 2]) == 0, tz(box[f, 1, 2]) == 0), {})
            else:
                cl = kwarg(call, ["cell_lengths"], 1 if fmt == "mdcrd" else None)
                _eq_arr(G, fmt + ".cell_lengths", cl, lambda idx: tz(Lh[idx]) * S.rat(factor), (F, 3), prem)
                if fmt != "mdcrd":
                    ca = kwarg(call, ["cell_angles"])
                    G.add(fmt + ".cell_angles", [], z3.BoolVal(ca is not None and np.asarray(ca).tolist() == [list(ang)] * F), {})
        elif not cell:
            for nm in ("cell_lengths", "cell_angles", "box", "unitcell_vectors"):
                if nm in call[2] and call[2][nm] is not None:
                    G.add(fmt + ".no_cell." + nm, [], z3.BoolVal(False), {})
    r = G.run(_replay("save", fmt, cell, triclinic))
    r["wall_s"] = round(time.time() - t0, 2)
    return r


def restart_indexing(fmt: str = "amberrst7", n_frames: int = 3, cell: bool = True):
    """multi-frame restart writers: file `name.k` (k = 1..n, zero padded) receives frame k's coordinates, time and cell; one frame -> `name`"""
    t0 = time.time()
    S.new_ctx(timeout_ms=30000)
    F, N = n_frames, 2
    t = _traj(F, N, cell)
    if cell:
        # every frame has its OWN angles (a cell that changes shape): file k must get frame k's
        t._unitcell_angles = np.array([[90.0 - 2 * f, 80.0 + f, 70.0 + 3 * f] for f in range(F)], dtype=np.float64)
    real = getattr(_tr, CLASS_OF[fmt])
    Rec, calls = _recorder(real)
    setattr(_tr, CLASS_OF[fmt], Rec)
    name = "out.rst7" if fmt == "amberrst7" else "out.ncrst"
    X, T, Lh = t._xyz, t._time, t._unitcell_lengths
    bounds = [z3.And(tz(v) >= -1000, tz(v) <= 1000) for v in list(X.flat) + list(T.flat)]
    if cell:
        bounds += [z3.And(tz(v) >= S.rat(0.5), tz(v) <= 100) for v in Lh.flat]
    S.CTX.cons += bounds
    G = Goals(30000)
    try:
        getattr(t, "save_" + fmt)(name)
    except Exception as e:
        G.add("save_raised:" + type(e).__name__, [], z3.BoolVal(False), {})
        r = G.run(_replay("restart", fmt, cell, False, F))
        r["detail"] = f"save_{fmt} raised {type(e).__name__}: {e}"
        return r
    want_names = [name] if F == 1 else [f"{name}.{k + 1:0{len(str(F))}d}" for k in range(F)]
    G.add("file_names", [], z3.BoolVal([c[0] for c in calls] == want_names), {"names": Sym(z3.RealVal(len(calls)))})
    if [c[0] for c in calls] == want_names:
        for k, (fn, a, kw) in enumerate(calls):
            xyz = np.asarray(kw["coordinates"], dtype=object)
            xyz = xyz[0] if xyz.ndim == 3 else xyz
            _eq_arr(G, f"file{k}.xyz", xyz, lambda idx, k=k: tz(X[(k,) + idx]) * 10, (N, 3), bounds)
            tm = kw.get("time")
            G.add(f"file{k}.time", bounds, tz(np.asarray(tm, dtype=object).reshape(-1)[0]) == tz(T[k]), {})
            if cell:
                cl = np.asarray(kw["cell_lengths"], dtype=object).reshape(-1)
                for c in range(3):
                    G.add(f"file{k}.cell_lengths[{c}]", bounds, S.close(cl[c], tz(Lh[k, c]) * 10, z3.RealVal("1/1000000000"), z3.RealVal("1/1000000000")), {})
                ca = np.asarray(kw["cell_angles"], dtype=object).reshape(-1)
                G.add(f"file{k}.cell_angles", [], z3.BoolVal([float(v) for v in ca] == [90.0 - 2 * k, 80.0 + k, 70.0 + 3 * k]), {})
            else:
                G.add(f"file{k}.no_cell", [], z3.BoolVal(kw.get("cell_lengths") is None and kw.get("cell_angles") is None), {})
    r = G.run(_replay("restart", fmt, cell, False, F))
    r["wall_s"] = round(time.time() - t0, 2)
    return r


# ------------------------------------------------------------------ load side: read_as_traj of the pure-Python format classes

READERS = {  # fmt: (module, class, fields returned by read(), native factor file->nm)
    "netcdf": ("mdtraj.formats.netcdf", "NetCDFTrajectoryFile", ("xyz", "time", "cell_lengths", "cell_angles")),
    "hdf5": ("mdtraj.formats.hdf5", "HDF5TrajectoryFile", "Frames"),
    "mdcrd": ("mdtraj.formats.mdcrd", "MDCRDTrajectoryFile", ("xyz", "cell_lengths")),
    "xyz": ("mdtraj.formats.xyzfile", "XYZTrajectoryFile", ("xyz",)),
    "lammpstrj": ("mdtraj.formats.lammpstrj", "LAMMPSTrajectoryFile", ("xyz", "cell_lengths", "cell_angles")),
    "gro": ("mdtraj.formats.gro", "GroTrajectoryFile", ("xyz", "time", "box")),
    "amberrst7": ("mdtraj.formats.amberrst", "AmberRestartFile", ("xyz", "time", "cell_lengths", "cell_angles")),
    "netcdfrst": ("mdtraj.formats.amberrst", "AmberNetCDFRestartFile", ("xyz", "time", "cell_lengths", "cell_angles")),
}


def load_units(fmt: str = "netcdf", cell: bool = True):
    """read_as_traj: the numbers read() delivers in the file's native unit reach the Trajectory constructor / setters in nm, ps, degrees"""
    import importlib
    t0 = time.time()
    S.new_ctx(timeout_ms=30000)
    modname, clsname, fields = READERS[fmt]
    mod = importlib.import_module(modname)
    Cls = getattr(mod, clsname)
    F, N = (1, 2) if "rst" in fmt else (2, 2)
    top = _top(N)
    X = sym_array("x", (F, N, 3))
    T = sym_array("t", (F,))
    Lh = sym_array("L", (F, 3)) if cell else None
    B = sym_array("B", (F, 3, 3)) if cell else None
    ANG = np.array([[80.0, 100.0, 70.0]] * F) if cell else None
    data = {"xyz": X.copy(), "time": T.copy(), "cell_lengths": None if Lh is None else Lh.copy(), "cell_angles": None if ANG is None else ANG.copy(), "box": None if B is None else B.copy()}
    if fields == "Frames":
        ret = mod.Frames(data["xyz"], data["time"], data["cell_lengths"], data["cell_angles"], None, None, None, None, None)
    elif len(fields) == 1:
        ret = data[fields[0]]
    else:
        ret = tuple(data[f] for f in fields)

    class Fake(Cls):
        topology = top
        mode = "r"

        def __init__(self):
            self._frame_index = 0

        def read(self, *a, **k):
            return ret

        def __del__(self):
            pass

    made = []

    class RecTraj:
        _distance_unit = _tr.Trajectory._distance_unit

        def __init__(self, **kw):
            object.__setattr__(self, "kw", dict(kw))
            made.append(self)

        def __setattr__(self, n, v):
            self.kw[n] = v

    real_T = _tr.Trajectory
    _tr.Trajectory = RecTraj
    try:
        inst = Fake()
        if fmt in ("gro", "hdf5"):
            inst.read_as_traj()
        else:
            inst.read_as_traj(top)
    finally:
        _tr.Trajectory = real_T
    G = Goals(30000)
    if len(made) != 1:
        G.add("one_trajectory", [], z3.BoolVal(False), {})
        return G.run(_replay("load", fmt, cell, True, F))
    kw = made[0].kw
    native = NATIVE_ANGSTROM if fmt in NATIVE_ANGSTROM else NATIVE_NM
    inv = S.rat(0.1) if fmt in NATIVE_ANGSTROM else S.rat(1.0)
    prem = [z3.And(tz(v) >= -10000, tz(v) <= 10000) for v in list(X.flat) + list(T.flat)]
    tol = z3.RealVal("1/1000000000")
    def eqarr(name, got, want, shape):
        got = np.asarray(got, dtype=object)
        if got.shape != shape:
            G.add(name + ".shape", [], z3.BoolVal(False), {})
            return
        for idx in np.ndindex(*shape):
            G.add(f"{name}{list(idx)}", prem, S.close(got[idx], want(idx), tol, tol), {})
    eqarr(fmt + ".xyz", kw.get("xyz"), lambda i: tz(X[i]) * inv, (F, N, 3))
    if "time" in (fields if fields != "Frames" else ("time",)):
        eqarr(fmt + ".time", kw.get("time"), lambda i: tz(T[i]), (F,))
    if cell and fmt != "xyz":
        if fmt == "gro":
            eqarr(fmt + ".unitcell_vectors", kw.get("unitcell_vectors"), lambda i: tz(B[i]) * inv, (F, 3, 3))
        else:
            eqarr(fmt + ".unitcell_lengths", kw.get("unitcell_lengths"), lambda i: tz(Lh[i]) * inv, (F, 3))
            want_ang = [[90.0] * 3] * F if fmt == "mdcrd" else ANG.tolist()
            ua = kw.get("unitcell_angles")
            G.add(fmt + ".unitcell_angles", [], z3.BoolVal(ua is not None and np.asarray(ua, dtype=float).tolist() == want_ang), {})
    elif not cell:
        for nm in ("unitcell_lengths", "unitcell_angles", "unitcell_vectors"):
            if kw.get(nm) is not None:
                G.add(fmt + ".no_cell." + nm, [], z3.BoolVal(False), {})
    r = G.run(_replay("load", fmt, cell, True, F))
    r["wall_s"] = round(time.time() - t0, 2)
    return r


# ------------------------------------------------------------------ replay through real files

_REPLAY = r'''
import glob, os, shutil, sys, tempfile, warnings
import numpy as np
warnings.simplefilter("ignore")
import mdtraj as md
from mdtraj.core import element as el
kind, fmt, cell, tri, F = %(kind)r, %(fmt)r, %(cell)r, %(tri)r, %(F)d
EXT = {"hdf5": "h5", "netcdf": "nc", "netcdfrst": "ncrst", "amberrst7": "rst7"}.get(fmt, fmt)
ANGSTROM = {"dcd", "netcdf", "netcdfrst", "amberrst7", "mdcrd", "pdb", "xyz", "lammpstrj", "dtr"}
factor = 10.0 if fmt in ANGSTROM else 1.0
N = 2
top = md.Topology(); ch = top.add_chain(); r = top.add_residue("ALA", ch)
for i in range(N): top.add_atom("C%%d" %% i, el.carbon, r)
xyz = (np.arange(F * N * 3, dtype=np.float32).reshape(F, N, 3) * 0.125 + 0.25)
times = np.array([1.0, 2.5, 7.0, 7.5, 11.0, 12.0, 14.5, 20.0, 21.0, 30.0, 31.5][:F])
L = np.array([[2.0 + (0 if fmt == "pdb" else f), 3.0 + (0 if fmt == "pdb" else f), 4.5 + (0 if fmt == "pdb" else f)] for f in range(F)]) if cell else None   # (PDB holds a single CRYST1 record)
A = np.array([[80.0, 100.0, 70.0] if tri else [90.0] * 3] * F) if cell else None
if cell and kind == "restart":
    A = np.array([[90.0 - 2 * f, 80.0 + f, 70.0 + 3 * f] for f in range(F)])      # a cell that changes shape from frame to frame
d = tempfile.mkdtemp(prefix="c01r_")
bad = []
def _hook(tp, v, tb):
    import traceback
    traceback.print_exception(tp, v, tb)
    os._exit(3)          # the replay itself failed: not a reproduction
sys.excepthook = _hook
def chk(what, got, want, tol=2e-3):
    if got is None or np.shape(got) != np.shape(want) or not np.allclose(np.asarray(got, float), want, atol=tol, rtol=1e-4):
        bad.append("%%s: got %%s want %%s" %% (what, np.asarray(got).tolist() if got is not None else None, np.asarray(want).tolist()))
try:
    fn = os.path.join(d, "o." + EXT)
    if kind in ("save", "restart"):
        t = md.Trajectory(xyz, top, time=times, unitcell_lengths=L, unitcell_angles=A)
        try:
            t.save(fn)
        except Exception as e:
            if (fmt, cell) in (("dtr", False), ("lammpstrj", False)) or (fmt == "mdcrd" and tri):
                raise                                   # formats that need / cannot hold a cell refuse loudly: not the subject here
            print("MISMATCH save raised %%s: %%s" %% (type(e).__name__, e)); os._exit(1)
        files = [fn] if (kind == "save" or F == 1) else sorted(glob.glob(fn + ".*"))
        if kind == "restart" and len(files) != F:
            bad.append("expected %%d numbered files, found %%s" %% (F, [os.path.basename(x) for x in files]))
        for k, path in enumerate(files):
            if fmt == "pdb":
                back = md.load(path); nat = (back.xyz * 10, None, None if back.unitcell_lengths is None else back.unitcell_lengths * 10, back.unitcell_angles)
            elif fmt == "gro":
                back = md.load(path); nat = (back.xyz, back.time, back.unitcell_lengths, back.unitcell_angles)
            else:
                opener = {"amberrst7": md.formats.AmberRestartFile, "netcdfrst": md.formats.AmberNetCDFRestartFile}.get(fmt)
                with (opener(path) if opener else md.open(path, n_atoms=N) if fmt == "mdcrd" else md.open(path)) as fh:
                    out = fh.read()
                if fmt == "hdf5":
                    nat = (out.coordinates, out.time, out.cell_lengths, out.cell_angles)
                elif fmt in ("xtc",):
                    nat = (out[0], out[1], None, None); box = out[3]
                elif fmt == "trr":
                    nat = (out[0], out[1], None, None); box = out[3]
                elif fmt in ("dcd",):
                    nat = (out[0], None, out[1], out[2])
                elif fmt == "dtr":
                    nat = (out[0], out[1], out[2], out[3])
                elif fmt in ("netcdf", "netcdfrst", "amberrst7"):
                    nat = (out[0], out[1], out[2], out[3])
                elif fmt == "mdcrd":
                    nat = (out[0], None, out[1], None)
                elif fmt == "lammpstrj":
                    nat = (out[0], None, out[1], out[2])
                elif fmt == "xyz":
                    nat = (out, None, None, None)
            sl = slice(None) if kind == "save" or F == 1 else slice(k, k + 1)
            chk("coordinates in native unit (file %%d)" %% k, nat[0], xyz[sl] * factor)
            if nat[1] is not None:
                chk("time (file %%d)" %% k, np.asarray(nat[1]).reshape(-1), times[sl], 1e-3)
            if cell and fmt in ("xtc", "trr"):
                chk("box row lengths", np.linalg.norm(box, axis=2), L[sl] * factor)
            elif cell and fmt != "xyz":
                chk("cell lengths in native unit (file %%d)" %% k, np.asarray(nat[2]).reshape(-1, 3), L[sl] * factor)
                if nat[3] is not None:
                    chk("cell angles (file %%d)" %% k, np.asarray(nat[3]).reshape(-1, 3), A[sl], 1e-2)
    else:   # load: native numbers written by the low-level writer come back in nm
        with md.open(fn, "w") as fh:
            nx = xyz * factor
            if fmt == "netcdf": fh.write(nx, time=times, cell_lengths=None if L is None else L * factor, cell_angles=A)
            elif fmt == "hdf5": fh.write(nx, time=times, cell_lengths=None if L is None else L * factor, cell_angles=A); fh.topology = top
            elif fmt == "mdcrd": fh.write(nx, None if L is None else L * factor)
            elif fmt == "xyz": fh.write(nx)
            elif fmt == "lammpstrj": fh.write(nx, L * factor if cell else np.ones((F, 3)) * 100, A if cell else np.ones((F, 3)) * 90)
            elif fmt == "gro": fh.write(nx, top, times, None if L is None else md.utils.lengths_and_angles_to_box_vectors(*L.T, *A.T) if False else None)
        back = md.load(fn, top=top) if fmt not in ("hdf5", "gro") else md.load(fn)
        chk("xyz in nm", back.xyz, xyz)
        if fmt in ("netcdf", "hdf5", "gro"):
            chk("time", back.time, times, 1e-3)
        if cell and fmt in ("netcdf", "hdf5", "mdcrd", "lammpstrj"):
            chk("unitcell_lengths in nm", back.unitcell_lengths, L)
finally:
    shutil.rmtree(d, ignore_errors=True)
for b in bad: print("MISMATCH", b)
sys.exit(1 if bad else 0)
'''


def _replay(kind, fmt, cell, tri=False, F=2):
    def rep(name, vals):
        import subprocess
        import sys as _s
        import tempfile
        script = _REPLAY % dict(kind=kind, fmt=fmt, cell=cell, tri=tri, F=F)
        with tempfile.NamedTemporaryFile("w", suffix=".py", delete=False) as fh:
            fh.write(script)
        r = subprocess.run([_s.executable, fh.name], capture_output=True, text=True)
        return r.returncode == 1, script + "\n# " + (r.stdout + r.stderr)[-400:].replace("\n", "\n# "), name.split("[")[0]
    return rep
