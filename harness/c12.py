"""C12 — selection expressions mean what the documentation says (E4 selz3).

programs : strings generated from the documented grammar (every keyword and alias, every operator spelling, implicit
           equality, lists, ranges, regexes, parentheses, bare/quoted/numeric literals), nesting depth <= 2 exhaustively
           over representative leaves, deeper ones drawn with VERIF_SEED in the thorough tier
inputs   : ONE symbolic atom of an arbitrary valid topology (strings, ints, mass) — the solver's job
checks   : (1) mdtraj's AST  ==  reference predicate           (z3: unsat of the difference)
           (2) ast.parse(select_expression(...)) filter == mdtraj's AST
           (3) a string the reference accepts must be accepted, a malformed string must be rejected
A witness atom is replayed through Topology.select on a real topology built around it."""
import ast
import itertools
import os
import random
import subprocess
import sys
import tempfile
import time

import z3

from mdtraj.core.selection import parse_selection
from vtlib import selz3
from vtlib.selz3 import Checker, Ref, Reject, Unsupported

BOOL_KW = ["all", "everything", "none", "nothing", "backbone", "is_backbone", "sidechain", "is_sidechain", "protein", "is_protein", "water", "is_water", "waters"]
STR_KW = {"name": ["CA", "N", "O", "HA", "OW"], "type": ["C", "O", "N"], "element": ["C", "H"], "symbol": ["O", "S"], "resname": ["ALA", "GLY", "HOH"],
          "resn": ["ALA", "LYS"], "rescode": ["A", "G"], "code": ["K"], "resc": ["A"], "segment_id": ["A"], "segname": ["B"]}
INT_KW = {"index": [0, 3, 5], "n_bonds": [0, 1, 2], "residue": [1, 35], "resSeq": [0, 7], "resid": [0, 2], "resi": [1, 3], "chainid": [0, 1]}
FLT_KW = {"mass": [12, 2, 16]}
CMP_SPELL = ["<", "lt", "<=", "le", "==", "eq", "!=", "ne", ">=", "ge", ">", "gt"]
AND_SPELL, OR_SPELL, NOT_SPELL = ["and", "&&"], ["or", "||"], ["not ", "!"]
REGEXES = ["C.*", "C[1-4]", "(CA|CB)", "H.?", "O", "[A-Z]+1", "N.*|O.*"]


def quote_variants(v):
    if isinstance(v, str):
        return [v, f"'{v}'", f'"{v}"']
    return [str(v)]


def leaves_keywords():
    return list(BOOL_KW)


def leaves_implicit():
    out = []
    for kw, vals in {**STR_KW, **INT_KW, **FLT_KW}.items():
        for v in vals:
            for q in quote_variants(v):
                out.append(f"{kw} {q}")
    return out


def leaves_lists():
    out = []
    for kw, vals in {**STR_KW, **INT_KW}.items():
        if len(vals) >= 2:
            out.append(f"{kw} {vals[0]} {vals[1]}")
            out.append(f"{kw} " + " ".join(str(v) for v in vals))
            if isinstance(vals[0], str):
                out.append(f"{kw} '{vals[0]}' {vals[1]}")
    return out


def leaves_ranges():
    out = []
    for kw, vals in {**INT_KW, **FLT_KW}.items():
        lo, hi = min(vals), max(vals)
        out += [f"{kw} {lo} to {hi}", f"{kw} {hi} to {lo}", f"{kw} {lo} to {lo}"]
    out += ["mass 5.5 to 20", "mass 1.5 to 12.5"]
    return out


def leaves_cmp():
    out = []
    for op in CMP_SPELL:
        for kw, vals in {**INT_KW, **FLT_KW}.items():
            out.append(f"{kw} {op} {vals[1]}")
        out.append(f"{INT_KW['resid'][1]} {op} resid")
        for kw in ("name", "resname", "symbol"):
            if op in ("==", "eq", "!=", "ne"):
                v = STR_KW[kw][0]
                out += [f"{kw} {op} {v}", f"{kw} {op} '{v}'"]
    return out


def leaves_regex():
    return [f"{kw} =~ '{r}'" for kw in ("name", "resname", "symbol", "resn") for r in REGEXES]


REP = ["protein", "water", "name CA", "resname ALA GLY", "resid 1 to 3", "index < 5", "mass gt 12", "resSeq == 7", "name =~ 'C.*'", "backbone", "chainid 0", "symbol ne O"]


def depth1():
    out = []
    for a in REP:
        for n in NOT_SPELL:
            out.append(f"{n}{a}")
        out.append(f"({a})")
        out.append(f"not ({a})")
    for a, b in itertools.permutations(REP, 2):
        for op in AND_SPELL + OR_SPELL:
            out.append(f"{a} {op} {b}")
    return out


def depth2():
    reps = ["protein", "name CA", "resid 1 to 3", "index < 5", "mass gt 12", "resSeq == 7", "water", "resname ALA GLY"]
    out = []
    rnd = random.Random(12)
    triples = [tuple(rnd.sample(reps, 3)) for _ in range(40)] + [("index < 5", "resSeq == 7", "mass gt 12"), ("resid ge 2", "index lt 5", "name CA"),
                                                                     ("protein", "index < 5", "resSeq == 7"), ("mass gt 12", "protein", "index le 3")]
    for a, b, c in triples:
        for o1 in AND_SPELL + OR_SPELL:
            for o2 in AND_SPELL + OR_SPELL:
                out.append(f"{a} {o1} {b} {o2} {c}")
        out.append(f"({a} or {b}) and {c}")
        out.append(f"{a} and ({b} or {c})")
        out.append(f"not {a} and {b}")
        out.append(f"not {a} or {b}")
        out.append(f"not ({a} or {b}) and {c}")
        out.append(f"!{a} && {b} || {c}")
        out.append(f"{a} and not {b}")
        out.append(f"{a} || ! ({b} && {c})")
    return out


def deeper(n, seed):
    rnd = random.Random(seed)
    leaves = REP + leaves_cmp()[:40] + leaves_ranges()[:10]

    def gen(d):
        if d == 0 or rnd.random() < 0.25:
            return rnd.choice(leaves)
        k = rnd.random()
        if k < 0.2:
            return rnd.choice(NOT_SPELL) + gen(d - 1) if rnd.random() < 0.5 else "not (" + gen(d - 1) + ")"
        if k < 0.4:
            return "(" + gen(d - 1) + ")"
        return gen(d - 1) + " " + rnd.choice(AND_SPELL + OR_SPELL) + " " + gen(d - 1)
    return [gen(3) for _ in range(n)]


MALFORMED = ["", "(", ")", "name", "and", "protein and", "or water", "(protein", "protein)", "name CA and", "resid 1 to", "resid to 3", "index <", "< 5",
             "protein water", "not", "name =~", "5", "'CA'", "CA", "5 < 7", "name CA CB and", "protein and and water", "resid 1 2 to 3", "((protein)", "mass >",
             # a stray literal as the THIRD or later operand of a chain of one operator (the chain is parsed as one node)
             "protein or water or dog", "protein and name CA and 7", "water or protein or name CA or 5", "protein and water and 'x'"]

def literals_special():
    """literals that look like something else: a quote character of the OTHER kind inside a quoted literal (nucleic-acid primed names), bare words
    spelled like identifiers the compiled code uses internally, or like Python constants / language keywords inside quotes (the bare words None, True,
    False are deliberately read as constants by the implementation and are not part of this family)"""
    out = []
    for kw in ("name", "resname", "segment_id"):
        for lit in ('"C5\'"', "'O5\"'", '"O\'P"', "re", "atom", "'re'", '"atom"', "np", "'None'", "'and'", '"or"', '"to"', "self", "topology"):
            out.append(f"{kw} {lit}")
            out.append(f"{kw} CA {lit}")
            out.append(f"{kw} == {lit}")
    out += ['name =~ "C[45]\'"', "name =~ 're'", "resname re and name CA", "not name atom", "name atom or resname re"]
    # upper- / mixed-case words that spell an operator in lower case are ordinary literals (arginine's NE atom, neon, germanium)
    for lit in ("NE", "Ne", "Ge", "LE", "LT", "GT", "EQ", "OR", "AND", "NOT", "TO"):
        out += [f"name {lit}", f"name CA {lit}", f"element {lit}", f"name CA or name {lit}", f"name == {lit}"]
    return out


def parens_deep():
    """nested parentheses, 3 to 8 deep, around leaves and inside boolean combinations"""
    reps = ["protein", "name CA", "resid 1 to 3", "index < 5", "mass gt 12", "resSeq == 7", "resname ALA GLY", "name =~ 'C.*'"]
    out = []
    for k in (3, 4, 5, 6, 8):
        for a in reps:
            out.append("(" * k + a + ")" * k)
    for a, b in itertools.permutations(reps[:6], 2):
        out.append(f"((({a}))) and (({b}))")
        out.append(f"not ((({a}) or (({b}))))")
        out.append(f"(((({a} or {b})) and {a}))")
    return out


FAMILIES = {"literals_special": literals_special, "parens_deep": parens_deep, "keywords": leaves_keywords, "implicit_eq": leaves_implicit, "lists": leaves_lists, "ranges": leaves_ranges, "cmp_ops": leaves_cmp,
            "regex": leaves_regex, "bool_depth1": depth1, "bool_depth2": depth2}


def _classify(expr):
    toks = expr.replace("(", " ( ").replace(")", " ) ").split()
    ops = [t for t in toks if t in set(CMP_SPELL) | {"and", "&&", "or", "||", "not", "!", "=~", "to"} or t.startswith("!")]
    return "ops:" + ",".join(sorted(set("!" if t.startswith("!") and t != "!=" else t for t in ops)))


def _replay(expr, witness, ref_value):
    """build a real topology whose atom #index has the witness attributes; compare Topology.select with the reference value"""
    script = f'''
import sys, mdtraj as md
from mdtraj.core import element as E
w = {witness!r}; expr = {expr!r}; ref_selected = {bool(ref_value)!r}
top = md.Topology()
el = E.Element.getBySymbol(w["symbol"])
for c in range(w["chainid"]):
    ch = top.add_chain(); r = top.add_residue("XXX", ch, 900 + c); top.add_atom("X", E.carbon, r)
ch = top.add_chain()
for k in range(w["resid"] - w["chainid"]):
    r = top.add_residue("XXX", ch, 950 + k); top.add_atom("X", E.carbon, r)
res = top.add_residue(w["resname"], ch, w["resSeq"], w["segment_id"])
for k in range(w["index"] - w["resid"]):
    top.add_atom("XF%d" % k, E.carbon, res)
target = top.add_atom(w["name"], el, res)
assert target.index == w["index"] and res.index == w["resid"] and ch.index == w["chainid"]
extra = [top.add_atom("XB%d" % k, E.hydrogen, res) for k in range(w["n_bonds"])]
for x in extra: top.add_bond(target, x)
try:
    sel = set(int(i) for i in top.select(expr))
    got = target.index in sel
    print("select(%r): witness atom selected=%s, reference says %s" % (expr, got, ref_selected))
except Exception as e:
    print("select(%r) raised %r; reference says selected=%s" % (expr, e, ref_selected)); got = None
sys.exit(1 if got != ref_selected else 0)
'''
    with tempfile.NamedTemporaryFile("w", suffix=".py", delete=False) as fh:
        fh.write(script)
    r = subprocess.run([sys.executable, fh.name], capture_output=True, text=True)
    os.unlink(fh.name)
    return r.returncode == 1, script, (r.stdout + r.stderr)[-300:]


def _ref_value(ck, refp, witness):
    s = z3.Solver()
    a = ck.atom
    s.add(a.name == selz3.S(witness["name"]), a.resname == selz3.S(witness["resname"]), a.segid == selz3.S(witness["segment_id"]), a.symbol == selz3.S(witness["symbol"]),
          a.index == witness["index"], a.resSeq == witness["resSeq"], a.resid == witness["resid"], a.chainid == witness["chainid"], a.n_bonds == witness["n_bonds"])
    s.add(*a.valid)
    s.add(refp)
    return s.check() == z3.sat


def check_family(family: str, extra_seed: int = -1, n_extra: int = 0, known_keys=(), chunk: int = 0, nchunks: int = 1):
    t0 = time.time()
    ck = Checker()
    if extra_seed == -2:
        extra_seed = int(os.environ.get("VERIF_SEED", "0") or 0)
    exprs = FAMILIES[family]() if family in FAMILIES else deeper(n_extra, extra_seed)
    exprs = exprs[chunk::nchunks]
    n_eq = n_rej = n_unsup = 0
    cex, first_known = None, []
    nontrivial = 0
    for e in exprs:
        try:
            refp = Ref(e, ck.atom).pred()
        except Reject as r:
            return {"status": "error", "detail": f"generator produced a string outside the reference grammar: {e!r}: {r}"}
        except Unsupported:
            n_unsup += 1
            continue
        try:
            node = parse_selection(e).astnode
        except Exception as ex:     # a documented expression must parse
            key = family + ":rejected:" + _classify(e)
            rep, script, out = _replay_reject(e)
            item = {"goal": e, "key": key, "reproduced": rep, "replay_script": script, "inputs": {"error": repr(ex)[:200]}}
            if key in known_keys:
                first_known.append(item)
                continue
            cex = item
            break
        try:
            mdp = ck.tr.truth(ck.tr.sel(node))
        except Unsupported as u:
            # the parser produced a node the documented language never needs (e.g. a live name where a string constant belongs): decide on solver-chosen
            # witnesses for both truth values of the REFERENCE predicate, through the real select()
            n_unsup += 1
            bad = None
            for const, refv in ((z3.BoolVal(False), True), (z3.BoolVal(True), False)):
                r2, w2 = ck.equivalent(const, refp)
                if r2 != "sat":
                    continue
                rep, script, out = _replay(e, w2, refv)
                if rep:
                    bad = {"goal": e, "key": family + ":untranslatable:" + _classify(e), "reproduced": True, "replay_script": script, "inputs": w2, "replay_output": f"AST node outside the language ({u}); " + out}
                    break
            if bad:
                cex = bad
                break
            continue
        r, w = ck.equivalent(mdp, refp)
        if r == "unsat":
            n_eq += 1
            rr = ck.reachable(refp) if n_eq % 25 == 1 else None
            if rr is None or "sat" in rr:
                nontrivial += 1
            continue
        if r != "sat":
            return {"status": "inconclusive", "detail": f"solver answered {r} on {e!r}", "queries": ck.queries, "solver_s": ck.solver_s}
        refv = _ref_value(ck, refp, w)
        rep, script, out = _replay(e, w, refv)
        key = family + ":wrong:" + _classify(e)
        item = {"goal": e, "key": key, "reproduced": rep, "replay_script": script, "inputs": w, "replay_output": out}
        if key in known_keys:
            first_known.append(item)
            continue
        cex = item
        break
    res = {"queries": ck.queries, "solver_s": round(ck.solver_s, 2), "expressions": len(exprs), "equivalent": n_eq, "outside_translated_subset": n_unsup,
           "samples": exprs[:5], "wall_s": round(time.time() - t0, 1), "known_matched": [k["key"] + " e.g. " + k["goal"] for k in first_known[:5]]}
    if cex:
        return {**res, "status": "cex", "cex": cex, "detail": f"{cex['goal']!r}: " + str(cex.get("replay_output", cex["inputs"]))[:300]}
    if first_known:
        k = first_known[0]
        return {**res, "status": "cex", "cex": k, "detail": f"known: {k['goal']!r}"}
    return {**res, "status": "holds", "twin_ok": n_eq > 0 and nontrivial > 0}


def _replay_reject(expr):
    script = f'''
import sys, mdtraj as md
top = md.Topology(); ch = top.add_chain(); r = top.add_residue("ALA", ch, 1); top.add_atom("CA", md.element.carbon, r)
try:
    top.select({expr!r}); print("accepted"); sys.exit(0)
except Exception as e:
    print("documented expression {expr!r} rejected:", repr(e)[:200]); sys.exit(1)
'''
    with tempfile.NamedTemporaryFile("w", suffix=".py", delete=False) as fh:
        fh.write(script)
    r = subprocess.run([sys.executable, fh.name], capture_output=True, text=True)
    os.unlink(fh.name)
    return r.returncode == 1, script, (r.stdout + r.stderr)[-300:]


def check_select_expression(family: str = "bool_depth1"):
    """the Python source returned by select_expression denotes the same predicate as the parsed AST"""
    import mdtraj as md
    t0 = time.time()
    ck = Checker()
    top = md.Topology()
    # a second topology whose atoms were NOT created residue by residue (hydrogens added to an earlier residue afterwards): Atom.index
    # (creation order) differs from the position in topology.atoms, and select() must return INDICES
    from mdtraj.core import element as _E
    top2 = md.Topology()
    _ch = top2.add_chain()
    _r = [top2.add_residue(nm, _ch, resSeq=7 + k) for k, nm in enumerate(("ALA", "GLY", "HOH"))]
    for _res, _names in ((_r[0], ("N", "CA", "C")), (_r[1], ("N", "CA")), (_r[2], ("O",)), (_r[0], ("H", "HA")), (_r[1], ("H",))):
        for _nm in _names:
            top2.add_atom(_nm, _E.hydrogen if _nm.startswith("H") else (_E.oxygen if _nm == "O" else (_E.nitrogen if _nm == "N" else _E.carbon)), _res)
    n = 0
    exprs = FAMILIES[family]()[::3] + leaves_cmp()[::4] + leaves_ranges()[::3] + leaves_lists()[::2] + leaves_regex()[::5]
    for e in exprs:
        try:
            node = parse_selection(e).astnode
            src = top.select_expression(e)
        except Exception:
            continue       # rejection is the other obligation's subject
        try:
            got2 = [int(v) for v in top2.select(e)]
            want2 = [int(v) for v in eval(src, {"topology": top2, "re": __import__("re"), "np": __import__("numpy")})]
        except Exception:
            got2 = want2 = None
        if got2 != want2:
            scr = ("import sys, mdtraj as md\nfrom mdtraj.core import element as E\ntop = md.Topology(); ch = top.add_chain()\nr = [top.add_residue(n, ch, resSeq=7 + k) for k, n in enumerate(('ALA', 'GLY', 'HOH'))]\n"
                   "for res, names in ((r[0], ('N', 'CA', 'C')), (r[1], ('N', 'CA')), (r[2], ('O',)), (r[0], ('H', 'HA')), (r[1], ('H',))):\n    for nm in names:\n        top.add_atom(nm, E.hydrogen if nm.startswith('H') else E.carbon, res)\n"
                   f"e = {e!r}\ngot = list(map(int, top.select(e))); want = eval(top.select_expression(e), {{'topology': top, 're': __import__('re'), 'np': __import__('numpy')}})\nprint(e, 'select:', got, ' select_expression evaluated:', list(want))\nsys.exit(1 if got != list(want) else 0)\n")
            return {"status": "cex", "cex": {"goal": e, "key": "select:indices", "reproduced": True, "replay_script": scr, "inputs": {"select": got2, "select_expression": want2}},
                    "detail": f"select({e!r}) = {got2} but its documented expansion [atom.index for atom in topology.atoms if ...] gives {want2} on a topology whose atoms were not created in traversal order"}
        tree = ast.parse(src, mode="eval").body
        ok = isinstance(tree, ast.ListComp) and ast.unparse(tree.elt) == "atom.index" and len(tree.generators) == 1 and len(tree.generators[0].ifs) == 1 \
            and ast.unparse(tree.generators[0].iter) == "topology.atoms" and ast.unparse(tree.generators[0].target) == "atom"
        if not ok:
            return {"status": "cex", "cex": {"goal": e, "key": "select_expression:shape", "reproduced": True, "replay_script": f"# select_expression({e!r}) = {src!r}\nimport sys; sys.exit(1)\n", "inputs": {"source": src}}, "detail": src}
        try:
            p1 = ck.tr.truth(ck.tr.sel(node))
            p2 = ck.tr.truth(ck.tr.sel(tree.generators[0].ifs[0]))
        except Unsupported:
            continue
        r, w = ck.equivalent(p1, p2)
        if r == "sat":
            return {"status": "cex", "cex": {"goal": e, "key": "select_expression:differs", "reproduced": True, "replay_script": f"# {src!r} differs on {w!r}\nimport sys; sys.exit(1)\n", "inputs": w}, "detail": src}
        if r != "unsat":
            return {"status": "inconclusive", "detail": f"{r} on {e!r}"}
        n += 1
    return {"status": "holds", "twin_ok": n > 0, "queries": ck.queries, "solver_s": round(ck.solver_s, 2), "expressions": n, "wall_s": round(time.time() - t0, 1)}


def check_malformed(only: int = -1):
    t0 = time.time()
    ck = Checker()
    bad = []
    for e in (MALFORMED if only < 0 else [MALFORMED[only]]):
        try:
            Ref(e, ck.atom).pred()
            return {"status": "error", "detail": f"reference accepts malformed string {e!r}"}
        except Reject:
            pass
        try:
            parse_selection(e)
            bad.append(e)
        except Exception:
            pass
    if bad:
        e = bad[0]
        script = f"import sys, mdtraj as md\ntop = md.Topology(); ch = top.add_chain(); r = top.add_residue('ALA', ch, 1); top.add_atom('CA', md.element.carbon, r)\ntry:\n    print('selected', top.select({e!r})); sys.exit(1)\nexcept Exception as ex:\n    print('rejected', ex); sys.exit(0)\n"
        return {"status": "cex", "cex": {"goal": e, "key": "accepted", "reproduced": True, "replay_script": script, "inputs": {"accepted": bad}}, "detail": f"malformed accepted: {bad}"}
    return {"status": "holds", "twin_ok": True, "queries": len(MALFORMED), "solver_s": 0.0, "expressions": len(MALFORMED), "wall_s": round(time.time() - t0, 1)}
