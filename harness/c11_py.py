"""C11 (Python layer) — Trajectory.make_molecules_whole / image_molecules around the compiled routine (E1 CrossHair).

`_geometry` is replaced by a recorder whose whole_molecules / image_molecules shift the coordinate array they are handed IN PLACE (as
the real routine does).  The bond graph on 5 atoms (one symbolic bool per possible edge among atoms 0..3, atom 4 a lone ion), inplace,
make_whole and whether the caller passes explicit molecules are symbolic.

  bond order   the real make_whole walks the bond list once, moving the SECOND atom of each bond next to the first.  That makes every
               molecule whole iff each step joins a single not-yet-attached atom to an already assembled group (or closes a ring inside
               one group).  The default bond list built by the Python layer must have that property for every bond graph.
  wrappers     inplace=False: the original's coordinates are untouched and nothing is shared; inplace=True: the same object is returned
               and it is its own array that was handed over; unit cell and times are never changed; the routine receives the result's
               cell vectors, every anchor / other molecule as its atoms' indices, and no bond list when make_whole=False."""
import vtlib.xhfix  # noqa: F401
import numpy as np

import mdtraj.core.trajectory as _tr
from mdtraj.core import element as _el
from mdtraj.core.topology import Topology
from mdtraj.core.trajectory import Trajectory

EDGES = [(0, 1), (0, 2), (0, 3), (1, 2), (1, 3), (2, 3)]


class _Rec:
    def __init__(self):
        self.calls = []

    def whole_molecules(self, xyz, box, sorted_bonds):
        self.calls.append(("whole", xyz, np.array(box), None if sorted_bonds is None else np.array(sorted_bonds), None, None))
        xyz += 1.0

    def image_molecules(self, xyz, box, anchors, others, sorted_bonds):
        self.calls.append(("image", xyz, np.array(box), None if sorted_bonds is None else np.array(sorted_bonds), [list(map(int, a)) for a in anchors], [list(map(int, o)) for o in others]))
        xyz += 1.0


def _traj(edges, mono=False):
    top = Topology()
    ch = top.add_chain()
    r = top.add_residue("MOL", ch)
    # mono: every atom its own residue (C-alpha-only / coarse-grained chains)
    atoms = [top.add_atom("C%d" % i, _el.carbon, top.add_residue("BD%d" % i, ch) if mono else r) for i in range(4)]
    r2 = top.add_residue("NA", ch)
    atoms.append(top.add_atom("NA", _el.sodium, r2))
    for on, (i, j) in zip(edges, EDGES):
        if on:
            top.add_bond(atoms[i], atoms[j])
    xyz = (np.arange(2 * 5 * 3, dtype=np.float32).reshape(2, 5, 3) * 0.173) % 2.1
    t = Trajectory(xyz, top, time=np.array([3.0, 7.5]))
    t.unitcell_lengths = np.array([[3.0, 3.1, 3.2], [3.3, 3.4, 3.5]])
    t.unitcell_angles = np.array([[90.0, 80.0, 70.0], [90.0, 90.0, 90.0]])
    return t


def _assembles(order, n):
    """the sequential algorithm makes molecules whole iff every step attaches a singleton (or stays inside one group)"""
    group = {i: {i} for i in range(n)}
    for a, b in order:
        if group[a] is group[b]:
            continue                      # ring closure inside an assembled group: the pair already sits at its minimum image
        if len(group[b]) != 1:
            return False                  # atom b is dragged away from the atoms it was already attached to
        g = group[a]
        g.add(b)
        group[b] = g
    return True


def bond_order(e0: bool, e1: bool, e2: bool, e3: bool, e4: bool, e5: bool, via_image: bool) -> bool:
    """
    post: __return__
    """
    edges = (e0, e1, e2, e3, e4, e5)
    t = _traj(edges)
    rec = _Rec()
    _tr._geometry = rec
    if via_image:
        t.image_molecules(inplace=False, anchor_molecules=[set(t.topology.atoms) - {t.topology.atom(4)}], other_molecules=[{t.topology.atom(4)}])
    else:
        t.make_molecules_whole(inplace=False)
    if len(rec.calls) != 1:
        return False
    sb = rec.calls[0][3]
    want = sorted((i, j) for on, (i, j) in zip(edges, EDGES) if on)
    if sb is None or len(sb) == 0:
        return len(want) == 0 or sb is not None and False
    got = [tuple(int(v) for v in row) for row in sb]
    # every bond of the topology is walked (ring-closing bonds may be left out), nothing else is
    if any(tuple(sorted(p)) not in want for p in got):
        return False
    comp_got, comp_want = _components(got, 5), _components(want, 5)
    return comp_got == comp_want and _assembles(got, 5)


def _components(pairs, n):
    lab = list(range(n))
    for a, b in pairs:
        la, lb = lab[a], lab[b]
        if la != lb:
            lab = [la if x == lb else x for x in lab]
    return [lab[i] == lab[j] for i in range(n) for j in range(i)]


def wrappers(api: int, inplace: bool, make_whole: bool, explicit: bool, e0: bool, e3: bool, e5: bool) -> bool:
    """
    pre: 0 <= api <= 1
    pre: explicit or api == 0
    post: __return__
    """
    # (guess_anchor_molecules needs ten or more molecules before its size heuristic can select anything: outside this 5-atom bound)
    t = _traj((e0, False, False, e3, False, e5))
    xyz0, time0, len0, ang0 = t.xyz.copy(), t.time.copy(), t.unitcell_lengths.copy(), t.unitcell_angles.copy()
    uv0 = t.unitcell_vectors.copy()
    own = t._xyz
    rec = _Rec()
    _tr._geometry = rec
    atoms = list(t.topology.atoms)
    if api == 0:
        r = t.make_molecules_whole(inplace=inplace)
    else:
        kw = {}
        if explicit:
            kw = {"anchor_molecules": [{atoms[0], atoms[1]}], "other_molecules": [{atoms[2]}, {atoms[3], atoms[4]}]}
        r = t.image_molecules(inplace=inplace, make_whole=make_whole, **kw)
    if len(rec.calls) != 1:
        return False
    kind, arr, box, sb, anchors, others = rec.calls[0]
    if kind != ("whole" if api == 0 else "image"):
        return False
    if inplace:
        if r is not t or arr is not own or not np.array_equal(t.xyz, xyz0 + 1.0):
            return False
    else:
        if r is t or not np.array_equal(t.xyz, xyz0) or not np.array_equal(r.xyz, xyz0 + 1.0) or np.shares_memory(r.xyz, t.xyz):
            return False
        if np.shares_memory(r.unitcell_lengths, t.unitcell_lengths) or np.shares_memory(r.time, t.time):
            return False
    for x in (r, t):
        if not (np.array_equal(x.time, time0) and np.array_equal(x.unitcell_lengths, len0) and np.array_equal(x.unitcell_angles, ang0)):
            return False
    if not np.allclose(box, uv0, atol=1e-6) or box.shape != (2, 3, 3) or not arr.flags["C_CONTIGUOUS"] or arr.dtype != np.float32:
        return False
    if api == 1:
        if not make_whole and sb is not None:
            return False
        if make_whole and sb is None:
            return False
        if explicit:
            if sorted(map(sorted, anchors)) != [[0, 1]] or sorted(map(sorted, others)) != [[2], [3, 4]]:
                return False
        else:
            # every atom belongs to exactly one molecule, anchors and others are disjoint, and molecules are the bond graph's components
            flat = sorted(i for m in anchors + others for i in m)
            if flat != list(range(5)):
                return False
            comp = _components([(i, j) for on, (i, j) in zip((e0, False, False, e3, False, e5), EDGES) if on], 5)
            molof = {i: k for k, m in enumerate(anchors + others) for i in m}
            if [molof[i] == molof[j] for i in range(5) for j in range(i)] != comp:
                return False
    return True


def other_molecules_default(e0: bool, e1: bool, e3: bool, e5: bool, mono: bool, make_whole: bool) -> bool:
    """
    post: __return__
    """
    # explicit anchors, other_molecules left to the library: every connected component of the bond graph that is not an anchor must be
    # handed over as ONE molecule (also when every residue is a single atom), single atoms as molecules of their own
    edges = (e0, e1, False, e3, False, e5)
    t = _traj(edges, mono)
    atoms = list(t.topology.atoms)
    if not any(edges):
        return True                      # bond-less topologies are refused by find_molecules (documented)
    rec = _Rec()
    _tr._geometry = rec
    comp = _components([(i, j) for on, (i, j) in zip(edges, EDGES) if on], 5)
    lab = {}
    k = 0
    for i in range(5):
        for j in range(i):
            if comp[i * (i - 1) // 2 + j]:
                lab[i] = lab[j]
                break
        else:
            lab[i] = k
            k += 1
    anchor = {a for a in atoms if lab[a.index] == lab[0]}
    t.image_molecules(inplace=False, anchor_molecules=[anchor], make_whole=make_whole)
    if len(rec.calls) != 1:
        return False
    anchors, others = rec.calls[0][4], rec.calls[0][5]
    if sorted(map(sorted, anchors)) != [sorted(a.index for a in anchor)]:
        return False
    want = {}
    for i in range(5):
        if lab[i] != lab[0]:
            want.setdefault(lab[i], []).append(i)
    return sorted(map(sorted, others)) == sorted(want.values())


def bond_order_after_edit(e0: bool, e3: bool, e5: bool, new: int, via_slice: bool) -> bool:
    """
    pre: 0 <= new <= 5
    post: __return__
    """
    # history: re-image once, change the bond graph IN PLACE (add a bond / atom_slice(inplace=True)), re-image again:
    # the second call must walk the CURRENT graph
    from vtlib.xhfix import conc
    new = conc(new, 0, 5)
    edges = [e0, False, False, e3, False, e5]
    t = _traj(tuple(edges))
    rec = _Rec()
    _tr._geometry = rec
    t.make_molecules_whole(inplace=True)
    atoms = list(t.topology.atoms)
    if via_slice:
        t.atom_slice([0, 1, 2, 3], inplace=True)
        n = 4
        cur = sorted((i, j) for on, (i, j) in zip(edges, EDGES) if on)
    else:
        i, j = EDGES[new]
        if not edges[new]:
            t.topology.add_bond(atoms[i], atoms[j])
            edges[new] = True
        n = 5
        cur = sorted((i, j) for on, (i, j) in zip(edges, EDGES) if on)
    t.make_molecules_whole(inplace=True)
    if len(rec.calls) != 2:
        return False
    sb = rec.calls[1][3]
    got = [] if sb is None else [tuple(int(v) for v in row) for row in sb]
    if any(tuple(sorted(p)) not in cur for p in got):
        return False
    return _components(got, n) == _components(cur, n) and _assembles(got, n)


ORDERS = [[(2, 1), (1, 0), (2, 3)], [(3, 2), (2, 1), (1, 0)], [(1, 2), (1, 0), (0, 3)], [(0, 1), (1, 2), (2, 3)]]


def explicit_sorted_bonds(order: int, api: int, as_list: bool) -> bool:
    """a caller-supplied bond list (valid assembly orders that are NOT monotone in the first index, walking a molecule from a high-numbered atom)
    reaches the routine with its rows in the caller's order
    pre: 0 <= order <= 3 and 0 <= api <= 1
    post: __return__
    """
    t = _traj((True, False, False, True, False, True))
    rec = _Rec()
    _tr._geometry = rec
    rows = ORDERS[int(order)]
    sb = [list(r) for r in rows] if as_list else np.array(rows, dtype=np.int32)
    try:
        if api == 0:
            t.make_molecules_whole(inplace=False, sorted_bonds=np.array(rows, dtype=np.int32) if not as_list else np.array(sb, dtype=np.int32))
        else:
            atoms = list(t.topology.atoms)
            t.image_molecules(inplace=False, make_whole=True, anchor_molecules=[{atoms[0], atoms[1], atoms[2], atoms[3]}], other_molecules=[{atoms[4]}], sorted_bonds=np.array(rows, dtype=np.int32))
    except Exception:
        return False
    if len(rec.calls) != 1 or rec.calls[0][3] is None:
        return False
    return [tuple(map(int, r)) for r in rec.calls[0][3]] == rows
