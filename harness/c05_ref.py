"""C05 — the pure-numpy reference kernels (opt=False) of mdtraj.geometry.distance on symbolic coordinates (E2 symnum), orthorhombic cells.

_distance_mic / _distance_mic_t / _displacement_mic run as they are (numpy replaced by the z3-backed facade, round() a fresh integer within
half a unit); claims per pair: the reported vector is the plain difference minus an integer combination of the cell edges with every component
within half an edge (the minimum image of an orthorhombic cell), the distance is its norm; for the time-pair variant the difference is taken
between atom c at time t1 and atom d at time t2 — INCLUDING c == d, the distance an atom travelled — in the cell of the first time index."""
import os
import subprocess
import sys
import tempfile
import time

import numpy as np
import z3

import mdtraj.geometry.distance as _d
from vtlib import symnum as S
from vtlib.symnum import NP, Goals, sym_array, tz

CELLS = {"c234": [2.0, 3.0, 4.0], "c325": [3.0, 2.5, 5.0]}

_REPLAY = r'''
import sys, itertools, numpy as np, mdtraj as md
from mdtraj.geometry import distance as D
rng = np.random.RandomState(3); bad = 0
for trial in range(30):
    xyz = (rng.rand(2, 3, 3) * 12 - 4).astype(np.float32)
    L = np.array([[2.0, 3.0, 4.0], [3.0, 2.5, 5.0]])
    box = np.array([np.diag(l) for l in L], dtype=np.float32)
    pairs = np.array([[0, 1], [1, 1], [2, 0]], dtype=np.int32); times = np.array([[0, 1], [1, 0], [0, 0]], dtype=np.int32)
    got = D._distance_mic_t(xyz, pairs, times, box.transpose(0, 2, 1), True)
    for i, (a, b) in enumerate(times):
        for j, (c, d) in enumerate(pairs):
            r = xyz[a, c].astype(float) - xyz[b, d].astype(float)
            want = min(np.linalg.norm(r + np.array(m) * L[a]) for m in itertools.product(range(-8, 9), repeat=3))
            if abs(got[i, j] - want) > 1e-4: bad += 1; print("times", (a, b), "pair", (c, d), "reported", got[i, j], "minimum image distance", want)
    got2 = D._distance_mic(xyz, pairs, box.transpose(0, 2, 1), True)
    for f in range(2):
        for j, (c, d) in enumerate(pairs):
            r = xyz[f, d].astype(float) - xyz[f, c].astype(float)
            want = min(np.linalg.norm(r + np.array(m) * L[f]) for m in itertools.product(range(-8, 9), repeat=3))
            if abs(got2[f, j] - want) > 1e-4: bad += 1; print("frame", f, "pair", (c, d), "reported", got2[f, j], "minimum image distance", want)
print("deviating:", bad); sys.exit(1 if bad else 0)
'''


def _replay(name, vals):
    with tempfile.NamedTemporaryFile("w", suffix=".py", delete=False) as fh:
        fh.write(_REPLAY)
    r = subprocess.run([sys.executable, fh.name], capture_output=True, text=True)
    os.unlink(fh.name)
    return r.returncode == 1, _REPLAY + "\n# " + (r.stdout + r.stderr)[-500:].replace("\n", "\n# "), name.split("[")[0]


def reference_mic(fn: str = "distance_t", pair: str = "self"):
    """fn: distance / distance_t / displacement; pair: self (the same atom twice) / distinct"""
    t0 = time.time()
    S.new_ctx(timeout_ms=30000)
    _d.np = NP()
    F_, N = 2, 2
    X = sym_array("x", (F_, N, 3))
    Ls = [CELLS["c234"], CELLS["c325"]]
    box = np.array([np.diag(l) for l in Ls])
    S.CTX.cons += [z3.And(tz(v) >= -20, tz(v) <= 20) for v in X.flat]
    pairs = np.array([[1, 1]] if pair == "self" else [[0, 1]], dtype=np.int32)
    times = np.array([[0, 1], [1, 0]], dtype=np.int32)
    boxT = box.transpose(0, 2, 1).copy()

    normed = []

    class _LA:
        """np.linalg with norm recording the vector it was applied to (the distance functions return only the norm)"""
        def norm(self, v, *a, **k):
            r = S._norm(v, *a, **k)
            normed.append(([x for x in np.asarray(v, dtype=object).flat], r))
            return r

        def __getattr__(self, n):
            return getattr(S._Linalg(), n)

    def run():
        del normed[:]
        _d.np = NP()
        _d.np.linalg = _LA()
        if fn == "distance_t":
            return _d._distance_mic_t(X, pairs, times, boxT, True), list(normed)
        if fn == "distance":
            return _d._distance_mic(X, pairs, boxT, True), list(normed)
        return _d._displacement_mic(X, pairs, boxT, True), list(normed)
    try:
        paths = S.explore(run, max_paths=64)
    finally:
        _d.np = np
    G = Goals(30000)
    c, d = int(pairs[0][0]), int(pairs[0][1])
    tol = z3.RealVal("1/1000000")
    for pi, (path, cons, assumed, (out, norms)) in enumerate(paths):
        prem = cons + path + assumed
        rows = [(int(a), int(b)) for a, b in times] if fn == "distance_t" else [(f, f) for f in range(F_)]
        for i, (a, b) in enumerate(rows):
            L = Ls[a]
            if fn == "distance_t":
                r = [tz(X[a, c, k]) - tz(X[b, d, k]) for k in range(3)]
            else:
                r = [tz(X[a, d, k]) - tz(X[a, c, k]) for k in range(3)]
            n = [z3.Int(f"n_{pi}_{i}_{k}") for k in range(3)]
            img = [r[k] - z3.ToReal(n[k]) * S.rat(L[k]) for k in range(3)]
            # n: the nearest lattice point per axis (it exists for every real; at a tie either choice gives the same length)
            inside = [z3.And(img[k] <= S.rat(L[k] / 2), img[k] >= -S.rat(L[k] / 2)) for k in range(3)]
            strict = [z3.And(img[k] < S.rat(L[k] / 2), img[k] > -S.rat(L[k] / 2)) for k in range(3)]
            if fn == "displacement":
                v = [tz(out[i, 0, k]) for k in range(3)]
                G.add(f"p{pi}.minimum_image_vector[{i}]", prem + strict, z3.And(*[S.close(v[k], img[k], tol, tol) for k in range(3)]), {})
            else:
                dist = tz(out[i, 0])
                vec = [v_ for v_, r_ in norms if z3.eq(tz(r_) if not hasattr(r_, "shape") else tz(r_.item() if r_.shape == () else r_.flat[0]), dist)]
                if len(vec) != 1 or len(vec[0]) != 3:
                    G.add(f"p{pi}.distance_is_a_norm[{i}]", [], z3.BoolVal(False), {})
                    continue
                # the distance is |v| for the vector v handed to norm(); v is the minimum image: per axis +-(r - n L) (equal lengths at a tie)
                for k in range(3):
                    G.add(f"p{pi}.minimum_image_distance[{i}.{k}]", prem + inside, z3.Or(S.close(tz(vec[0][k]), img[k], tol, tol), S.close(tz(vec[0][k]), -img[k], tol, tol)), {})
    r = G.run(_replay)
    r["paths"] = len(paths)
    r["wall_s"] = round(time.time() - t0, 2)
    return r
