"""C03 — slicing / joining / stacking / atom subsetting act like numpy indexing on every field and never leave a
stale RMSD-trace cache.  ONE operation from an ARBITRARY valid state, under CrossHair:

state   = Trajectory with n<=3 frames x 3 atoms, with or without unit cell, either plain or centred with the
          trace cache filled by the real kernel (center_coordinates) — the representation invariant
          Inv(t): every per-frame field has length n_frames, cell complete or absent, and
                  t._rmsd_traces is None  or  (xyz is centred and traces[f] == sum |xyz[f]|^2).
step    = one of the operations below with symbolic keys / sizes / flags
assert  = fields equal numpy's own indexing/concatenation of the source arrays, Inv(result), no shared memory as
          the property demands, source unchanged unless the operation is documented in-place, and — on centred
          results — md.rmsd(precentered=True) == md.rmsd(precentered=False) through the real kernel.
Because every result satisfies Inv again, the step covers operation sequences of any length."""
import vtlib.xhfix  # noqa: F401
import numpy as np

import mdtraj as md
from mdtraj.core import element as _el
from mdtraj.core.topology import Topology
from mdtraj.core.trajectory import Trajectory
from vtlib.xhfix import conc

NA = 3
_BASE = np.array([[0.10, 0.20, 0.05], [0.55, -0.30, 0.25], [-0.40, 0.35, 0.60]], dtype=np.float32)


def _top(names=("N", "CA", "O"), resn=("ALA", "ALA", "HOH")):
    t = Topology()
    c = t.add_chain("A")
    r, last = None, None
    for i, (n, rn) in enumerate(zip(names, resn)):
        if rn != last:
            r = t.add_residue(rn, c, i + 1)
            last = rn
        t.add_atom(n, _el.carbon if n != "O" else _el.oxygen, r)
    return t


def mk(n, cell, centred, seed=0):
    """a valid state: frame f has distinct non-collinear coordinates, time 2f+seed, cell (5+f,6,7)/(90,80+f,70)"""
    xyz = np.stack([_BASE * (1.0 + 0.3 * (f + seed)) + np.float32(0.7 * f + seed) for f in range(n)]).astype(np.float32)
    t = Trajectory(xyz, _top(), time=np.arange(n, dtype=np.float32) * 2 + seed)
    if cell:
        t.unitcell_lengths = np.array([[5.0 + f + seed, 6.0, 7.0] for f in range(n)], dtype=np.float32)
        t.unitcell_angles = np.array([[90.0, 80.0 + f, 70.0] for f in range(n)], dtype=np.float32)
    if centred:
        t.center_coordinates()          # the real kernel fills the trace cache
    return t


def fields(t):
    return (t.xyz.copy(), t.time.copy(), None if t.unitcell_lengths is None else t.unitcell_lengths.copy(),
            None if t.unitcell_angles is None else t.unitcell_angles.copy(), None if t._rmsd_traces is None else np.array(t._rmsd_traces).copy())


def same(a, b):
    if a is None or b is None:
        return a is None and b is None
    a, b = np.asarray(a), np.asarray(b)
    return a.shape == b.shape and bool(np.array_equal(a, b))


def unchanged(t, snap):
    return all(same(x, y) for x, y in zip(fields(t), snap))


def inv(t):
    n = t.xyz.shape[0]
    if t.xyz.ndim != 3 or len(t.time) != n:
        return False
    if (t.unitcell_lengths is None) != (t.unitcell_angles is None):
        return False
    if t.unitcell_lengths is not None and (t.unitcell_lengths.shape != (n, 3) or t.unitcell_angles.shape != (n, 3)):
        return False
    if t.topology is not None and t.topology.n_atoms != t.xyz.shape[1]:
        return False
    tr = t._rmsd_traces
    if tr is None:
        return True
    tr = np.asarray(tr)
    if tr.shape != (n,):
        return False
    x = t.xyz.astype(np.float64)
    centred = bool(np.all(np.abs(x.mean(axis=1)) < 1e-5))
    return centred and bool(np.allclose(tr, (x * x).sum(axis=(1, 2)), rtol=1e-4, atol=1e-6))


def rmsd_consistent(t):
    """the property's observer, through the real kernel, meaningful on centred trajectories only"""
    if t.n_frames == 0:
        return True
    x = t.xyz.astype(np.float64)
    if not np.all(np.abs(x.mean(axis=1)) < 1e-5):
        return True
    def clone():     # md.rmsd centres its input in place (documented), so observe clones
        c = Trajectory(t.xyz.copy(), None)
        c._rmsd_traces = None if t._rmsd_traces is None else np.array(t._rmsd_traces, copy=True)
        return c
    # reference with a different shape, so that the RMSD is O(0.1) and float32 noise near 0 is not amplified by the sqrt
    na = t.xyz.shape[1]
    rx = (np.arange(na * 3, dtype=np.float32).reshape(1, na, 3) % 5) * np.float32(0.13) + (np.arange(na, dtype=np.float32)[None, :, None] ** 2) * np.float32(0.07)
    def ref():
        r = Trajectory(rx.copy(), None)
        r.center_coordinates()
        return r
    a = md.rmsd(clone(), ref(), 0, precentered=True)
    b = md.rmsd(clone(), ref(), 0, precentered=False)
    return bool(np.allclose(a, b, atol=1e-3, rtol=1e-3))


def no_share(r, t, all_fields):
    if np.shares_memory(r.xyz, t.xyz):
        return False
    if not all_fields:
        return True
    if np.shares_memory(r.time, t.time):
        return False
    if r.unitcell_lengths is not None and (np.shares_memory(r.unitcell_lengths, t.unitcell_lengths) or np.shares_memory(r.unitcell_angles, t.unitcell_angles)):
        return False
    if r._rmsd_traces is not None and t._rmsd_traces is not None and np.shares_memory(np.asarray(r._rmsd_traces), np.asarray(t._rmsd_traces)):
        return False
    if r.topology is not None and (r.topology is t.topology or any(a is b for a in r.topology.atoms for b in t.topology.atoms)):
        return False
    return True


def _check_index(t, key, copy):
    snap = fields(t)
    try:
        want = t.xyz[key]
    except IndexError:
        return True                     # out of range keys are outside the property
    r = t.slice(key, copy=copy)
    wx = np.asarray(t.xyz[key])
    wx = wx[np.newaxis] if wx.ndim == 2 else wx
    ok = same(r.xyz, wx) and same(r.time, np.atleast_1d(t.time[key]))
    if t.unitcell_lengths is not None:
        ok = ok and same(r.unitcell_lengths, np.atleast_2d(t.unitcell_lengths[key])) and same(r.unitcell_angles, np.atleast_2d(t.unitcell_angles[key]))
    else:
        ok = ok and r.unitcell_lengths is None and r.unitcell_angles is None
    ok = ok and inv(r) and rmsd_consistent(r) and unchanged(t, snap) and r.topology == t.topology
    if copy:
        ok = ok and no_share(r, t, True)
    return ok


# ------------------------------------------------------------------ indexing

def index_int(n: int, cell: bool, centred: bool, i: int, copy: bool) -> bool:
    """
    pre: 1 <= n <= 3 and -n <= i < n
    post: __return__
    """
    n, i = conc(n, 1, 3), conc(i, -3, 2)
    return _check_index(mk(n, cell, centred), i, copy)


def index_slice(n: int, cell: bool, centred: bool, a: int, b: int, c: int, copy: bool) -> bool:
    """
    pre: 1 <= n <= 3 and -4 <= a <= 4 and -4 <= b <= 4 and -3 <= c <= 3 and c != 0
    post: __return__
    """
    n, a, b, c = conc(n, 1, 3), conc(a, -4, 4), conc(b, -4, 4), conc(c, -3, 3)
    return _check_index(mk(n, cell, centred), slice(a, b, c), copy)


def index_slice_open(n: int, cell: bool, centred: bool, a: int, kind: int) -> bool:
    """
    pre: 1 <= n <= 3 and -4 <= a <= 4 and 0 <= kind <= 3
    post: __return__
    """
    n, a, kind = conc(n, 1, 3), conc(a, -4, 4), conc(kind, 0, 3)
    key = (slice(a, None), slice(None, a), slice(None, None, -1), slice(None))[kind]
    return _check_index(mk(n, cell, centred), key, True)


def index_list(n: int, cell: bool, centred: bool, i0: int, i1: int, i2: int, k: int) -> bool:
    """
    pre: 1 <= n <= 3 and 1 <= k <= 3 and -n <= i0 < n and -n <= i1 < n and -n <= i2 < n
    post: __return__
    """
    n, k = conc(n, 1, 3), conc(k, 1, 3)
    key = [conc(i0, -3, 2), conc(i1, -3, 2), conc(i2, -3, 2)][:k]
    return _check_index(mk(n, cell, centred), key, True) and _check_index(mk(n, cell, centred), np.array(key), True)


def index_mask(n: int, cell: bool, centred: bool, m0: bool, m1: bool, m2: bool) -> bool:
    """
    pre: 1 <= n <= 3
    post: __return__
    """
    n = conc(n, 1, 3)
    return _check_index(mk(n, cell, centred), np.array([bool(m0), bool(m1), bool(m2)][:n]), True)


def _check_getitem(t, key):
    """t[key] (the operator form) agrees with numpy indexing of every field and shares nothing"""
    snap = fields(t)
    r = t[key]
    wx = np.asarray(t.xyz[key])
    wx = wx[np.newaxis] if wx.ndim == 2 else wx
    ok = same(r.xyz, wx) and same(r.time, np.atleast_1d(t.time[key]))
    if t.unitcell_lengths is not None:
        ok = ok and same(r.unitcell_lengths, np.atleast_2d(t.unitcell_lengths[key])) and same(r.unitcell_angles, np.atleast_2d(t.unitcell_angles[key]))
    return ok and inv(r) and unchanged(t, snap) and no_share(r, t, True)


def index_key_types(n: int, cell: bool, centred: bool, i: int, kind: int, m0: bool, m1: bool, m2: bool) -> bool:
    """
    pre: 1 <= n <= 3 and 0 <= i < n and 0 <= kind <= 3
    post: __return__
    """
    # keys of the types numpy hands out: integer scalars (np.argmin returns np.intp), and a plain Python list of bools (a mask turned into a list)
    n, i, kind = conc(n, 1, 3), conc(i, 0, 2), conc(kind, 0, 3)
    if kind <= 2:
        key = [np.int64, np.intp, np.int32][kind](i)
    else:
        key = [bool(m0), bool(m1), bool(m2)][:n]
    return _check_index(mk(n, cell, centred), key, True) and _check_getitem(mk(n, cell, centred), key)


# ------------------------------------------------------------------ join / stack

def join_two(n1: int, n2: int, cell: bool, c1: bool, c2: bool, check_top: bool, as_list: bool) -> bool:
    """
    pre: 1 <= n1 <= 3 and 1 <= n2 <= 2
    post: __return__
    """
    n1, n2 = conc(n1, 1, 3), conc(n2, 1, 2)
    t1, t2 = mk(n1, cell, c1), mk(n2, cell, c2, seed=5)
    s1, s2 = fields(t1), fields(t2)
    r = t1.join([t2] if as_list else t2, check_topology=check_top)
    ok = same(r.xyz, np.concatenate([t1.xyz, t2.xyz])) and same(r.time, np.concatenate([t1.time, t2.time]))
    if cell:
        ok = ok and same(r.unitcell_lengths, np.concatenate([t1.unitcell_lengths, t2.unitcell_lengths])) \
            and same(r.unitcell_angles, np.concatenate([t1.unitcell_angles, t2.unitcell_angles]))
    else:
        ok = ok and r.unitcell_lengths is None and r.unitcell_angles is None
    return ok and inv(r) and rmsd_consistent(r) and unchanged(t1, s1) and unchanged(t2, s2) and no_share(r, t1, True) and no_share(r, t2, True) \
        and r.topology == t1.topology


def join_three_plus(n1: int, n2: int, n3: int, cell: bool, centred: bool, via_md_join: bool) -> bool:
    """
    pre: 1 <= n1 <= 2 and 1 <= n2 <= 2 and 1 <= n3 <= 2
    post: __return__
    """
    ts = [mk(conc(n1, 1, 2), cell, centred), mk(conc(n2, 1, 2), cell, not centred, seed=3), mk(conc(n3, 1, 2), cell, centred, seed=7)]
    snaps = [fields(t) for t in ts]
    r = md.join(ts) if via_md_join else (ts[0] + ts[1] + ts[2])
    ok = same(r.xyz, np.concatenate([t.xyz for t in ts])) and same(r.time, np.concatenate([t.time for t in ts]))
    if cell:
        ok = ok and same(r.unitcell_lengths, np.concatenate([t.unitcell_lengths for t in ts]))
    return ok and inv(r) and rmsd_consistent(r) and all(unchanged(t, s) for t, s in zip(ts, snaps)) and all(no_share(r, t, True) for t in ts)


def join_mixed_cell_refused(n1: int, n2: int, which: bool) -> bool:
    """
    pre: 1 <= n1 <= 2 and 1 <= n2 <= 2
    post: __return__
    """
    t1, t2 = mk(conc(n1, 1, 2), which, False), mk(conc(n2, 1, 2), not which, False)
    try:
        t1.join(t2)
        return False
    except ValueError:
        return True


def md_join_coinciding_boundary(n1: int, n2: int, cell: bool, mode: int) -> bool:
    """
    pre: 1 <= n1 <= 2 and 1 <= n2 <= 2 and 0 <= mode <= 3
    post: __return__
    """
    # the module-level md.join: pieces whose boundary frames COINCIDE are still concatenated in full unless discarding is requested
    n1, n2 = conc(n1, 1, 2), conc(n2, 1, 2)
    t1, t2 = mk(n1, cell, False), mk(n2, cell, False, seed=5)
    x = t2.xyz.copy()
    x[0] = t1.xyz[-1]
    t2.xyz = x
    mode = conc(mode, 0, 3)
    if mode == 0:
        r = md.join([t1, t2])
    elif mode == 1:
        r = md.join(iter([t1, t2]), check_topology=True)
    elif mode == 2:
        r = md.join([t1, t2], check_topology=False, discard_overlapping_frames=False)
    else:
        r = md.join([t1, t2], check_topology=False, discard_overlapping_frames=True)
    first = t1.xyz[:-1] if mode == 3 else t1.xyz
    ok = same(r.xyz, np.concatenate([first, t2.xyz])) and len(r.time) == r.n_frames
    if cell:
        ok = ok and r.unitcell_lengths is not None and len(r.unitcell_lengths) == r.n_frames
    return ok and inv(r)


def join_discard_overlap(n1: int, n2: int, cell: bool, overlap: bool) -> bool:
    """
    pre: 2 <= n1 <= 3 and 1 <= n2 <= 2
    post: __return__
    """
    n1, n2 = conc(n1, 2, 3), conc(n2, 1, 2)
    t1, t2 = mk(n1, cell, False), mk(n2, cell, False, seed=5)
    if overlap:
        x = t2.xyz.copy()
        x[0] = t1.xyz[-1]
        t2.xyz = x
    r = t1.join(t2, discard_overlapping_frames=True)
    first = t1.xyz[:-1] if overlap else t1.xyz
    return same(r.xyz, np.concatenate([first, t2.xyz])) and inv(r) and len(r.time) == r.n_frames and no_share(r, t1, True)


def stack_two(n: int, cell: bool, c1: bool, c2: bool, keep: bool) -> bool:
    """
    pre: 1 <= n <= 3
    post: __return__
    """
    n = conc(n, 1, 3)
    t1, t2 = mk(n, cell, c1), mk(n, cell, c2, seed=4)
    s1, s2 = fields(t1), fields(t2)
    r = t1.stack(t2, keep_resSeq=keep)
    ok = same(r.xyz, np.hstack([t1.xyz, t2.xyz])) and same(r.time, t1.time) and r.n_atoms == 2 * NA and r.topology.n_atoms == 2 * NA
    if cell:
        ok = ok and same(r.unitcell_lengths, t1.unitcell_lengths) and same(r.unitcell_angles, t1.unitcell_angles)
    return ok and inv(r) and rmsd_consistent(r) and unchanged(t1, s1) and unchanged(t2, s2) and no_share(r, t1, False) and no_share(r, t2, False)


# ------------------------------------------------------------------ atom subsetting

def atom_slice_op(n: int, cell: bool, centred: bool, k0: bool, k1: bool, k2: bool, inplace: bool) -> bool:
    """
    pre: 1 <= n <= 3 and (k0 or k1 or k2)
    post: __return__
    """
    n = conc(n, 1, 3)
    t = mk(n, cell, centred)
    keep = [i for i, k in enumerate((k0, k1, k2)) if k]
    snap = fields(t)
    names = [a.name for a in t.topology.atoms]
    r = t.atom_slice(keep, inplace=inplace)
    ok = same(r.xyz, snap[0][:, keep]) and same(r.time, snap[1]) and same(r.unitcell_lengths, snap[2]) and same(r.unitcell_angles, snap[3])
    ok = ok and [a.name for a in r.topology.atoms] == [names[i] for i in keep] and inv(r) and rmsd_consistent(r)
    if inplace:
        return ok and r is t
    return ok and unchanged(t, snap) and no_share(r, t, True)


def remove_solvent_op(n: int, cell: bool, centred: bool, inplace: bool) -> bool:
    """
    pre: 1 <= n <= 3
    post: __return__
    """
    n = conc(n, 1, 3)
    t = mk(n, cell, centred)
    snap = fields(t)
    r = t.remove_solvent(inplace=inplace)
    ok = same(r.xyz, snap[0][:, [0, 1]]) and inv(r) and rmsd_consistent(r) and [a.name for a in r.topology.atoms] == ["N", "CA"]
    return ok and (r is t if inplace else (unchanged(t, snap) and no_share(r, t, True)))


# ------------------------------------------------------------------ in-place modifiers and setters keep Inv

def modifiers(n: int, cell: bool, centred: bool, op: int) -> bool:
    """
    pre: 1 <= n <= 3 and 0 <= op <= 6
    post: __return__
    """
    n, op = conc(n, 1, 3), conc(op, 0, 6)
    t = mk(n, cell, centred)
    ref = mk(n, cell, False, seed=2)
    if op == 0:
        t.center_coordinates()
    elif op == 1:
        t.center_coordinates(mass_weighted=True)
    elif op == 2:
        t.superpose(ref, 0)
    elif op == 3:
        t.superpose(ref, 0, atom_indices=[0, 1], ref_atom_indices=[1, 2])
    elif op == 4:
        t.xyz = t.xyz + np.float32(1.0)
    elif op == 5:
        t.time = t.time + 1.0
    else:
        t.unitcell_lengths = None if cell else np.ones((n, 3))
        t.unitcell_angles = None if cell else np.full((n, 3), 90.0)
    return inv(t) and rmsd_consistent(t)


def analysis_leaves_input(n: int, cell: bool, centred: bool, which: int) -> bool:
    """
    pre: 1 <= n <= 3 and 0 <= which <= 5
    post: __return__
    """
    n, which = conc(n, 1, 3), conc(which, 0, 5)
    t = mk(n, cell, centred)
    snap = fields(t)
    if which == 0:
        md.compute_displacements(t, [[0, 1], [1, 2]], periodic=cell)
    elif which == 1:
        md.compute_distances(t, [[0, 1], [1, 2]], periodic=cell)
    elif which == 2:
        md.compute_rg(t)
    elif which == 3:
        md.compute_angles(t, [[0, 1, 2]], periodic=cell)
    elif which == 4:
        md.compute_center_of_mass(t)
    else:
        md.compute_neighbors(t, 0.5, [0])
    return unchanged(t, snap) and inv(t)


# ------------------------------------------------------------------ unit-cell bookkeeping (used by C17)

def stack_cell_presence(n: int, c1: bool, c2: bool) -> bool:
    """
    pre: 1 <= n <= 3
    post: __return__
    """
    n = conc(n, 1, 3)
    t1, t2 = mk(n, c1, False), mk(n, c2, False, seed=4)
    r = t1.stack(t2)
    if (r.unitcell_lengths is None) != (r.unitcell_angles is None):
        return False           # never half a cell
    if c1:                      # the stacked trajectory carries exactly the left operand's cell (documented)
        return same(r.unitcell_lengths, t1.unitcell_lengths) and same(r.unitcell_angles, t1.unitcell_angles) and r._have_unitcell
    return r.unitcell_lengths is None and not r._have_unitcell


def cell_presence_ops(n: int, cell: bool, op: int, a: int, k0: bool, k1: bool) -> bool:
    """
    pre: 1 <= n <= 3 and 0 <= op <= 4 and -3 <= a <= 3
    post: __return__
    """
    n, op, a = conc(n, 1, 3), conc(op, 0, 4), conc(a, -3, 3)
    t = mk(n, cell, False)
    if op == 0:
        r = t[a:]
    elif op == 1:
        r = t[::-1]
    elif op == 2:
        r = t.join(mk(2, cell, False, seed=3))
    elif op == 3:
        r = t.atom_slice([i for i, k in enumerate((True, k0, k1)) if k])
    else:
        r = t.stack(mk(n, cell, False, seed=2))
    have = r.unitcell_lengths is not None
    if (r.unitcell_angles is not None) != have or r._have_unitcell != have or have != cell:
        return False
    if have and (r.unitcell_lengths.shape != (r.n_frames, 3) or r.unitcell_angles.shape != (r.n_frames, 3)):
        return False
    if have and r.n_frames:
        v = r.unitcell_volumes
        return v.shape == (r.n_frames,) and bool(np.all(v > 0)) and r.unitcell_vectors.shape == (r.n_frames, 3, 3)
    return r.unitcell_volumes is None if not have else True


def recenter_after_inplace_edit(n: int, cell: bool, f: int, a: int, k: int, twice: bool) -> bool:
    """
    pre: 1 <= n <= 3 and 0 <= f < n and 0 <= a <= 2 and 0 <= k <= 2
    post: __return__
    """
    # history: centre (traces cached), edit a coordinate IN PLACE through t.xyz[...] (no setter involved), centre again as the
    # documentation prescribes: afterwards the trajectory is centred, its cached traces describe the CURRENT coordinates, and the
    # pre-centred RMSD agrees with the freshly computed one
    n, f, a, k = conc(n, 1, 3), conc(f, 0, 2), conc(a, 0, 2), conc(k, 0, 2)
    t = mk(n, cell, True)
    t.xyz[f, a, k] += np.float32(0.75)
    t.center_coordinates()
    if twice:
        t.center_coordinates()
    x = t.xyz.astype(np.float64)
    centred = bool(np.all(np.abs(x.mean(axis=1)) < 1e-5))
    return centred and inv(t) and rmsd_consistent(t)
