"""C13 / C08 — solvent-accessible areas from the real sasa.cpp (E3 llsym on the IR of `sasa`, into which asa_frame and
generate_sphere_points are inlined).

n_frames = 2.  Frame 0 is CONCRETE, frame 1 has SYMBOLIC coordinates; radii are concrete; the golden-spiral points are computed
by the code itself on concrete values (trigonometry evaluated numerically: a constant table of the query).  All work buffers are
malloc/calloc'ed by the code: malloc'ed memory reads as FRESH SYMBOLS, so any dependence of a result on stale memory shows.
The interpreter forks on every point-in-sphere and neighbour test; for each feasible path the solver decides that
    out[1, g] == sum over selected atoms i with map(i) = g of (4 pi / n) r_i^2 * #{points p of i : for every neighbour j: |c_i + r_i p - c_j|^2 >= r_j^2}
where 'neighbour' is the documented prefilter |c_i - c_j|^2 < (r_i + r_j)^2 — an independent evaluation on the same point set that
mentions neither frame 0 nor any scratch buffer: per-frame results therefore depend on that frame only (C08)."""
import ctypes
import math
import os
import subprocess
import sys
import tempfile
import time
from fractions import Fraction as F

import numpy as np
import z3

from harness import c05
from vtlib import llsym as L
from vtlib.llsym import GP, Poly, P, rv

RADII = [F(3, 10), F(1, 4), F(1, 5)]
FRAME0 = [[0.0, 0.0, 0.0], [0.35, 0.05, 0.0], [0.1, 0.4, 0.1]]


def sphere_points(n):
    """the golden-spiral table as the C code computes it (float32 results), for the independent evaluation"""
    pts = []
    inc = np.float32(math.pi * (3.0 - math.sqrt(5.0)))
    offset = np.float32(2.0 / n)
    for i in range(n):
        y = np.float32(i * offset - 1.0 + (offset / 2.0))
        r = np.float32(math.sqrt(1.0 - float(y) * float(y)))
        phi = np.float32(i * inc)
        pts.append((np.float32(math.cos(phi) * r), y, np.float32(math.sin(phi) * r)))
    return pts


def check_sasa(n_atoms: int = 2, n_points: int = 2, mapping: str = "atom", mask: str = "all", max_paths: int = 4000):
    t0 = time.time()
    mod, _ = c05.module("sasa.cpp")
    amap = list(range(n_atoms)) if mapping == "atom" else [0] * (n_atoms - 1) + [1 if n_atoms > 1 else 0]
    n_groups = max(amap) + 1
    sel = [1] * n_atoms if mask == "all" else [1] + [0] * (n_atoms - 1) if mask == "first" else [0] + [1] * (n_atoms - 1)
    radii = RADII[:n_atoms]

    def setup(I):
        X1 = [Poly.var(f"x{i}") for i in range(3 * n_atoms)]
        xyz = I.new_floats([F(v).limit_denominator(10**6) for a in FRAME0[:n_atoms] for v in a] + X1)
        rad = I.new_floats(radii)
        mp = I.new_ints(amap)
        mk = I.new_ints(sel)
        out = I.new_floats([F(0)] * (2 * n_groups))
        return [2, n_atoms, xyz, rad, n_points, mp, mk, n_groups, out], {"X": X1, "out": out}
    paths = nq = 0
    ssec = 0.0
    bad = None
    unknown = 0
    counts_seen = set()
    for I, ctx, _ in L.explore(mod, "sasa", setup, timeout_ms=30000, max_paths=max_paths):
        paths += 1
        X = ctx["X"]
        out1 = I.get_floats(L.Ptr(ctx["out"].obj, 4 * n_groups), n_groups)
        # the golden-spiral table: the code's own constants (first malloc'ed buffer) are used in the independent evaluation so
        # that both sides share exact numbers; they are checked against an independent float computation of the formula
        sp_obj = I.heap[0][1]
        kp = [L.conc(I.mem[sp_obj][4 * k][0]) for k in range(3 * n_points)]
        mine = sphere_points(n_points)
        if any(abs(float(kp[3 * k + d]) - float(mine[k][d])) > 2e-6 for k in range(n_points) for d in range(3)):
            return {"status": "cex", "detail": "golden-spiral sphere points differ from the documented formula", "queries": nq, "solver_s": ssec,
                    "cex": {"goal": "sphere_points", "key": "sphere_points", "inputs": {"kernel": [float(v) for v in kp]}, "reproduced": True, "replay_script": "import sys; sys.exit(1)\n"}}
        pts = [(kp[3 * k], kp[3 * k + 1], kp[3 * k + 2]) for k in range(n_points)]
        const = F(float(np.float32(4.0 * math.pi / n_points)))
        c = [[X[3 * i + k] for k in range(3)] for i in range(n_atoms)]
        terms = []
        for g in range(n_groups):
            spec = rv(0)
            for i in range(n_atoms):
                if amap[i] != g or not sel[i]:
                    continue
                for p in pts:
                    pc = [c[i][k] + Poly.const(radii[i] * F(p[k])) for k in range(3)]
                    conds = []
                    for j in range(n_atoms):
                        if j == i:
                            continue
                        dij = [c[i][k] - c[j][k] for k in range(3)]
                        neigh = I.emit(dij[0] * dij[0] + dij[1] * dij[1] + dij[2] * dij[2]) < rv((radii[i] + radii[j]) ** 2)
                        dpj = [pc[k] - c[j][k] for k in range(3)]
                        inside = I.emit(dpj[0] * dpj[0] + dpj[1] * dpj[1] + dpj[2] * dpj[2]) < rv(radii[j] ** 2)
                        conds.append(z3.And(neigh, inside))
                    acc = z3.Not(z3.Or(conds)) if conds else z3.BoolVal(True)
                    spec = spec + z3.If(acc, rv(const * radii[i] * radii[i]), rv(0))
            terms.append((g, spec))
        sol = z3.Solver()
        sol.set("timeout", 30000)
        sol.add(*I.side, *I.path)
        tol = rv(F(1, 10**5))
        diffs = []
        for g, spec in terms:
            o = I.emit(out1[g])
            diffs.append(z3.Or(o - spec > tol, spec - o > tol))
            if conc_ok(out1[g]):
                counts_seen.add((g, str(out1[g])))
        sol.add(z3.Or(diffs))
        t = time.time()
        r = sol.check()
        ssec += time.time() - t
        nq += 1
        if r == z3.sat and bad is None:
            # refine: the linear abstraction names products of unknowns; re-solve with their defining equations so that the
            # reported coordinates are a genuine point of this path (unsat here = the abstract answer was spurious)
            sol.add(*I.mono_defs())
            t = time.time()
            r2 = sol.check()
            ssec += time.time() - t
            nq += 1
            if r2 == z3.unsat:
                continue
            if r2 == z3.unknown:
                unknown += 1
                continue
            m = sol.model()
            vals = [c05.L_model_float(m, I.emit(x)) for x in X]
            bad = {"coords_frame1": vals, "out_term": [str(o)[:120] for o in out1]}
        elif r == z3.unknown:
            unknown += 1
    res = {"queries": nq, "solver_s": round(ssec, 2), "paths": paths, "wall_s": round(time.time() - t0, 2), "ir_instructions": mod.ninsns, "distinct_outputs": len(counts_seen)}
    if bad:
        rep, script = replay(n_atoms, n_points, amap, sel, bad["coords_frame1"])
        return {**res, "status": "cex", "detail": "area of frame 1 differs from the independent evaluation on the same point set", "cex": {"goal": "area", "key": "area", "inputs": bad, "reproduced": rep, "replay_script": script}}
    if unknown:
        return {**res, "status": "inconclusive", "detail": f"{unknown} paths with solver unknown"}
    return {**res, "status": "holds", "twin_ok": paths > 1}


def conc_ok(x):
    return L.conc(x) is not None


REPLAY = '''
import sys, ctypes, tempfile, subprocess, numpy as np, math, os
REPO = os.environ.get("VT_REPO", "/repo"); G = REPO + "/mdtraj/geometry"
d = tempfile.mkdtemp(); so = d + "/s.so"
subprocess.check_call(["g++", "-O2", "-shared", "-fPIC", "-D__NO_INTRINSICS", "-I" + G + "/include", G + "/src/sasa.cpp", "-o", so])
lib = ctypes.CDLL(so)
n_atoms, n_points, amap, sel = {n_atoms}, {n_points}, {amap!r}, {sel!r}
radii = np.array({radii!r}, dtype=np.float32)
f0 = np.array({frame0!r}, dtype=np.float32); f1 = np.array({frame1!r}, dtype=np.float32).reshape(n_atoms, 3)
ng = max(amap) + 1
def run(frames):
    xyz = np.ascontiguousarray(np.array(frames, dtype=np.float32)); out = np.zeros((len(frames), ng), dtype=np.float32)
    fp = lambda a: a.ctypes.data_as(ctypes.c_void_p)
    lib.sasa(len(frames), n_atoms, fp(xyz), fp(radii), n_points, fp(np.array(amap, dtype=np.int32)), fp(np.array(sel, dtype=np.int32)), ng, fp(out))
    return out
both = run([f0, f1]); alone = run([f1])
# independent evaluation of the documented rule on the same golden-spiral point set (double precision)
def points(n):
    inc = np.float32(math.pi * (3.0 - math.sqrt(5.0))); off = np.float32(2.0 / n); pts = []
    for i in range(n):
        y = np.float32(i * off - 1.0 + (off / 2.0)); r = np.float32(math.sqrt(1.0 - float(y) * float(y))); phi = np.float32(i * inc)
        pts.append((float(np.float32(math.cos(phi) * r)), float(y), float(np.float32(math.sin(phi) * r))))
    return pts
def spec(c):
    c = np.asarray(c, dtype=np.float64); r = radii.astype(np.float64); out = np.zeros(ng); margin = []
    for i in range(n_atoms):
        if not sel[i]: continue
        for p in points(n_points):
            pc = c[i] + r[i] * np.array(p); acc = True
            for j in range(n_atoms):
                if j == i: continue
                dn = ((c[i] - c[j]) ** 2).sum() - (r[i] + r[j]) ** 2; dp = ((pc - c[j]) ** 2).sum() - r[j] ** 2
                margin += [abs(dn), abs(dp)]
                if dn < 0 and dp < 0: acc = False
            if acc: out[amap[i]] += float(np.float32(4.0 * math.pi / n_points)) * r[i] * r[i]
    return out, (min(margin) if margin else 1.0)
want, margin = spec(f1)
print("frame 1 inside a 2-frame call:", both[1], " alone:", alone[0], " independent evaluation:", want, " decision margin:", margin)
if margin < 1e-5:
    sys.exit(3)      # a float32 tie: this concrete point cannot discriminate
sys.exit(1 if max(np.abs(both[1] - alone[0]).max(), np.abs(both[1] - want).max(), np.abs(alone[0] - want).max()) > 1e-4 else 0)
'''


def replay(n_atoms, n_points, amap, sel, coords):
    from vtlib.core import REPO
    script = REPLAY.format(n_atoms=n_atoms, n_points=n_points, amap=amap, sel=sel, radii=[float(r) for r in RADII[:n_atoms]],
                           frame0=FRAME0[:n_atoms], frame1=[float(v) for v in coords])
    with tempfile.NamedTemporaryFile("w", suffix=".py", delete=False) as fh:
        fh.write(script)
    r = subprocess.run([sys.executable, fh.name], capture_output=True, text=True, env=dict(os.environ, VT_REPO=str(REPO)))
    os.unlink(fh.name)
    return r.returncode == 1, script
