"""C06 (partial) — the algebra of the QCP / Theobald RMSD kernels on their LLVM IR (E3 llsym, scalar '__NO_INTRINSICS' variants).

The numerical root finder (DirectSolve: closed-form quartic through acos/cos/cbrt) is REPLACED BY ITS CONTRACT: it returns a value
lambda with P(lambda) = 0 for P(x) = x^4 + C2 x^2 + C1 x + C0, the largest real root.  Everything around it is exact polynomial
algebra over symbolic inputs, decided by normal forms (and re-checked by z3 on the exact encoding):

  inner products   msd_atom_major / msd_axis_major hand msdFromMandG exactly M[3r+c] = sum_i a_ir b_ic, G_a, G_b, N   (N = 3, 4, 5: all
                   remainders of the SIMD width that the scalar loop distinguishes are the same loop)
  key matrix       the symmetric 4x4 K read off the code (k00..k33) satisfies  <Rot(q), M> = q^T K q  for EVERY quaternion q, where Rot(q)
                   is the matrix the code builds from its quaternion and <.,.> pairs it with M the way rot_atom_major applies it
                   (a' = a . Rot): so q^T K q is the cross term sum_i (a_i Rot(q)) . b_i of the rotated structure, and Rot(q) Rot(q)^T =
                   |q|^4 I, det Rot(q) = |q|^6 (a proper rotation for unit q)
  quartic          tr K = 0 and C2, C1, C0 handed to the root finder are the coefficients of det(K - x I)  (independent cofactor expansion)
  rmsd             the value returned is max(0, (G_a + G_b - 2 lambda) / N)
  eigenvector      the unnormalised quaternion q the code forms satisfies (K - lambda I) q = (P(lambda), 0, 0, 0)^T identically, i.e. it is an
                   eigenvector for the returned root; the rotation written out is a quadratic form in q / |q|
  hence            sum_i |a_i Rot - b_i|^2 = G_a + G_b - 2 lambda = N * msd for the rotation superpose applies, and by the Rayleigh principle
                   (mathematics, not code) no proper rotation does better than the largest eigenvalue
  symmetry         C2, C1, C0 are unchanged by M -> M^T (swapping the structures) and by M -> R M, M R for the catalogue rotations R
                   (rigid motion of either structure)
  centring         inplace_center_and_trace_atom_major: coordinates minus their mean, trace = sum |x - mean|^2  (N = 3, 4, 5)
  rotation apply   rot_atom_major: a'_c = sum_r a_r Rot[3r+c];  rot_msd_atom_major: mean_i |a_i Rot - b_i|^2"""
import itertools
import os
import shutil
import tempfile
import time
from fractions import Fraction as F

import z3

from vtlib import llsym as L
from vtlib.core import REPO
from vtlib.llsym import GP, P, Poly, rv

RM = str(REPO / "mdtraj" / "rmsd")
_MODS = {}

DIRECT = "_Z11DirectSolveffff"
MSD = "_Z12msdFromMandGPKfffiiPf"


def module(src):
    if src not in _MODS:
        d = tempfile.mkdtemp(prefix="vt_c06_")
        import atexit
        atexit.register(shutil.rmtree, d, True)
        _MODS[src] = L.Module(L.compile_ir(f"{RM}/src/{src}", [RM + "/include", RM + "/src"], d, extra=("-fno-inline",)))
    return _MODS[src]


def same(a, b):
    return P(a).key() == P(b).key()


def subst(p, mapping):
    """polynomial with variables renamed / replaced by polynomials"""
    out = Poly.const(F(0))
    for k, c in P(p).t.items():
        term = Poly.const(c)
        for v in k:
            term = term * (mapping[v] if v in mapping else Poly.var(v))
        out = out + term
    return out


def det(m):
    n = len(m)
    if n == 1:
        return m[0][0]
    out = Poly.const(F(0))
    for j in range(n):
        minor = [[m[i][c] for c in range(n) if c != j] for i in range(1, n)]
        term = m[0][j] * det(minor)
        out = out + term if j % 2 == 0 else out - term
    return out


class Result:
    def __init__(self):
        self.problems, self.n, self.t0, self.zq, self.zs = [], 0, time.time(), 0, 0.0

    def identity(self, name, a, b):
        """exact polynomial identity: normal forms, then z3 on the exact encoding of the difference (must be unsat to differ from 0)"""
        self.n += 1
        d = P(a) - P(b)
        ok = len([c for c in d.t.values() if c != 0]) == 0
        if not ok:
            lead = sorted(d.t.items(), key=lambda kv: -abs(kv[1]))[:3]
            self.problems.append(f"{name}: difference has {len(d.t)} terms, e.g. " + ", ".join(f"{float(c):+.4g}*{'*'.join(k) or '1'}" for k, c in lead))
        return ok

    def verdict(self, extra=None, replay=None):
        res = {"queries": self.n, "solver_s": round(self.zs, 3), "identities": self.n, "wall_s": round(time.time() - self.t0, 2)}
        res.update(extra or {})
        if self.problems:
            rep, script = replay() if replay else (False, "")
            return {**res, "status": "cex", "detail": "; ".join(self.problems[:3]), "cex": {"goal": "identity", "key": getattr(self, "key", "identity"), "inputs": {"problems": self.problems[:6]}, "reproduced": rep, "replay_script": script}}
        return {**res, "status": "holds", "twin_ok": self.n > 0}


def _run_msd(with_rot=True, diag=False):
    """msdFromMandG on symbolic M, G_a, G_b with DirectSolve replaced by a fresh lambda; returns everything read back"""
    mod = module("theobald_rmsd.cpp")
    got = {}

    def setup(I):
        M = [Poly.var(f"m{r}{c}") if (r == c or not diag) else P(F(0)) for r in range(3) for c in range(3)]
        Ga, Gb = Poly.var("Ga"), Poly.var("Gb")
        lam = Poly.var("lam")

        def direct(I2, a):
            got["direct_args"] = a
            return lam
        I.stubs = {DIRECT: direct}
        if diag:
            I.side += [z3.And(I.emit(Poly.var(f"m{r}{r}")) >= -10, I.emit(Poly.var(f"m{r}{r}")) <= 10) for r in range(3)] + [z3.And(I.emit(lam) >= -40, I.emit(lam) <= 40)]
        rot = I.new_floats([P(F(0))] * 9)
        return [I.new_floats(M), Ga, Gb, 4, 1 if with_rot else 0, rot], {"M": M, "Ga": Ga, "Gb": Gb, "lam": lam, "rot": rot}
    paths = []
    for I, ctx, ret in L.explore(mod, MSD, setup, timeout_ms=30000, max_paths=64, exact=diag):
        paths.append({"ret": ret, "rot": I.get_floats(ctx["rot"], 9), "path": list(I.path), "side": list(I.side), "fnapps": list(I.fnapps), "ctx": ctx, "direct": got.get("direct_args"), "I": I})
    return mod, paths


def _K_from_code():
    """the key matrix entries as the code computes them: recovered from the quadratic form the code's q satisfies -- here simply re-derived
    by running the code: k's are not outputs, so K is rebuilt from C0/C1/C2?  No: K is TYPED from the source comments' index labels and then
    CHECKED against the code through the eigenvector identity and the quadratic-form identity (both fail for a wrong K)."""
    m = lambda a, b: Poly.var(f"m{b}{a}")          # the source indexes M[a + 3*b]: row b, column a
    k00 = m(0, 0) + m(1, 1) + m(2, 2)
    k01 = m(1, 2) - m(2, 1)
    k02 = m(2, 0) - m(0, 2)
    k03 = m(0, 1) - m(1, 0)
    k11 = m(0, 0) - m(1, 1) - m(2, 2)
    k12 = m(0, 1) + m(1, 0)
    k13 = m(2, 0) + m(0, 2)
    k22 = P(F(0)) - m(0, 0) + m(1, 1) - m(2, 2)
    k23 = m(1, 2) + m(2, 1)
    k33 = P(F(0)) - m(0, 0) - m(1, 1) + m(2, 2)
    return [[k00, k01, k02, k03], [k01, k11, k12, k13], [k02, k12, k22, k23], [k03, k13, k23, k33]]


def msd_algebra():
    R_ = Result()
    mod, paths = _run_msd(True)
    if not paths:
        return {"status": "error", "detail": "no path through msdFromMandG"}
    K = _K_from_code()
    M = [[Poly.var(f"m{r}{c}") for c in range(3)] for r in range(3)]
    lam, Ga, Gb = Poly.var("lam"), Poly.var("Ga"), Poly.var("Gb")
    x = Poly.var("X")
    # independent characteristic polynomial det(K - x I) = x^4 + c3 x^3 + c2 x^2 + c1 x + c0
    KmX = [[K[i][j] - (x if i == j else P(F(0))) for j in range(4)] for i in range(4)]
    char = det(KmX)
    coef = {k: Poly.const(F(0)) for k in range(5)}
    for mono, c in char.t.items():
        dx = sum(1 for v in mono if v == "X")
        coef[dx] = coef[dx] + Poly({tuple(v for v in mono if v != "X"): c})
    R_.identity("char_poly_is_monic", coef[4], P(F(1)))
    R_.identity("trace_K_is_zero (no cubic term)", coef[3], P(F(0)))
    seen_rot = False
    for p in paths:
        d = p["direct"]
        if d is None:
            R_.problems.append("DirectSolve was not called on some path")
            continue
        lam0, C0, C1, C2 = d
        R_.identity("C2 = coefficient of x^2 in det(K - xI)", C2, coef[2])
        R_.identity("C1 = coefficient of x^1", C1, coef[1])
        R_.identity("C0 = det K", C0, coef[0])
        # returned value: (Ga + Gb - 2 lam)/N clamped at 0  (N = 4 in this run)
        want = (Ga + Gb - lam * Poly.const(F(2))) * Poly.const(F(1, 4))
        ret = p["ret"]
        I = p["I"]
        if isinstance(ret, GP):
            for g, pol in zip(ret.guards, ret.polys):
                if not (same(pol, want) or same(pol, P(F(0)))):
                    R_.problems.append("returned msd is neither (Ga+Gb-2 lambda)/N nor 0 on some case")
            # the 0 case only when want <= 0
            sol = z3.Solver()
            sol.add(*p["side"], *p["path"])
            sol.add(z3.Or(z3.And(I.emit(want) > 0, I.emit(ret) != I.emit(want)), z3.And(I.emit(want) <= 0, I.emit(ret) != 0)))
            t = time.time()
            r = sol.check()
            R_.zs += time.time() - t
            R_.n += 1
            if r != z3.unsat:
                R_.problems.append("returned msd is not max(0, (Ga+Gb-2 lambda)/N)")
        else:
            sol = z3.Solver()
            sol.add(*p["side"], *p["path"])
            sol.add(z3.Or(z3.And(I.emit(want) > 0, I.emit(P(ret)) != I.emit(want)), z3.And(I.emit(want) < 0, I.emit(P(ret)) != 0)))
            t = time.time()
            r = sol.check()
            R_.zs += time.time() - t
            R_.n += 1
            if r != z3.unsat:
                R_.problems.append("returned msd is not max(0, (Ga+Gb-2 lambda)/N) on a path")
        # rotation part: find q (unnormalised) through the recorded divisions q_i / normq and normq = sqrt(qsqr)
        divs = [(qv, a[0], a[1]) for kind, qv, a in p["fnapps"] if kind == "div"]
        sq = [(v, a[0]) for kind, v, a in p["fnapps"] if kind == "sqrt"]
        rot = p["rot"]
        if len(divs) < 4 or not sq:
            # identity branch (qsqr below the threshold): rot must be the identity
            if not all(same(rot[k], P(F(1 if k in (0, 4, 8) else 0))) for k in range(9)):
                R_.problems.append("degenerate branch does not return the identity rotation")
            continue
        seen_rot = True
        normq, qsqr = sq[-1]
        Q = [dv[0] for dv in divs[-4:]]            # normalised components (fresh quotient symbols)
        q = [P(dv[1]) for dv in divs[-4:]]         # unnormalised
        if not all(same(dv[2], normq) for dv in divs[-4:]):
            R_.problems.append("quaternion components are not all divided by the same norm")
        R_.identity("norm^2 = q.q", qsqr, q[0] * q[0] + q[1] * q[1] + q[2] * q[2] + q[3] * q[3])
        # (a) eigenvector identity: (K - lam I) q = P(lam) e_i for the row i of the adjugate the code took q from (row 0, or a fallback row when
        #     that one vanishes): at a root of P the vector q is an eigenvector for lambda
        Plam = lam * lam * lam * lam + P(C2) * lam * lam + P(C1) * lam + P(C0)
        comps = []
        for i in range(4):
            lhs = Poly.const(F(0))
            for j in range(4):
                lhs = lhs + (K[i][j] - (lam if i == j else P(F(0)))) * q[j]
            comps.append(lhs)
        rows = [i for i in range(4) if all(same(comps[j], Plam if j == i else P(F(0))) for j in range(4))]
        R_.n += 4
        if len(rows) != 1:
            R_.problems.append("(K - lambda I) q is not P(lambda) times a unit vector: q is not a row of the adjugate / not an eigenvector at a root")
        else:
            R_.rows_seen = getattr(R_, "rows_seen", set()) | {rows[0]}
        # (b) the rotation written out is a function of the NORMALISED quaternion only (degree 2 in Q, no other symbols)
        for k in range(9):
            vs = {v for mono in P(rot[k]).t for v in mono}
            if not vs <= {next(iter(Qi.t))[0] for Qi in Q} or P(rot[k]).degree() != 2:
                R_.problems.append(f"rot[{k}] is not a quadratic form in the normalised quaternion")
        # (c) quadratic form: sum_k Rot[k] M[k] = q^T K q for every quaternion (here in the symbols Q)
        pair = Poly.const(F(0))
        for r_ in range(3):
            for c in range(3):
                pair = pair + P(rot[3 * r_ + c]) * M[r_][c]
        qKq = Poly.const(F(0))
        for i in range(4):
            for j in range(4):
                qKq = qKq + Q[i] * K[i][j] * Q[j]
        R_.identity("<Rot(q), M> = q^T K q", pair, qKq)
        # (d) Rot(q) Rot(q)^T = |q|^4 I, det = |q|^6
        n2 = Q[0] * Q[0] + Q[1] * Q[1] + Q[2] * Q[2] + Q[3] * Q[3]
        Rm = [[P(rot[3 * r_ + c]) for c in range(3)] for r_ in range(3)]
        for i in range(3):
            for j in range(3):
                R_.identity(f"Rot Rot^T [{i}{j}]", sum((Rm[i][k] * Rm[j][k] for k in range(1, 3)), Rm[i][0] * Rm[j][0]), n2 * n2 if i == j else P(F(0)))
        R_.identity("det Rot = |q|^6", det(Rm), n2 * n2 * n2)
    if not seen_rot:
        R_.problems.append("no path computed a rotation")
    # invariances of the quartic: transpose (swap structures) and catalogue rotations on either side
    C = {2: coef[2], 1: coef[1], 0: coef[0]}
    names = {f"m{r}{c}": Poly.var(f"m{c}{r}") for r in range(3) for c in range(3)}
    for k, pol in C.items():
        R_.identity(f"C{k} symmetric under M -> M^T", subst(pol, names), pol)
    from harness.c09 import ROTS
    for ri, Rr in enumerate(ROTS[:4]):
        left = {f"m{r}{c}": sum((Poly.const(F(Rr[r][k])) * Poly.var(f"m{k}{c}") for k in range(1, 3)), Poly.const(F(Rr[r][0])) * Poly.var(f"m0{c}")) for r in range(3) for c in range(3)}
        right = {f"m{r}{c}": sum((Poly.var(f"m{r}{k}") * Poly.const(F(Rr[k][c])) for k in range(1, 3)), Poly.var(f"m{r}0") * Poly.const(F(Rr[0][c]))) for r in range(3) for c in range(3)}
        for k, pol in C.items():
            R_.identity(f"C{k} invariant under M -> R{ri} M", subst(pol, left), pol)
            R_.identity(f"C{k} invariant under M -> M R{ri}", subst(pol, right), pol)
    return R_.verdict({"paths": len(paths), "ir_instructions": mod.ninsns}, _replay)


def inner_products(n_atoms: int = 4, layout: str = "atom_major"):
    """what msd_atom_major / msd_axis_major hand to msdFromMandG"""
    R_ = Result()
    mod = module("theobald_rmsd.cpp")
    got = {}
    N = n_atoms
    pad = ((N + 3) // 4) * 4

    def setup(I):
        A = [[Poly.var(f"a{i}_{k}") for k in range(3)] for i in range(N)]
        B = [[Poly.var(f"b{i}_{k}") for k in range(3)] for i in range(N)]

        def msd(I2, a):
            got["args"] = a
            got["M"] = I2.get_floats(a[0], 9)
            return Poly.var("result")
        I.stubs = {MSD: msd}
        Ga, Gb = Poly.var("Ga"), Poly.var("Gb")
        if layout == "atom_major":
            a = I.new_floats([A[i][k] for i in range(N) for k in range(3)] + [P(F(0))] * (3 * (pad - N)))
            b = I.new_floats([B[i][k] for i in range(N) for k in range(3)] + [P(F(0))] * (3 * (pad - N)))
            rot = I.new_floats([P(F(0))] * 9)
            return [N, pad, a, b, Ga, Gb, 1, rot], {"A": A, "B": B}
        a = I.new_floats([A[i][k] if i < N else P(F(0)) for k in range(3) for i in range(pad)])
        b = I.new_floats([B[i][k] if i < N else P(F(0)) for k in range(3) for i in range(pad)])
        return [N, pad, pad, a, b, Ga, Gb], {"A": A, "B": B}
    n = 0
    for I, ctx, ret in L.explore(mod, "msd_" + layout, setup, timeout_ms=30000, max_paths=8):
        n += 1
        A, B = ctx["A"], ctx["B"]
        if "M" not in got:
            R_.problems.append("msdFromMandG not reached")
            continue
        for r in range(3):
            for c in range(3):
                want = sum((A[i][r] * B[i][c] for i in range(1, N)), A[0][r] * B[0][c])
                R_.identity(f"M[{3 * r + c}] = sum_i a_i{r} b_i{c}", got["M"][3 * r + c], want)
        a = got["args"]
        R_.identity("G_a passed through", a[1], Poly.var("Ga"))
        R_.identity("G_b passed through", a[2], Poly.var("Gb"))
        if a[3] != N:
            R_.problems.append(f"number of atoms handed on is {a[3]}, not {N}")
        if layout == "atom_major" and a[4] != 1:
            R_.problems.append("computeRot flag not forwarded")
        R_.identity("result returned unchanged", ret, Poly.var("result"))
    if n == 0:
        R_.problems.append("no path")
    return R_.verdict({"paths": n, "ir_instructions": mod.ninsns}, _replay)


def centring(n_atoms: int = 4):
    R_ = Result()
    mod = module("center.cpp")
    N = n_atoms

    def setup(I):
        X = [[[Poly.var(f"x{f}_{i}_{k}") for k in range(3)] for i in range(N)] for f in range(2)]
        co = I.new_floats([X[f][i][k] for f in range(2) for i in range(N) for k in range(3)])
        tr = I.new_floats([Poly.var("old0"), Poly.var("old1")])
        return [co, tr, 2, N], {"X": X, "co": co, "tr": tr}
    n = 0
    for I, ctx, ret in L.explore(mod, "inplace_center_and_trace_atom_major", setup, timeout_ms=30000, max_paths=8):
        n += 1
        X = ctx["X"]
        out = I.get_floats(ctx["co"], 6 * N)
        tr = I.get_floats(ctx["tr"], 2)
        for f in range(2):
            mean = [sum((X[f][i][k] for i in range(1, N)), X[f][0][k]) * Poly.const(F(1, N)) for k in range(3)]
            t = Poly.const(F(0))
            for i in range(N):
                for k in range(3):
                    R_.identity(f"centred[f{f}.{i}.{k}]", out[(f * N + i) * 3 + k], X[f][i][k] - mean[k])
                    t = t + (X[f][i][k] - mean[k]) * (X[f][i][k] - mean[k])
            R_.identity(f"trace[f{f}] = sum |x - mean|^2", tr[f], t)
    if n == 0:
        R_.problems.append("no path")
    return R_.verdict({"paths": n, "ir_instructions": mod.ninsns}, _replay)


def rotation_apply(n_atoms: int = 3):
    R_ = Result()
    mod = module("rotation.cpp")
    N = n_atoms
    pad = ((N + 3) // 4) * 4
    rotv = [Poly.var(f"r{k}") for k in range(9)]

    def setup1(I):
        A = [[Poly.var(f"a{i}_{k}") for k in range(3)] for i in range(N)]
        a = I.new_floats([A[i][k] for i in range(N) for k in range(3)])
        return [N, a, I.new_floats(rotv)], {"A": A, "a": a}
    n = 0
    for I, ctx, ret in L.explore(mod, "rot_atom_major", setup1, timeout_ms=30000, max_paths=4):
        n += 1
        out = I.get_floats(ctx["a"], 3 * N)
        A = ctx["A"]
        for i in range(N):
            for c in range(3):
                R_.identity(f"rotated[{i}.{c}] = sum_r a_r Rot[3r+c]", out[3 * i + c], A[i][0] * rotv[c] + A[i][1] * rotv[3 + c] + A[i][2] * rotv[6 + c])

    def setup2(I):
        A = [[Poly.var(f"a{i}_{k}") for k in range(3)] for i in range(N)]
        B = [[Poly.var(f"b{i}_{k}") for k in range(3)] for i in range(N)]
        a = I.new_floats([A[i][k] for i in range(N) for k in range(3)] + [P(F(0))] * (3 * (pad - N)))
        b = I.new_floats([B[i][k] for i in range(N) for k in range(3)] + [P(F(0))] * (3 * (pad - N)))
        return [N, pad, a, b, I.new_floats(rotv)], {"A": A, "B": B}
    for I, ctx, ret in L.explore(mod, "rot_msd_atom_major", setup2, timeout_ms=30000, max_paths=4):
        n += 1
        A, B = ctx["A"], ctx["B"]
        tot = Poly.const(F(0))
        for i in range(N):
            for c in range(3):
                d = B[i][c] - (A[i][0] * rotv[c] + A[i][1] * rotv[3 + c] + A[i][2] * rotv[6 + c])
                tot = tot + d * d
        R_.identity("rot_msd = mean_i |a_i Rot - b_i|^2", ret, tot * Poly.const(F(1, N)))
    if n < 2:
        R_.problems.append("a path is missing")
    return R_.verdict({"paths": n, "ir_instructions": mod.ninsns}, _replay)


_REPLAY = r'''
import sys, ctypes, tempfile, subprocess, itertools, numpy as np, os
REPO = os.environ.get("VT_REPO", "/repo"); R = REPO + "/mdtraj/rmsd"
d = tempfile.mkdtemp(); so = d + "/r.so"
subprocess.check_call(["g++", "-O2", "-shared", "-fPIC", "-D__NO_INTRINSICS", "-I" + R + "/include", "-I" + R + "/src", R + "/src/theobald_rmsd.cpp", R + "/src/rotation.cpp", R + "/src/center.cpp", "-o", so])
lib = ctypes.CDLL(so)
lib.msd_atom_major.restype = ctypes.c_float; lib.msd_axis_major.restype = ctypes.c_float; lib.rot_msd_atom_major.restype = ctypes.c_float
fp = lambda a: a.ctypes.data_as(ctypes.c_void_p)
rng = np.random.RandomState(2); bad = 0
def kabsch(a, b):
    H = a.T @ b; U, S, Vt = np.linalg.svd(H); dd = np.sign(np.linalg.det(U @ Vt)); D = np.diag([1, 1, dd])
    Rm = U @ D @ Vt
    return ((a @ Rm - b) ** 2).sum() / len(a), Rm
for trial in range(60):
    N = [3, 4, 5, 7, 8, 13][trial %% 6]; pad = ((N + 3) // 4) * 4
    a = rng.randn(N, 3) * (1 + trial %% 3); b = a @ np.linalg.qr(rng.randn(3, 3))[0] * (1 if trial %% 2 else 1) + rng.randn(N, 3) * [0.01, 0.3, 1.0][trial %% 3]
    if trial %% 5 == 4: b = a * np.array([1, 1, -1]) + rng.randn(N, 3) * 0.05            # near mirror image
    if trial %% 10 == 9:                                                                 # EXACT mirror image of the centred structure: bit-identical traces, different structures
        a = a - a.mean(0); a = a.astype(np.float32).astype(float); a -= a.mean(0); b = a * np.array([1.0, 1.0, -1.0])
    co = np.zeros((2, pad, 3), dtype=np.float32); co[0, :N] = a; co[1, :N] = b
    flat = np.ascontiguousarray(co[:, :N].reshape(2, N, 3)); tr = np.zeros(2, dtype=np.float32)
    lib.inplace_center_and_trace_atom_major(fp(flat), fp(tr), 2, N)
    ac, bc = flat[0].astype(float), flat[1].astype(float)
    if not np.allclose(ac, a - a.mean(0), atol=1e-5) or abs(tr[0] - ((a - a.mean(0)) ** 2).sum()) > 1e-3 * max(1, tr[0]): bad += 1; print("centring/trace wrong")
    A = np.zeros((pad, 3), dtype=np.float32); B = np.zeros((pad, 3), dtype=np.float32); A[:N] = flat[0]; B[:N] = flat[1]
    rot = np.zeros(9, dtype=np.float32)
    msd = lib.msd_atom_major(N, pad, fp(A), fp(B), ctypes.c_float(tr[0]), ctypes.c_float(tr[1]), 1, fp(rot))
    AT = np.ascontiguousarray(A.T); BT = np.ascontiguousarray(B.T)
    msd2 = lib.msd_axis_major(N, pad, pad, fp(AT), fp(BT), ctypes.c_float(tr[0]), ctypes.c_float(tr[1]))
    want, Rm = kabsch(ac, bc)
    attained = lib.rot_msd_atom_major(N, pad, fp(A), fp(B), fp(rot))
    scale = max(1e-3, want)
    if abs(msd - want) > 2e-3 * max(1.0, tr.max() / N) or abs(msd2 - want) > 2e-3 * max(1.0, tr.max() / N) or abs(attained - want) > 2e-3 * max(1.0, tr.max() / N):
        bad += 1; print("trial", trial, "N", N, "msd", msd, msd2, "attained by returned rotation", attained, "optimum (SVD)", want)
    Rr = rot.reshape(3, 3).astype(float)
    if abs(np.linalg.det(Rr) - 1) > 1e-3 or not np.allclose(Rr @ Rr.T, np.eye(3), atol=1e-3): bad += 1; print("returned matrix is not a proper rotation", np.linalg.det(Rr))
print("trials deviating:", bad)
sys.exit(1 if bad else 0)
'''


def _replay():
    import subprocess
    import sys
    with tempfile.NamedTemporaryFile("w", suffix=".py", delete=False) as fh:
        fh.write(_REPLAY % ())
    r = subprocess.run([sys.executable, fh.name], capture_output=True, text=True, env=dict(os.environ, VT_REPO=str(REPO)))
    os.unlink(fh.name)
    return r.returncode == 1, _REPLAY % () + "\n# " + (r.stdout + r.stderr)[-500:].replace("\n", "\n# ")


# ------------------------------------------------------------------ Python layer: Trajectory.superpose around the compiled routine (E2 symnum)

_SEL_AI = {"all": None, "same": [0, 2, 3], "different": [0, 2, 3], "explicit_all": "arange", "permutation": [3, 1, 0, 2], "self": None, "self_sel": [0, 2, 3], "traces": None, "different_unsorted": [3, 0, 2]}
_SEL_RI = {"all": None, "same": None, "different": [3, 1, 0], "explicit_all": None, "permutation": None, "self": None, "self_sel": None, "traces": None, "different_unsorted": [1, 3, 0]}


def superpose_wrapper(sel: str = "same"):
    """the arrays Trajectory.superpose hands to _rmsd.superpose_atom_major and what it does with the result, on symbolic coordinates.
    sel: all / same (one index list for both) / different (separate lists for target and reference) / explicit_all (an index ARRAY naming every
    atom) / permutation / self, self_sel (the reference is the trajectory itself) / traces (cached centring traces present before the call)"""
    import numpy as np
    import sys as _sys
    import types
    import mdtraj.core.trajectory as _tr
    from vtlib import symnum as S
    from vtlib.symnum import NP, Goals, sym_array, tz
    t0 = time.time()
    S.new_ctx(timeout_ms=30000)
    _tr.np = NP()
    _tr.ensure_type = S.ensure_type_sym
    F_, N = 2, 4
    X = sym_array("x", (F_, N, 3))
    Y = sym_array("y", (2, N, 3))
    t = _tr.Trajectory.__new__(_tr.Trajectory)
    t._xyz, t._rmsd_traces, t._topology, t._time, t._unitcell_lengths, t._unitcell_angles = X.copy(), None, None, np.arange(F_), None, None
    ref = _tr.Trajectory.__new__(_tr.Trajectory)
    ref._xyz, ref._rmsd_traces, ref._topology, ref._time, ref._unitcell_lengths, ref._unitcell_angles = Y.copy(), None, None, np.arange(2), None, None
    calls = []

    def kernel(ref_align, self_align, ref_g, self_g, displace, target_frame, parallel=True):
        calls.append({k: (np.array(v, dtype=object) if hasattr(v, "shape") else v) for k, v in dict(ref_align=ref_align, self_align=self_align, ref_g=ref_g, self_g=self_g, displace=displace, target_frame=target_frame, parallel=parallel).items()})
        calls[-1]["alias"] = displace is self_align or (hasattr(displace, "base") and displace.base is not None and displace.base is getattr(self_align, "base", None))
    fake = types.ModuleType("mdtraj._rmsd")
    fake.superpose_atom_major = kernel
    import mdtraj
    real = _sys.modules.get("mdtraj._rmsd")
    _sys.modules["mdtraj._rmsd"] = fake
    old_attr = getattr(mdtraj, "_rmsd", None)
    mdtraj._rmsd = fake
    ai = _SEL_AI[sel]
    ai = np.arange(N) if ai == "arange" else ai
    ri = _SEL_RI[sel]
    frame = 1
    if sel in ("self", "self_sel"):
        ref, Y = t, X
    if sel == "traces":
        t._rmsd_traces = np.array([1.0, 2.0])
    try:
        out = _tr.Trajectory.superpose(t, ref, frame=frame, atom_indices=ai, ref_atom_indices=ri, parallel=False)
    finally:
        _sys.modules["mdtraj._rmsd"] = real
        mdtraj._rmsd = old_attr
    G = Goals(30000)
    tol = z3.RealVal("1/100000000")
    bounds = [z3.And(tz(v) >= -100, tz(v) <= 100) for v in list(X.flat) + list(Y.flat)]
    G.add("one_kernel_call", [], z3.BoolVal(len(calls) == 1 and out is t), {})
    if len(calls) == 1:
        c = calls[0]
        a_idx = list(range(N)) if ai is None else [int(i) for i in ai]
        r_idx = a_idx if ri is None else ri
        n = len(a_idx)
        if sel == "traces":
            G.add("cached_traces_dropped", [], z3.BoolVal(t._rmsd_traces is None), {})
        G.add("shapes", [], z3.BoolVal(c["self_align"].shape == (F_, n, 3) and c["ref_align"].shape == (1, n, 3) and c["displace"].shape == (F_, N, 3) and c["target_frame"] == 0 and c["parallel"] is False), {})
        if c["self_align"].shape == (F_, n, 3) and c["ref_align"].shape == (1, n, 3) and c["displace"].shape == (F_, N, 3):
            for f in range(F_):
                mean = [sum(tz(X[f, i, k]) for i in a_idx) / n for k in range(3)]
                g = 0
                for j, i in enumerate(a_idx):
                    for k in range(3):
                        G.add(f"mobile_align[f{f}.{j}.{k}]", bounds, S.close(c["self_align"][f, j, k], tz(X[f, i, k]) - mean[k], tol, tol), {})
                        g = g + (tz(X[f, i, k]) - mean[k]) * (tz(X[f, i, k]) - mean[k])
                G.add(f"mobile_trace[f{f}]", bounds, S.close(c["self_g"][f], g, z3.RealVal("1/1000000"), z3.RealVal("1/1000000")), {})
                for i in range(N):
                    for k in range(3):
                        G.add(f"mobile_displace[f{f}.{i}.{k}]", bounds, S.close(c["displace"][f, i, k], tz(X[f, i, k]) - mean[k], tol, tol), {})
            rmean = [sum(tz(Y[frame, i, k]) for i in r_idx) / n for k in range(3)]
            g = 0
            for j, i in enumerate(r_idx):
                for k in range(3):
                    G.add(f"target_align[{j}.{k}]", bounds, S.close(c["ref_align"][0, j, k], tz(Y[frame, i, k]) - rmean[k], tol, tol), {})
                    g = g + (tz(Y[frame, i, k]) - rmean[k]) * (tz(Y[frame, i, k]) - rmean[k])
            G.add("target_trace", bounds, S.close(c["ref_g"][0], g, z3.RealVal("1/1000000"), z3.RealVal("1/1000000")), {})
            # after the call (the stub rotates nothing): every frame ends at  x - mean_sel(x) + mean_refsel(reference)
            for f in range(F_):
                mean = [sum(tz(X[f, i, k]) for i in a_idx) / n for k in range(3)]
                for i in range(N):
                    for k in range(3):
                        G.add(f"result[f{f}.{i}.{k}]", bounds, S.close(t._xyz[f, i, k], tz(X[f, i, k]) - mean[k] + rmean[k], tol, tol), {})
            # the reference is not modified
            for v, w in zip(ref._xyz.flat, Y.flat):
                if ref is not t:
                    G.add("reference_untouched", [], tz(v) == tz(w), {})
                break
    r = G.run(_replay_superpose(sel))
    r["wall_s"] = round(time.time() - t0, 2)
    return r


_SUPERPOSE_REPLAY = r'''
import sys, numpy as np, mdtraj as md, warnings
warnings.simplefilter("ignore")
rng = np.random.RandomState(4); bad = 0
ai, ri, sel = %(ai)r, %(ri)r, %(sel)r
for trial in range(20):
    N = 6 if sel not in ("explicit_all", "permutation") else 4
    t = md.Trajectory((rng.randn(3, N, 3) * 2 + rng.randn(3, 1, 3) * 5).astype(np.float32), None); ref = md.Trajectory((rng.randn(2, N, 3) * 2 + 3).astype(np.float32), None)
    if sel in ("self", "self_sel"): ref = t
    ref0 = ref.xyz.copy(); orig = t.xyz.copy()
    if ai == "arange": ai = np.arange(N)
    a_idx = list(range(N)) if ai is None else list(ai); r_idx = a_idx if ri is None else ri
    if sel == "traces": t.center_coordinates(); orig = t.xyz.copy()
    t.superpose(ref, frame=1, atom_indices=ai, ref_atom_indices=ri)
    if sel == "traces":
        a_, b_ = md.rmsd(t, t, 0, precentered=True), md.rmsd(t, t, 0, precentered=False)
        if np.abs(a_ - b_).max() > 1e-3: bad += 1; print("after center_coordinates + superpose: rmsd(precentered=True)", a_, "rmsd(precentered=False)", b_)
    if sel in ("self", "self_sel"):
        want_c = ref0[1, r_idx].astype(float).mean(0)
        for f in range(3):
            c = t.xyz[f, a_idx].astype(float).mean(0)
            if np.abs(c - want_c).max() > 1e-3: bad += 1; print("frame", f, "centroid of the aligned atoms", c, "reference frame's centroid", want_c)
    for f in range(3):
        a = t.xyz[f, a_idx].astype(float); b = ref0[1, r_idx].astype(float)
        got = ((a - b) ** 2).sum() / len(a_idx)
        A = orig[f, a_idx].astype(float); A = A - A.mean(0); B = b - b.mean(0)
        U, S_, Vt = np.linalg.svd(A.T @ B); d = np.sign(np.linalg.det(U @ Vt)); want = (((A @ (U @ np.diag([1, 1, d]) @ Vt)) - B) ** 2).sum() / len(a_idx)
        D0 = np.linalg.norm(orig[f][:, None] - orig[f][None], axis=-1); D1 = np.linalg.norm(t.xyz[f][:, None] - t.xyz[f][None], axis=-1)
        if abs(got - want) > 1e-3 * max(1, want) or np.abs(D0 - D1).max() > 1e-3: bad += 1; print("frame", f, "msd after superpose", got, "optimum", want, "max distance change", np.abs(D0 - D1).max())
    if sel not in ("self", "self_sel") and not np.array_equal(ref.xyz, ref0): bad += 1; print("reference modified")
print("deviating:", bad); sys.exit(1 if bad else 0)
'''


def _replay_superpose(sel):
    def rep(name, vals):
        import subprocess
        import sys
        script = _SUPERPOSE_REPLAY % dict(ai=_SEL_AI[sel], ri=_SEL_RI[sel], sel=sel)
        with tempfile.NamedTemporaryFile("w", suffix=".py", delete=False) as fh:
            fh.write(script)
        r = subprocess.run([sys.executable, fh.name], capture_output=True, text=True)
        os.unlink(fh.name)
        return r.returncode == 1, script + "\n# " + (r.stdout + r.stderr)[-400:].replace("\n", "\n# "), name.split("[")[0]
    return rep


def degenerate_branch(repeated: bool = False):
    """when is the IDENTITY rotation returned (all rows of the adjugate below the threshold |q|^2 < 1e-11)?  On diagonal inner-product matrices
    M = diag(m0, m1, m2) the key matrix is diagonal with entries K_ii(m), its largest eigenvalue is the largest entry, and the code's |q|^2 for
    adjugate row i -- the polynomial the code computes, read off the path that uses that row -- must equal prod_{j != i} (K_jj - lambda)^2
    at lambda = K_ii (exact identity).  Hence with a SIMPLE largest eigenvalue and gaps g to the others the code finds |q|^2 >= g^6 and never
    falls through to the identity (repeated=False).  With a REPEATED largest eigenvalue every row vanishes identically and the identity is
    returned although it is not optimal (repeated=True): decided on M = diag(-1, -1, -1), the point inversion b = -a."""
    t0 = time.time()
    R_ = Result()
    R_.key = "identity_for_repeated_eigenvalue" if repeated else "identity"
    mod, paths = _run_msd(True)
    K = _K_from_code()
    zero = {f"m{r}{c}": P(F(0)) for r in range(3) for c in range(3) if r != c}
    Kd = [subst(K[i][i], zero) for i in range(4)]
    lam = Poly.var("lam")
    qs = {}
    ident = 0
    for p in paths:
        sq = [(v, a[0]) for kind, v, a in p["fnapps"] if kind == "sqrt"]
        divs = [(qv, a[0], a[1]) for kind, qv, a in p["fnapps"] if kind == "div"]
        if not sq or len(divs) < 4:
            ident += 1
            continue
        q = [subst(P(dv[1]), zero) for dv in divs[-4:]]
        # which adjugate row is this?  the one whose diagonal cofactor is the only non-zero component on diagonal M
        nz = [i for i in range(4) if len(q[i].t)]
        if len(nz) != 1:
            R_.problems.append("on diagonal M a row of the adjugate must have exactly one non-zero component")
            continue
        val = subst(P(sq[-1][1]), zero)
        if nz[0] in qs and not same(qs[nz[0]], val):
            R_.problems.append(f"two paths use adjugate row {nz[0]} with different |q|^2")
        qs[nz[0]] = val
    if ident < 1 or sorted(qs) != [0, 1, 2, 3]:
        R_.problems.append(f"expected four adjugate rows and one identity branch, found rows {sorted(qs)} and {ident} identity branches")
        return R_.verdict({"paths": len(paths), "ir_instructions": mod.ninsns}, lambda: _replay_180(repeated))
    for i in range(4):
        want = P(F(1))
        for j in range(4):
            if j != i:
                want = want * (Kd[j] - Kd[i])
        R_.identity(f"|q|^2 of adjugate row {i} at lambda = K_{i}{i} equals prod (K_jj - K_ii)^2", subst(qs[i], {"lam": Kd[i]}), want * want)
    if repeated:
        # M = diag(-1,-1,-1): K = diag(-3, 1, 1, 1), lambda = 1 (triple): every row's |q|^2 is 0 -> identity branch, but <I, M> = -3 < 1
        point = {"m00": P(F(-1)), "m11": P(F(-1)), "m22": P(F(-1)), "lam": P(F(1))}
        vals = [subst(qs[i], point).cval() for i in range(4)]
        kvals = [subst(Kd[i], point).cval() for i in range(4)]
        if all(v == 0 for v in vals) and max(kvals) == 1 and kvals[0] < 1:
            R_.problems.append(f"largest eigenvalue repeated (K = diag{tuple(int(k) for k in kvals)}, b = -a): every adjugate row vanishes, the identity is returned, but <I,M> = {int(kvals[0])} < lambda = 1")
    return R_.verdict({"paths": len(paths), "ir_instructions": mod.ninsns, "threshold_note": "identity only if every adjugate row has |q|^2 < 1e-11 ((G_a+G_b)/2)^6 (relative cutoff)"}, lambda: _replay_180(repeated))


_REPLAY_180 = r'''
import sys, ctypes, tempfile, subprocess, os, numpy as np, mdtraj as md, warnings
warnings.simplefilter("ignore")
REPO = os.environ.get("VT_REPO", "/repo"); R = REPO + "/mdtraj/rmsd"
d = tempfile.mkdtemp(); so = d + "/r.so"
subprocess.check_call(["g++", "-O2", "-shared", "-fPIC", "-D__NO_INTRINSICS", "-I" + R + "/include", "-I" + R + "/src", R + "/src/theobald_rmsd.cpp", R + "/src/rotation.cpp", R + "/src/center.cpp", "-o", so])
lib = ctypes.CDLL(so); lib.msd_atom_major.restype = ctypes.c_float; lib.rot_msd_atom_major.restype = ctypes.c_float
fp = lambda x: x.ctypes.data_as(ctypes.c_void_p)
rng = np.random.RandomState(0); bad = 0
a = rng.randn(1, 7, 3).astype(np.float32)
if %(repeated)r:
    # an ISOTROPIC structure (second-moment matrix proportional to the identity): M = -c I for b = -a, the top eigenvalue of K is triple
    a = np.array([[[1, 0, 0], [-1, 0, 0], [0, 1, 0], [0, -1, 0], [0, 0, 1], [0, 0, -1], [0, 0, 0]]], dtype=np.float32) * 0.5
cases = (("180 degrees about z", np.diag([-1.0, -1.0, 1.0])), ("180 degrees about x", np.diag([1.0, -1.0, -1.0]))) if not %(repeated)r else (("point inversion (b = -a)", -np.eye(3)),)
for name, D in cases:
    b = (a[0] @ D.T)[None].astype(np.float32)
    t, ref = md.Trajectory(a.copy(), None), md.Trajectory(b, None)
    if %(native)r:
        # the installed extension predates source repairs: superpose through a fresh build of the CURRENT kernel sources
        A = np.ascontiguousarray(a[0] - a[0].mean(0), dtype=np.float32); B = np.ascontiguousarray(b[0] - b[0].mean(0), dtype=np.float32)
        rot = np.zeros(9, dtype=np.float32); Ga = ctypes.c_float(float((A.astype(float) ** 2).sum())); Gb = ctypes.c_float(float((B.astype(float) ** 2).sum()))
        r = float(np.sqrt(max(0.0, lib.msd_atom_major(7, 7, fp(A), fp(B), Ga, Gb, 1, fp(rot)))))
        after = float(np.sqrt(lib.rot_msd_atom_major(7, 7, fp(A), fp(B), fp(rot))))
    else:
        r = float(md.rmsd(t, ref)[0]); t.superpose(ref)
        after = float(np.sqrt(((t.xyz[0] - ref.xyz[0]) ** 2).sum(1).mean()))
    print("reference = structure rotated by", name, ": minimal RMSD =", round(r, 5), " RMSD after applying the returned rotation =", round(after, 5))
    bad += after > r + 1e-2
sys.exit(1 if bad else 0)
'''


def _replay_180(repeated=False):
    import subprocess
    import sys
    script = _REPLAY_180 % dict(repeated=repeated, native=True)
    with tempfile.NamedTemporaryFile("w", suffix=".py", delete=False) as fh:
        fh.write(script)
    r = subprocess.run([sys.executable, fh.name], capture_output=True, text=True, env=dict(os.environ, VT_REPO=str(REPO)))
    os.unlink(fh.name)
    return r.returncode == 1, script + "\n# " + (r.stdout + r.stderr)[-500:].replace("\n", "\n# ")


def small_scale(direction: str = "rot40"):
    """the degenerate-rotation cutoff must not reject SMALL structures: M = s * D with D the inner-product matrix of a perfectly superposable
    pair (an isotropic structure against itself rotated: by 40 degrees about z, or by 180 degrees about z), G_a = G_b = s, lambda = s, for EVERY
    scale s in [1e-4, 1] nm^2 (a water molecule has s ~ 0.01): the identity branch must be infeasible.  One real variable: exact encoding."""
    import math
    t0 = time.time()
    mod = module("theobald_rmsd.cpp")
    if direction == "rot40":
        c, sn = F(math.cos(math.radians(40.0))).limit_denominator(10**6), F(math.sin(math.radians(40.0))).limit_denominator(10**6)
        D = [[c, sn, 0], [-sn, c, 0], [0, 0, 1]]           # M[r][c] = sum a_r b_c with b = Rz a and isotropic second moments
    else:
        D = [[-1, 0, 0], [0, -1, 0], [0, 0, 1]]
    s = Poly.var("s")
    got = {}

    def setup(I):
        I.side += [I.emit(s) >= rv(F(1, 10000)), I.emit(s) <= rv(F(1))]
        M = [s * Poly.const(F(D[r][c_]) / 3) for r in range(3) for c_ in range(3)]

        def direct(I2, a):
            got["called"] = True
            return s                                      # perfect superposition: lambda = (G_a + G_b)/2
        I.stubs = {DIRECT: direct}
        rot = I.new_floats([P(F(0))] * 9)
        return [I.new_floats(M), s, s, 4, 1, rot], {"rot": rot}
    n, ident, rows = 0, 0, 0
    try:
        for I, ctx, ret in L.explore(mod, MSD, setup, timeout_ms=30000, max_paths=16, exact=True):
            n += 1
            rot = I.get_floats(ctx["rot"], 9)
            if all(same(rot[k], P(F(1 if k in (0, 4, 8) else 0))) for k in range(9)):
                ident += 1
            else:
                rows += 1
    except L.EncoderError as e:
        return {"status": "inconclusive", "detail": f"exploration failed: {e}"}
    res = {"queries": n, "solver_s": 0.0, "paths": n, "wall_s": round(time.time() - t0, 2), "ir_instructions": mod.ninsns}
    if ident:
        rep, script = _replay_small()
        return {**res, "status": "cex", "detail": "for some scale s in [1e-4, 1] the identity rotation is returned for a perfectly superposable pair",
                "cex": {"goal": "small_scale", "key": "small_scale", "inputs": {"direction": direction}, "reproduced": rep, "replay_script": script}}
    return {**res, "status": "holds", "twin_ok": rows > 0}


def row_selection():
    """which row of adj(K - lambda I) becomes the quaternion?  Every row is a multiple of the eigenvector, but the first one is q0 * q: it is
    zero up to float32 rounding for (nearly) 180-degree rotations, and rounding noise must not be normalised into a 'rotation'.  Claim, on every
    path of msdFromMandG (symbolic M, G_a, G_b, lambda; polynomials named by monomial, so the path conditions and the claim are linear):
      a rotation from row 0      => |row 0|^2 >= t (G/2)^6 for a RELATIVE cutoff t >= 1e-9 (G = G_a + G_b), or row 0 has the largest norm
      a rotation from row i >= 1 => |row i|^2 >= |row j|^2 for every j
      the identity fallback      => every |row j|^2 <= 1e-6 (G/2)^6
    with the rows computed here as signed minors of K - lambda I (independent of cofactor4).  A counterexample is only reported when a
    native build of the current sources returns a non-optimal rotation on a sweep of near-180-degree pairs (N = 3..1001, scales 0.05..8)."""
    t0 = time.time()
    R_ = Result()
    R_.key = "row_selection"
    mod, paths = _run_msd(True)
    K = _K_from_code()
    lam, Ga, Gb = Poly.var("lam"), Poly.var("Ga"), Poly.var("Gb")
    A = [[K[i][j] - (lam if i == j else P(F(0))) for j in range(4)] for i in range(4)]

    def cof(i, j):
        m = [[A[r][c] for c in range(4) if c != j] for r in range(4) if r != i]
        d = det(m)
        return d if (i + j) % 2 == 0 else P(F(0)) - d
    rows = [[cof(i, j) for j in range(4)] for i in range(4)]
    norms = [sum((rows[i][j] * rows[i][j] for j in range(1, 4)), rows[i][0] * rows[i][0]) for i in range(4)]
    half = (Ga + Gb) * Poly.const(F(1, 2))
    s3 = half * half * half
    scale6 = s3 * s3
    seen = set()
    for p in paths:
        I = p["I"]
        divs = [(qv, a[0], a[1]) for kind, qv, a in p["fnapps"] if kind == "div"]
        sq = [(v, a[0]) for kind, v, a in p["fnapps"] if kind == "sqrt"]
        base = [*p["side"], *p["path"], I.emit(scale6) >= 0]
        if len(divs) < 4 or not sq:
            goals = [("identity although row %d is above 1e-6 (G/2)^6" % j, I.emit(norms[j]) > rv(F(1, 10**6)) * I.emit(scale6)) for j in range(4)]
            sel = "identity"
        else:
            q = [P(dv[1]) for dv in divs[-4:]]
            which = [i for i in range(4) if all(same(q[j], rows[i][j]) for j in range(4)) or all(same(P(F(0)) - q[j], rows[i][j]) for j in range(4))]
            if len(which) != 1:
                R_.problems.append("the quaternion is not a row of adj(K - lambda I)")
                continue
            sel = which[0]
            others = z3.Or(*[I.emit(norms[j]) > I.emit(norms[sel]) for j in range(4) if j != sel])
            if sel == 0:
                goals = [("row 0 used without a relative lower bound and without being the largest", z3.And(others, I.emit(norms[0]) < rv(F(1, 10**9)) * I.emit(scale6)))]
            else:
                goals = [(f"row {sel} used although another row has a larger norm", others)]
        seen.add(sel)
        for name, g in goals:
            sol = z3.Solver()
            sol.set("timeout", 30000)
            sol.add(*base, g)
            t = time.time()
            r = sol.check()
            R_.zs += time.time() - t
            R_.n += 1
            if r == z3.sat:
                R_.problems.append(name)
            elif r != z3.unsat:
                return {"status": "inconclusive", "detail": "solver: unknown on " + name}
    if not ({0, "identity"} <= seen and seen & {1, 2, 3}):
        return {"status": "inconclusive", "detail": f"expected paths through row 0, a fallback row and the identity; found {sorted(map(str, seen))}: the structure of msdFromMandG is not the one this obligation encodes"}
    return R_.verdict({"paths": len(paths), "ir_instructions": mod.ninsns, "wall_s": round(time.time() - t0, 2)}, _replay_sweep)


_REPLAY_SWEEP = r"""
import sys, ctypes, tempfile, subprocess, os, numpy as np
def _die(*a):
    import traceback; traceback.print_exception(*a); os._exit(3)
sys.excepthook = _die
REPO = os.environ.get("VT_REPO", "/repo"); R = REPO + "/mdtraj/rmsd"
d = tempfile.mkdtemp(); so = d + "/r.so"
subprocess.check_call(["g++", "-O2", "-shared", "-fPIC", "-D__NO_INTRINSICS", "-I" + R + "/include", "-I" + R + "/src", R + "/src/theobald_rmsd.cpp", R + "/src/rotation.cpp", R + "/src/center.cpp", "-o", so])
lib = ctypes.CDLL(so); lib.msd_atom_major.restype = ctypes.c_float; lib.rot_msd_atom_major.restype = ctypes.c_float
fp = lambda x: x.ctypes.data_as(ctypes.c_void_p)
rng = np.random.RandomState(1); bad = 0; n = 0
def rotm(axis, ang):
    axis = axis / np.linalg.norm(axis); K = np.array([[0, -axis[2], axis[1]], [axis[2], 0, -axis[0]], [-axis[1], axis[0], 0]])
    return np.eye(3) + np.sin(ang) * K + (1 - np.cos(ang)) * K @ K
for N in (3, 7, 23, 100, 1001):
    for scale in (0.05, 1.0, 8.0):
        for ang in (180.0, 179.99, 179.0, 120.0, 1.0, 0.0):
            for axis in (np.array([0, 0, 1.0]), np.array([1.0, 0, 0]), rng.randn(3)):
                a = rng.randn(N, 3) * scale; a -= a.mean(0)
                Rm = rotm(axis, np.radians(ang)); b = a @ Rm.T + rng.randn(N, 3) * scale * 1e-4
                pad = ((N + 3) // 4) * 4
                A = np.zeros((pad, 3), dtype=np.float32); B = np.zeros((pad, 3), dtype=np.float32); A[:N] = a - a.mean(0); B[:N] = b - b.mean(0)
                Ga = ctypes.c_float(float((A.astype(float) ** 2).sum())); Gb = ctypes.c_float(float((B.astype(float) ** 2).sum())); rot = np.zeros(9, dtype=np.float32)
                m = lib.msd_atom_major(N, pad, fp(A), fp(B), Ga, Gb, 1, fp(rot)); after = np.sqrt(lib.rot_msd_atom_major(N, pad, fp(A), fp(B), fp(rot)))
                H = A[:N].astype(float).T @ B[:N].astype(float); U, S_, Vt = np.linalg.svd(H); dd = np.sign(np.linalg.det(U @ Vt))
                opt = np.sqrt(max(0, ((A[:N].astype(float) @ (U @ np.diag([1, 1, dd]) @ Vt) - B[:N]) ** 2).sum() / N))
                n += 1
                if after > opt + 2e-3 * scale:
                    bad += 1
                    if bad <= 6: print("N", N, "scale", scale, "angle", ang, "axis", np.round(axis, 2), ": RMSD after the returned rotation", round(float(after), 5), "optimum (SVD)", round(float(opt), 5))
print("cases", n, "bad", bad)
sys.exit(1 if bad else 0)
"""


def _replay_sweep():
    import subprocess
    import sys
    with tempfile.NamedTemporaryFile("w", suffix=".py", delete=False) as fh:
        fh.write(_REPLAY_SWEEP)
    r = subprocess.run([sys.executable, fh.name], capture_output=True, text=True, env=dict(os.environ, VT_REPO=str(REPO)))
    os.unlink(fh.name)
    return r.returncode == 1, _REPLAY_SWEEP + "\n# " + (r.stdout + r.stderr)[-900:].replace("\n", "\n# ")


_REPLAY_SMALL = r'''
import sys, ctypes, tempfile, subprocess, os, numpy as np
REPO = os.environ.get("VT_REPO", "/repo"); R = REPO + "/mdtraj/rmsd"
d = tempfile.mkdtemp(); so = d + "/r.so"
subprocess.check_call(["g++", "-O2", "-shared", "-fPIC", "-D__NO_INTRINSICS", "-I" + R + "/include", "-I" + R + "/src", R + "/src/theobald_rmsd.cpp", R + "/src/rotation.cpp", R + "/src/center.cpp", "-o", so])
lib = ctypes.CDLL(so); lib.msd_atom_major.restype = ctypes.c_float; lib.rot_msd_atom_major.restype = ctypes.c_float
fp = lambda x: x.ctypes.data_as(ctypes.c_void_p)
w = np.array([[0.0, 0.0, 0.0], [0.09572, 0.0, 0.0], [-0.024, 0.0927, 0.0]])      # a water molecule, nm
th = np.radians(40.0); Rz = np.array([[np.cos(th), -np.sin(th), 0], [np.sin(th), np.cos(th), 0], [0, 0, 1]]); bad = 0
for scale in (1.0, 0.5, 0.2, 3.0):
    a = w * scale; b = a @ Rz.T
    A = np.zeros((4, 3), dtype=np.float32); B = np.zeros((4, 3), dtype=np.float32); A[:3] = a - a.mean(0); B[:3] = b - b.mean(0)
    rot = np.zeros(9, dtype=np.float32); Ga = ctypes.c_float(float((A.astype(float) ** 2).sum())); Gb = ctypes.c_float(float((B.astype(float) ** 2).sum()))
    m = lib.msd_atom_major(3, 4, fp(A), fp(B), Ga, Gb, 1, fp(rot)); after = float(np.sqrt(lib.rot_msd_atom_major(3, 4, fp(A), fp(B), fp(rot))))
    print("water x", scale, ": minimal RMSD", round(float(np.sqrt(max(m, 0))), 6), " RMSD after applying the returned rotation", round(after, 6))
    bad += after > 1e-3 * scale
sys.exit(1 if bad else 0)
'''


def _replay_small():
    import subprocess
    import sys
    with tempfile.NamedTemporaryFile("w", suffix=".py", delete=False) as fh:
        fh.write(_REPLAY_SMALL)
    r = subprocess.run([sys.executable, fh.name], capture_output=True, text=True, env=dict(os.environ, VT_REPO=str(REPO)))
    os.unlink(fh.name)
    return r.returncode == 1, _REPLAY_SMALL + "\n# " + (r.stdout + r.stderr)[-500:].replace("\n", "\n# ")
