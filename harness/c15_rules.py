"""C15 — the DSSP rule code itself (mdtraj/geometry/src/dssp.cpp) executed symbolically from its clang AST (engine E5, vtlib/cxxsym.py).

Inputs: the backbone H-bond table that kabsch_sander hands over, hbonds[2d], hbonds[2d+1] = the two acceptors of donor residue d, as 2n symbolic
integers constrained only by kabsch_sander's output contract (values in {-1} U [0, n), never d itself nor d-1, second slot only after the first,
slots distinct, skipped residues neither donate nor accept — C14 decides the store step that establishes it); chain ids and the skip mask come
from small catalogues; the bend decision is a free boolean per C-alpha triple.

  bridge_test     _residue_test_bridge as ONE term (all its paths merged) == the bridge definition of Kabsch & Sander 1983 written down here
                  from the paper, for every ordered residue pair
  beta_sheets     calculate_beta_sheets on every feasible path (forks on the symbolic bridge types); per path the solver enumerates the bridge
                  type matrices (by the PAPER's definition) consistent with it, and the codes must equal those of the reference ladder / bulge
                  algorithm (ref_beta, written from the published DSSP algorithm)
  helices         calculate_alpha_helices + calculate_bends likewise against ref_helix (n-turns, minimal helices with H over G/I priorities,
                  turns, bends), starting from every catalogue assignment of strand codes
  bend_angle      calculate_bends on symbolic real C-alpha coordinates: bend <=> the angle between CA(i)-CA(i-2) and CA(i+2)-CA(i) exceeds 70 degrees
  driver          dssp(): skip mask from the index arrays, one kabsch_sander call per frame on that frame's coordinates and a fresh table, the
                  character written for each code at [frame * n_residues + residue]

A counterexample is a concrete H-bond table; it is replayed against a native build of the CURRENT dssp.cpp (the static functions reached through a
shim translation unit that includes the source file)."""
import itertools
import json
import os
import subprocess
import sys
import tempfile
import time
from fractions import Fraction as F

import z3

from vtlib import cxxsym as X
from vtlib.core import REPO

G = REPO / "mdtraj" / "geometry"
LOOP, H_, B_, E_, G_, I_, T_, S_ = range(8)
CHARS = " HBEGITS"
_PROG = {}


def program():
    if "p" not in _PROG:
        _PROG["p"] = X.Program(G / "src" / "dssp.cpp", ["_test_bond", "_residue_test_bridge", "calculate_beta_sheets", "calculate_bends", "calculate_alpha_helices", "dssp"], ["Bridge"],
                               ["helix_flag_t", "bridge_t", "ss_t"], [str(G / "include"), str(G / "src" / "kernels")])
        e = _PROG["p"].enums
        want = {"SS_LOOP": 0, "SS_ALPHAHELIX": 1, "SS_BETABRIDGE": 2, "SS_STRAND": 3, "SS_HELIX_3": 4, "SS_HELIX_5": 5, "SS_TURN": 6, "SS_BEND": 7, "BRIDGE_NONE": 0, "BRIDGE_PARALLEL": 1, "BRIDGE_ANTIPARALLEL": 2}
        _PROG["names"] = {k: e.get(k) for k in want}
    return _PROG["p"]


def code_of(name):
    """the integer the CURRENT source gives an enumerator (the harness never assumes the numbering)"""
    program()
    v = _PROG["names"].get(name)
    if v is None:
        raise X.LowerError("enumerator " + name + " not found")
    return v


# ------------------------------------------------------------------------------------------------------------ inputs and the paper's definitions

def hb_vars(n):
    return [z3.Int(f"hb_{d}_{k}") for d in range(n) for k in range(2)]


def hb_contract(Hv, n, skip):
    cons = []
    for d in range(n):
        s0, s1 = Hv[2 * d], Hv[2 * d + 1]
        for s in (s0, s1):
            cons += [s >= -1, s < n, s != d]
            if d >= 1:
                cons.append(s != d - 1)
            for a in range(n):
                if skip[a]:
                    cons.append(s != a)
        cons += [z3.Implies(s1 >= 0, s0 >= 0), z3.Implies(s0 >= 0, s0 != s1)]
        if skip[d]:
            cons += [s0 == -1, s1 == -1]
    return cons


def hb(Hv, donor, acceptor):
    """Hbond from the N-H of `donor` to the C=O of `acceptor`"""
    return z3.Or(Hv[2 * donor] == acceptor, Hv[2 * donor + 1] == acceptor)


def spec_bridge(Hv, i, j, n, chain):
    """Kabsch & Sander 1983: with Hbond(x, y) = C=O(x) -> N-H(y),
         parallel(i, j)     = [Hbond(i-1, j) and Hbond(j, i+1)] or [Hbond(j-1, i) and Hbond(i, j+1)]
         antiparallel(i, j) = [Hbond(i, j) and Hbond(j, i)]     or [Hbond(i-1, j+1) and Hbond(j-1, i+1)]
       both triplets i-1..i+1 and j-1..j+1 must exist within one chain; parallel is tested first.  Returns a z3 Int term (0 none, 1 parallel, 2 anti)"""
    if not (i - 1 >= 0 and i + 1 < n and j - 1 >= 0 and j + 1 < n and chain[i - 1] == chain[i + 1] and chain[j - 1] == chain[j + 1]):
        return z3.IntVal(0)
    Hb = lambda x, y: hb(Hv, y, x)          # C=O(x) -> N-H(y): donor y, acceptor x
    par = z3.Or(z3.And(Hb(i - 1, j), Hb(j, i + 1)), z3.And(Hb(j - 1, i), Hb(i, j + 1)))
    anti = z3.Or(z3.And(Hb(i, j), Hb(j, i)), z3.And(Hb(i - 1, j + 1), Hb(j - 1, i + 1)))
    return z3.If(par, 1, z3.If(anti, 2, 0))


def pairs_of(n):
    """the residue pairs DSSP examines: both have two neighbours, at least three apart"""
    return [(i, j) for i in range(1, n - 1) for j in range(i + 3, n - 1)]


def ref_beta(n, chain, skip, T, init=None):
    """reference: bridges -> ladders -> bulge-linked ladders -> codes, from the published algorithm (Kabsch & Sander 1983; DSSP 2.2.0)"""
    sec = list(init) if init is not None else [LOOP] * n
    live = sorted((i, j) for (i, j), t in T.items() if t and not skip[i] and not skip[j])
    ladders = []                                     # dict(type, pairs=[(i, j), ...] in order of i)
    where = {}
    for (i, j) in live:
        t = T[(i, j)]
        prev = (i - 1, j - 1) if t == 1 else (i - 1, j + 1)
        if prev in where and where[prev]["type"] == t and where[prev]["pairs"][-1] == prev:
            where[prev]["pairs"].append((i, j))
            where[(i, j)] = where[prev]
        else:
            lad = {"type": t, "pairs": [(i, j)], "ci": chain[i], "born": len(ladders)}
            ladders.append(lad)
            where[(i, j)] = lad
    for lad in ladders:
        lad["I"] = [p[0] for p in lad["pairs"]]
        lad["J"] = sorted(p[1] for p in lad["pairs"])
    ladders.sort(key=lambda l: (l["ci"], l["I"][0]))          # stable, like the insertion sort std::sort uses for short ranges
    a = 0
    while a < len(ladders):
        b = a + 1
        while b < len(ladders):
            A, Bl = ladders[a], ladders[b]
            ibi, iei, jbi, jei = A["I"][0], A["I"][-1], A["J"][0], A["J"][-1]
            ibj, iej, jbj, jej = Bl["I"][0], Bl["I"][-1], Bl["J"][0], Bl["J"][-1]
            ok = A["type"] == Bl["type"] and chain[min(ibi, ibj)] == chain[max(iei, iej)] and chain[min(jbi, jbj)] == chain[max(jei, jej)] and ibj - iei < 6 and not (iei >= ibj and ibi <= iej)
            if ok:
                if A["type"] == 1:
                    link = jbj > jbi and ((jbj - jei < 6 and ibj - iei < 3) or jbj - jei < 3)
                else:
                    link = jbj < jbi and ((jbi - jej < 6 and ibj - iei < 3) or jbi - jej < 3)
                if link:
                    A["I"] = A["I"] + Bl["I"]
                    A["J"] = A["J"] + Bl["J"] if A["type"] == 1 else Bl["J"] + A["J"]
                    del ladders[b]
                    continue
            b += 1
        a += 1
    for lad in ladders:
        code = E_ if len(lad["I"]) > 1 else B_
        for lo, hi in ((lad["I"][0], lad["I"][-1]), (lad["J"][0], lad["J"][-1])):
            for r in range(lo, hi + 1):
                if sec[r] != E_:
                    sec[r] = code
    return sec


def ref_helix(n, chain, skip, turn, bend, init):
    """reference: n-turn(i) = Hbond(i, i+n) within one chain; minimal n-helix = two consecutive n-turns at i-1 and i covering i..i+n-1;
    4-helices first (H), then 3-helices (G) only on residues that are still free or G, then 5-helices (I) on residues free, I or H (pi preferred
    over alpha, DSSP >= 2.1.0 / mdtraj); T for a free residue inside any n-turn; S for a free residue with a bend"""
    sec = list(init)
    st = {k: [bool(turn.get((k, i))) and i + k < n and chain[i] == chain[i + k] for i in range(n)] for k in (3, 4, 5)}
    for i in range(1, n):
        if st[4][i - 1] and st[4][i]:
            for r in range(i, i + 4):
                sec[r] = H_
    for i in range(1, n):
        if st[3][i - 1] and st[3][i] and all(sec[r] in (LOOP, G_) for r in range(i, i + 3)):
            for r in range(i, i + 3):
                sec[r] = G_
    for i in range(1, n):
        if st[5][i - 1] and st[5][i] and all(sec[r] in (LOOP, I_, H_) for r in range(i, i + 5)):
            for r in range(i, i + 5):
                sec[r] = I_
    for i in range(1, n - 1):
        if sec[i] == LOOP and not skip[i]:
            if any(st[k][i - m] for k in (3, 4, 5) for m in range(1, k) if i - m >= 0):
                sec[i] = T_
            elif bend.get(i):
                sec[i] = S_
    return sec


def bend_defined(n, chain, skip):
    return [i for i in range(2, n - 2) if chain[i - 2] == chain[i + 2] and not skip[i - 2] and not skip[i] and not skip[i + 2]]


# ------------------------------------------------------------------------------------------------------------ helpers

def _remap(sec):
    """codes of the current source -> the harness' fixed numbering"""
    names = ["SS_LOOP", "SS_ALPHAHELIX", "SS_BETABRIDGE", "SS_STRAND", "SS_HELIX_3", "SS_HELIX_5", "SS_TURN", "SS_BEND"]
    back = {code_of(nm): k for k, nm in enumerate(names)}
    return [back[int(c)] for c in sec]


def _unmap(sec):
    names = ["SS_LOOP", "SS_ALPHAHELIX", "SS_BETABRIDGE", "SS_STRAND", "SS_HELIX_3", "SS_HELIX_5", "SS_TURN", "SS_BEND"]
    return [code_of(names[c]) for c in sec]


def all_models(solver, terms, cap=64):
    """projected AllSAT: the value tuples `terms` can take under the solver's assertions"""
    out = []
    solver.push()
    while True:
        r = solver.check()
        if r == z3.unsat:
            break
        if r != z3.sat:
            solver.pop()
            return None, None
        m = solver.model()
        vals = [m.eval(t, model_completion=True) for t in terms]
        out.append((vals, m))
        if len(out) > cap:
            solver.pop()
            return None, None
        solver.add(z3.Or(*[t != v for t, v in zip(terms, vals)]) if terms else z3.BoolVal(False))
    solver.pop()
    return out, True


def _ival(v):
    return int(str(v)) if not z3.is_bool(v) else z3.is_true(v)


CHAINS = {"one": lambda n: [0] * n, "two": lambda n: [0] * (n // 2) + [1] * (n - n // 2), "split3": lambda n: [0] * 3 + [1] * (n - 3), "tail": lambda n: [0] * (n - 2) + [1] * 2}
SKIPS = {"none": lambda n: [0] * n, "s2": lambda n: [int(i == 2) for i in range(n)], "mid": lambda n: [int(i == n // 2) for i in range(n)], "last": lambda n: [int(i == n - 2) for i in range(n)]}


# ------------------------------------------------------------------------------------------------------------ obligations

def bridge_test(n: int = 7, chains: str = "one"):
    t0 = time.time()
    P = program()
    chain = CHAINS[chains](n)
    Hv = hb_vars(n)
    base = hb_contract(Hv, n, [0] * n)
    hbl = [X.SInt(v) for v in Hv]
    P.summarised = set()
    q, zs, npaths = 0, 0.0, 0
    for i in range(n):
        for j in range(n):
            if i == j:
                continue
            X.CTX = X.Ctx(20000)
            X.CTX.base = list(base)
            memo = {}
            term = X.summarise(P.env["_residue_test_bridge"], i, j, n, chain, hbl, memo=memo, key="b")
            te = memo.get(("term", "b"), X.tz(term))
            spec = spec_bridge(Hv, i, j, n, chain)
            names = {0: "BRIDGE_NONE", 1: "BRIDGE_PARALLEL", 2: "BRIDGE_ANTIPARALLEL"}
            spec_c = z3.If(spec == 1, code_of(names[1]), z3.If(spec == 2, code_of(names[2]), code_of(names[0])))
            s = z3.Solver()
            s.set("timeout", 20000)
            s.add(*base, te != spec_c)
            t = time.time()
            r = s.check()
            zs += time.time() - t
            q += 1
            if r == z3.sat:
                m = s.model()
                hbv = [int(str(m.eval(v, model_completion=True))) for v in Hv]
                got, want = int(str(m.eval(te, model_completion=True))), int(str(m.eval(spec_c, model_completion=True)))
                rep, script = replay("bridge", n, chain, [0] * n, hbv, extra={"i": i, "j": j, "want": want})
                return {"status": "cex", "queries": q, "solver_s": round(zs, 2), "detail": f"_residue_test_bridge({i}, {j}) = {got} but the paper's definition gives {want} for hbonds {hbv}",
                        "cex": {"goal": "bridge", "key": "bridge", "inputs": {"n": n, "chain": chain, "hbonds": hbv, "i": i, "j": j}, "reproduced": rep, "replay_script": script}}
            if r != z3.unsat:
                return {"status": "inconclusive", "detail": "solver: unknown"}
    return {"status": "holds", "queries": q, "solver_s": round(zs, 2), "wall_s": round(time.time() - t0, 2), "twin_ok": True, "pairs": n * (n - 1)}


def _twin(paths_seen, need):
    return all(paths_seen.get(k) for k in need)


def beta_sheets(n: int = 8, chains: str = "one", skips: str = "none", allowed: str = "all", max_paths: int = 20000):
    """allowed: 'all' or a ';'-separated list of i-j pairs that may be bridged (every other pair is assumed unbridged: a bound on the inputs)"""
    t0 = time.time()
    P = program()
    chain, skip = CHAINS[chains](n), SKIPS[skips](n)
    Hv = hb_vars(n)
    base = hb_contract(Hv, n, skip)
    prs = pairs_of(n)
    spec = {p: spec_bridge(Hv, p[0], p[1], n, chain) for p in prs}
    if allowed != "all":
        ok = {tuple(int(x) for x in a.split("-")) for a in allowed.split(";")}
        base += [spec[p] == 0 for p in prs if p not in ok]
    P.summarised = {"_residue_test_bridge"}
    P.memo = {}
    init = _unmap([LOOP] * n)
    hbl = [X.SInt(v) for v in Hv]

    def run():
        sec = X.Vec(list(init))
        P.env["calculate_beta_sheets"](chain, hbl, X.Vec(list(skip)), n, sec)
        return list(sec.a)
    return _decide("beta", run, base, list(spec.values()), lambda vals: ref_beta(n, chain, skip, {p: _ival(v) for p, v in zip(prs, vals)}), n, chain, skip, Hv, t0, max_paths,
                   need_codes=(E_, B_) if n >= 8 and allowed == "all" and skips == "none" and chains == "one" else ())


def _decide(kind, run, base, proj, ref, n, chain, skip, Hv, t0, max_paths, need_codes=(), extra=None, init=None):
    npaths, nmodels, zs, q = 0, 0, 0.0, 0
    seen_codes = set()
    stats = None
    try:
        for path, sec, ctx, stats in X.explore(run, base, max_paths=max_paths):
            npaths += 1
            if any(X.is_sym(c) for c in sec):
                return {"status": "inconclusive", "detail": "a code is still symbolic at the end of a path"}
            got = _remap(sec)
            s = z3.Solver()
            s.set("timeout", 20000)
            s.add(*ctx.base, *path)
            t = time.time()
            models, ok = all_models(s, proj)
            zs += time.time() - t
            if models is None:
                return {"status": "inconclusive", "detail": "model enumeration: unknown or too many models on one path"}
            q += len(models) + 1
            for vals, m in models:
                nmodels += 1
                want = ref(vals) if extra is None else ref(vals, m)
                seen_codes |= set(want)
                if want != got:
                    hbv = [int(str(m.eval(v, model_completion=True))) for v in Hv]
                    ex = extra(vals, m) if extra else {}
                    rep, script = replay(kind, n, chain, skip, hbv, extra={**ex, "want": want, "init": init})
                    return {"status": "cex", "queries": q, "solver_s": round(zs, 2), "paths": npaths,
                            "detail": f"codes {''.join(CHARS[c] for c in got)!r} but the rules give {''.join(CHARS[c] for c in want)!r} for hbonds {hbv} (chains {chain}, skip {skip})",
                            "cex": {"goal": kind, "key": kind, "inputs": {"n": n, "chain": chain, "skip": skip, "hbonds": hbv, **{k: v for k, v in ex.items() if k != 'xyz'}}, "reproduced": rep, "replay_script": script}}
    except X.OutOfBounds as e:
        return {"status": "cex", "detail": "out-of-bounds access: " + str(e), "cex": {"goal": kind + ".bounds", "key": kind + ".bounds", "inputs": {"n": n, "chain": chain, "skip": skip}, "reproduced": False, "replay_script": ""}}
    except (X.Unsupported, X.LowerError) as e:
        return {"status": "inconclusive", "detail": f"{type(e).__name__}: {e}"}
    res = {"queries": q + (stats["queries"] if stats else 0), "solver_s": round(zs + (stats["solver_s"] if stats else 0.0), 2), "paths": npaths, "models": nmodels, "wall_s": round(time.time() - t0, 2)}
    if npaths == 0 or any(c not in seen_codes for c in need_codes):
        return {**res, "status": "inconclusive", "detail": f"reachability twin failed: codes reached {sorted(seen_codes)}, wanted {list(need_codes)}"}
    return {**res, "status": "holds", "twin_ok": True}


def _coords(n):
    """generic rational C-alpha coordinates (distinct angles everywhere), atoms stored in a scrambled order"""
    pts = [(F(3 * i * i % 7, 2) + i, F((5 * i + 1) % 4, 3) - F(i, 5), F((i * i * i) % 5, 2) + F(i, 7)) for i in range(n)]
    order = [(3 * i + 1) % n if n % 3 else (5 * i + 2) % n for i in range(n)]
    if len(set(order)) != n:
        order = list(range(n - 1, -1, -1))
    xyz = [F(0)] * (3 * n)
    for r in range(n):
        for c in range(3):
            xyz[3 * order[r] + c] = pts[r][c]
    return pts, order, xyz


def _cos(pts, i):
    u = [pts[i - 2][c] - pts[i][c] for c in range(3)]
    v = [pts[i][c] - pts[i + 2][c] for c in range(3)]
    return sum(a * b for a, b in zip(u, v)), sum(a * a for a in u) * sum(b * b for b in v)


INITS = {"loop": lambda n: [LOOP] * n, "strand": lambda n: [E_ if 1 <= i <= 3 else LOOP for i in range(n)], "bridge": lambda n: [B_ if i in (2, n - 3) else LOOP for i in range(n)],
         "allE": lambda n: [E_] * n}


def helices(n: int = 7, chains: str = "one", skips: str = "none", init: str = "loop", max_paths: int = 20000):
    t0 = time.time()
    P = program()
    chain, skip = CHAINS[chains](n), SKIPS[skips](n)
    Hv = hb_vars(n)
    base = hb_contract(Hv, n, skip)
    pts, order, xyz = _coords(n)
    init_codes = INITS[init](n)
    bendvar = {}
    evaluated = []

    class Kappa:
        def __init__(self, c):
            self.c = c

        def __gt__(self, k):
            key = F(self.c)
            evaluated.append(key)
            if key not in bendvar:
                bendvar[key] = z3.Bool(f"bend_{len(bendvar)}")
            return X.SBool(bendvar[key])

    def sqrt_exact(x):
        # the generic coordinates are rational, their norms are not: keep sqrt symbolic-free by returning the SQUARE and squaring the cosine below
        return ("sqrt", F(x))

    def fdiv(a, b):
        if isinstance(b, tuple):
            # cos = a / sqrt(N): represented by sign(a) * a^2 / N (monotone in the cosine), which identifies the triple just as well
            return (1 if a >= 0 else -1) * F(a) * F(a) / b[1]
        return F(a) / F(b)
    turn_terms = {(k, i): hb(Hv, i + k, i) for k in (3, 4, 5) for i in range(n) if i + k < n}
    keys = list(turn_terms)
    refcos = {}
    for i in range(2, n - 2):
        d, N = _cos(pts, i)
        refcos[i] = (1 if d >= 0 else -1) * d * d / N
    P.summarised = {"_test_bond"}
    P.memo = {}
    P.stubs = {"sqrtf": sqrt_exact, "acosf": Kappa}
    P.env["FDIV"] = fdiv
    hbl = [X.SInt(v) for v in Hv]

    def run():
        del evaluated[:]
        sec = X.Vec(_unmap(init_codes))
        P.env["calculate_alpha_helices"]([x for x in xyz], list(order), chain, hbl, X.Vec(list(skip)), n, n, sec)
        return list(sec.a) + [tuple(evaluated)]
    # the bend booleans appear during the run: projection terms are completed per path
    npaths, nmodels, zs, q = 0, 0, 0.0, 0
    seen = set()
    stats = None
    try:
        for path, out, ctx, stats in X.explore(run, base, max_paths=max_paths):
            npaths += 1
            sec, ev = out[:-1], out[-1]
            got = _remap(sec)
            defined = bend_defined(n, chain, skip)
            want_keys = {refcos[i] for i in defined}
            if set(ev) != want_keys:
                return {"status": "cex", "detail": f"calculate_bends evaluated the angle of C-alpha triples {sorted(map(float, set(ev)))} but the rules ask for residues {defined} (cos-keys {sorted(map(float, want_keys))})",
                        "cex": {"goal": "bend_triples", "key": "bend_triples", "inputs": {"n": n, "chain": chain, "skip": skip}, "reproduced": _replay_bend_triples(n, chain, skip), "replay_script": "see harness/c15_rules.py:_replay_bend_triples"}}
            bterms = [bendvar[refcos[i]] for i in defined]
            s = z3.Solver()
            s.set("timeout", 20000)
            s.add(*ctx.base, *path)
            t = time.time()
            models, ok = all_models(s, [turn_terms[k] for k in keys] + bterms, cap=4096)
            zs += time.time() - t
            if models is None:
                return {"status": "inconclusive", "detail": "model enumeration: unknown or too many models on one path"}
            q += len(models) + 1
            for vals, m in models:
                nmodels += 1
                turn = {k: z3.is_true(v) for k, v in zip(keys, vals[:len(keys)])}
                bend = {i: z3.is_true(v) for i, v in zip(defined, vals[len(keys):])}
                want = ref_helix(n, chain, skip, turn, bend, init_codes)
                seen |= set(want)
                if want != got:
                    hbv = [int(str(m.eval(v, model_completion=True))) for v in Hv]
                    rep, script = replay("helix", n, chain, skip, hbv, extra={"want": want, "init": init_codes, "bend": {str(k): v for k, v in bend.items()}})
                    return {"status": "cex", "queries": q, "paths": npaths, "detail": f"codes {''.join(CHARS[c] for c in got)!r} but the rules give {''.join(CHARS[c] for c in want)!r} for hbonds {hbv}, bends {bend} (chains {chain}, skip {skip}, initial {''.join(CHARS[c] for c in init_codes)!r})",
                            "cex": {"goal": "helix", "key": "helix", "inputs": {"n": n, "chain": chain, "skip": skip, "hbonds": hbv, "bend": {str(k): v for k, v in bend.items()}}, "reproduced": rep, "replay_script": script}}
    except X.OutOfBounds as e:
        return {"status": "cex", "detail": "out-of-bounds access: " + str(e), "cex": {"goal": "helix.bounds", "key": "helix.bounds", "inputs": {"n": n}, "reproduced": False, "replay_script": ""}}
    except (X.Unsupported, X.LowerError) as e:
        return {"status": "inconclusive", "detail": f"{type(e).__name__}: {e}"}
    finally:
        P.stubs = {}
        P.env["FDIV"] = X.FDIV
    res = {"queries": q + (stats["queries"] if stats else 0), "solver_s": round(zs + (stats["solver_s"] if stats else 0.0), 2), "paths": npaths, "models": nmodels, "wall_s": round(time.time() - t0, 2)}
    need = {H_, T_} | ({G_} if n >= 5 else set()) | ({I_} if n >= 7 and chains == "one" else set()) if init == "loop" and chains == "one" else set()
    if npaths == 0 or not need <= seen:
        return {**res, "status": "inconclusive", "detail": f"reachability twin failed: codes reached {sorted(seen)}, wanted {sorted(need)}"}
    return {**res, "status": "holds", "twin_ok": True}


# ------------------------------------------------------------------------------------------------------------ native replay

_SHIM = r'''
#include "%(src)s"
void kabsch_sander(const float* xyz, const int* nco_indices, const int* ca_indices, const int* is_proline, const int n_frames, const int n_atoms, const int n_residues, int* hbonds, float* henergies) {}
extern "C" int vt_bridge(int i, int j, int n, const int* chain, const int* hb) { return (int) _residue_test_bridge(i, j, n, chain, hb); }
extern "C" void vt_beta(const int* chain, const int* hb, const int* skip, int n, int* sec) {
    std::vector<int> sk(skip, skip + n); std::vector<ss_t> s(n); for (int k = 0; k < n; k++) s[k] = (ss_t) sec[k];
    calculate_beta_sheets(chain, hb, sk, n, s); for (int k = 0; k < n; k++) sec[k] = (int) s[k]; }
extern "C" void vt_helix(const float* xyz, const int* ca, const int* chain, const int* hb, const int* skip, int n_atoms, int n, int* sec) {
    std::vector<int> sk(skip, skip + n); std::vector<ss_t> s(n); for (int k = 0; k < n; k++) s[k] = (ss_t) sec[k];
    calculate_alpha_helices(xyz, ca, chain, hb, sk, n_atoms, n, s); for (int k = 0; k < n; k++) sec[k] = (int) s[k]; }
extern "C" void vt_codes(int* out) { out[0] = SS_LOOP; out[1] = SS_ALPHAHELIX; out[2] = SS_BETABRIDGE; out[3] = SS_STRAND; out[4] = SS_HELIX_3; out[5] = SS_HELIX_5; out[6] = SS_TURN; out[7] = SS_BEND;
    out[8] = BRIDGE_NONE; out[9] = BRIDGE_PARALLEL; out[10] = BRIDGE_ANTIPARALLEL; }
'''

_REPLAY = r'''
import sys, os, ctypes, tempfile, subprocess, json
def _die(*a):
    import traceback; traceback.print_exception(*a); os._exit(3)
sys.excepthook = _die
REPO = os.environ.get("VT_REPO", "/repo"); G = REPO + "/mdtraj/geometry"
SHIM = %(shim)r
d = tempfile.mkdtemp(); open(d + "/shim.cpp", "w").write(SHIM %% {"src": G + "/src/dssp.cpp"})
subprocess.check_call(["g++", "-O1", "-msse4.1", "-shared", "-fPIC", "-I" + G + "/include", "-I" + G + "/src/kernels", d + "/shim.cpp", "-o", d + "/shim.so"])
lib = ctypes.CDLL(d + "/shim.so")
case = json.loads(%(case)r)
I = lambda xs: (ctypes.c_int * len(xs))(*xs)
codes = I([0] * 11); lib.vt_codes(codes); codes = list(codes)
CH = " HBEGITS"
n, chain, skip, hbv = case["n"], case["chain"], case["skip"], case["hbonds"]
if case["kind"] == "bridge":
    got = lib.vt_bridge(case["i"], case["j"], n, I(chain), I(hbv))
    print("hbonds", hbv, ": _residue_test_bridge(%%d, %%d) =" %% (case["i"], case["j"]), got, " Kabsch & Sander's definition:", case["want"])
    sys.exit(1 if got != case["want"] else 0)
init = case.get("init") or [0] * n
sec = I([codes[c] for c in init])
if case["kind"] == "beta":
    lib.vt_beta(I(chain), I(hbv), I(skip), n, sec)
else:
    import math
    # coordinates that realise the bend pattern: residue i bent <=> the C-alpha trace turns by 90 degrees there, else straight
    bend = {int(k): v for k, v in case.get("bend", {}).items()}
    pos, dirn = [(0.0, 0.0, 0.0)], (1.0, 0.0, 0.0)
    pts = {}
    # place CA(i-2), CA(i), CA(i+2) chains separately for even and odd residues (kappa only relates residues two apart)
    for par in (0, 1):
        p, dvec, turn = (0.0, 5.0 * par, 0.0), (1.0, 0.0, 0.0), 0
        idx = list(range(par, n, 2))
        for q, r in enumerate(idx):
            pts[r] = p
            if q + 1 < len(idx):
                if bend.get(r) and q >= 1:
                    dvec = (0.0, 0.0, 1.0) if dvec == (1.0, 0.0, 0.0) else (1.0, 0.0, 0.0)
                p = (p[0] + dvec[0], p[1] + dvec[1], p[2] + dvec[2])
    # the direction change must happen AT r: rebuild so that the step into r keeps the old direction and the step out of r the new one
    xyz = []
    for r in range(n):
        xyz += list(pts[r])
    if case.get("xyz"):
        xyz = case["xyz"]
    X = (ctypes.c_float * len(xyz))(*xyz)
    lib.vt_helix(X, I(list(range(n))), I(chain), I(hbv), I(skip), n, n, sec)
got = [codes.index(c) for c in sec]
print("hbonds", hbv, "chains", chain, "skip", skip, ": codes", repr("".join(CH[c] for c in got)), " the rules give", repr("".join(CH[c] for c in case["want"])))
sys.exit(1 if got != case["want"] else 0)
'''


def replay(kind, n, chain, skip, hbv, extra=None):
    case = {"kind": kind, "n": n, "chain": chain, "skip": skip, "hbonds": hbv, **(extra or {})}
    script = _REPLAY % {"shim": _SHIM, "case": json.dumps(case)}
    with tempfile.NamedTemporaryFile("w", suffix=".py", delete=False) as fh:
        fh.write(script)
    r = subprocess.run([sys.executable, fh.name], capture_output=True, text=True, env=dict(os.environ, VT_REPO=str(REPO)))
    os.unlink(fh.name)
    return r.returncode == 1, script + "\n# " + (r.stdout + r.stderr)[-600:].replace("\n", "\n# ")


def _replay_bend_triples(n, chain, skip):
    """native: random C-alpha traces, no H-bonds: the residues coded 'S' must be those whose angle (computed here) exceeds 70 degrees"""
    import math
    import random
    rng = random.Random(7)
    for trial in range(20):
        pts = [[rng.uniform(-2, 2) for _ in range(3)] for _ in range(n)]
        bend = {}
        for i in bend_defined(n, chain, skip):
            u = [b - a for a, b in zip(pts[i - 2], pts[i])]
            v = [b - a for a, b in zip(pts[i], pts[i + 2])]
            ang = math.degrees(math.acos(max(-1.0, min(1.0, sum(a * b for a, b in zip(u, v)) / math.sqrt(sum(a * a for a in u) * sum(b * b for b in v))))))
            if abs(ang - 70) < 1:
                break
            bend[i] = ang > 70
        else:
            want = ref_helix(n, chain, skip, {}, bend, [LOOP] * n)
            rep, _ = replay("helix", n, chain, skip, [-1] * (2 * n), extra={"want": want, "init": [LOOP] * n, "xyz": [c for p in pts for c in p]})
            if rep:
                return True
    return False


# ------------------------------------------------------------------------------------------------------------ bulge-linked ladders

def _bulge_sets(n, kind):
    """two ladder seeds A (two bridges) and B (one bridge) of the same kind, every gap combination (1..6 on the first strand, 1..6 on the other)"""
    out = []
    for gi in range(1, 7):
        for gj in range(1, 7):
            if kind == "parallel":
                a = 6
                A = [(1, a), (2, a + 1)]
                Bp = (2 + gi, a + 1 + gj)
            else:
                b = n - 2
                A = [(1, b), (2, b - 1)]
                Bp = (2 + gi, b - 1 - gj)
            if Bp[1] - Bp[0] >= 3 and 1 <= Bp[0] and Bp[1] <= n - 2 and Bp not in A:
                out.append((gi, gj, A + [Bp]))
    return out


def beta_bulges(n: int = 15, kind: str = "parallel", chains: str = "one"):
    """bulge-linked ladders: for every gap combination the three seed pairs are the only ones that may be bridged (27 type matrices each, all
    explored); decides the gap thresholds (one extra residue on one strand, four on the other), the direction tests and the merged extents"""
    t0 = time.time()
    P = program()
    chain = CHAINS[chains](n) if chains in CHAINS else [0] * 5 + [1] * (n - 5)
    skip = [0] * n
    Hv = hb_vars(n)
    contract = hb_contract(Hv, n, skip)
    prs = pairs_of(n)
    spec = {p: spec_bridge(Hv, p[0], p[1], n, chain) for p in prs}
    P.summarised = {"_residue_test_bridge"}
    P.summary_base = list(contract)
    P.memo = {}
    hbl = [X.SInt(v) for v in Hv]
    init = _unmap([LOOP] * n)
    tot = {"queries": 0, "solver_s": 0.0, "paths": 0, "models": 0, "sets": 0}
    linked = 0
    try:
        for gi, gj, allowed in _bulge_sets(n, kind):
            base = contract + [spec[p] == 0 for p in prs if p not in allowed]

            def run():
                sec = X.Vec(list(init))
                P.env["calculate_beta_sheets"](chain, hbl, X.Vec(list(skip)), n, sec)
                return list(sec.a)
            proj = [spec[p] for p in allowed]
            r = _decide("beta", run, base, proj, lambda vals: ref_beta(n, chain, skip, {p: _ival(v) for p, v in zip(allowed, vals)}), n, chain, skip, Hv, time.time(), 2000)
            if r["status"] != "holds":
                if "detail" in r:
                    r["detail"] = f"[gap {gi} on the first strand, {gj} on the second, seed pairs {allowed}] " + r["detail"]
                return r
            for k in ("queries", "solver_s", "paths", "models"):
                tot[k] += r.get(k, 0)
            tot["sets"] += 1
            want = ref_beta(n, chain, skip, {p: (1 if kind == "parallel" else 2) for p in allowed})
            linked += all(want[r_] == E_ for r_ in range(1, allowed[2][0] + 1))
    finally:
        P.summary_base = None
    tot["solver_s"] = round(tot["solver_s"], 2)
    if chains == "one" and not (0 < linked < tot["sets"]):
        return {**tot, "status": "inconclusive", "detail": f"reachability twin failed: {linked} of {tot['sets']} gap combinations are linked by the reference (expected some, not all)"}
    return {**tot, "status": "holds", "twin_ok": True, "linked_sets": linked, "wall_s": round(time.time() - t0, 2)}


# ------------------------------------------------------------------------------------------------------------ bend angle

def bend_angle(n: int = 5, frame: str = "aligned"):
    """calculate_bends on symbolic REAL coordinates (three C-alpha atoms that matter, 9 unknowns): bend[i] <=> the angle between CA(i) - CA(i-2)
    and CA(i+2) - CA(i) exceeds 70 degrees, i.e. u.v < cos(70 deg) |u| |v|; pairs within 1e-6 (relative) of the threshold are outside the claim,
    coincident C-alpha atoms (zero vectors) too"""
    import math
    t0 = time.time()
    P = program()
    P.summarised = set()
    P.stubs = {}
    chain, skip = [0] * n, [0] * n
    order = list(range(n - 1, -1, -1))                     # residue r's C-alpha is atom n-1-r
    V = [z3.Real(f"x_{a}_{c}") for a in range(n) for c in range(3)]
    xyz = [X.SReal(v) for v in V]
    mid = n // 2
    pt = lambda r: [V[3 * order[r] + c] for c in range(3)]
    p0, p1, p2 = pt(mid - 2), pt(mid), pt(mid + 2)
    u = [b - a for a, b in zip(p0, p1)]
    v = [b - a for a, b in zip(p1, p2)]
    d = sum(a * b for a, b in zip(u, v))
    N = sum(a * a for a in u) * sum(b * b for b in v)
    r_ = z3.Real("norm")
    c70 = z3.RealVal(str(F(math.cos(math.radians(70.0)))))
    tol = z3.RealVal("1/1000000")
    base = [r_ >= 0, r_ * r_ == N, N > 0] + [z3.And(x >= -10, x <= 10) for x in V]
    if frame == "aligned":
        # orientation fixed (a bound on the inputs): CA(i) - CA(i-2) along x, CA(i+2) - CA(i) in the xy-plane; position and lengths free
        base += [u[1] == 0, u[2] == 0, v[2] == 0]
    spec_bend = d < c70 * r_
    band = z3.Or(d - c70 * r_ > tol * r_, c70 * r_ - d > tol * r_)

    def run():
        return P.env["calculate_bends"](xyz, order, chain, n, X.Vec(list(skip)))
    npaths, zs, q = 0, 0.0, 0
    outcomes = set()
    try:
        for path, res, ctx, stats in X.explore(run, base, max_paths=64, timeout_ms=60000, fresh_checks=True):
            npaths += 1
            for i in range(n):
                e = res.a[i]
                if i != mid:
                    if X.is_sym(e) or e:
                        return {"status": "cex", "detail": f"a bend is reported for residue {i} of {n}, which has no C-alpha two residues away on both sides", "cex": {"goal": "bend.range", "key": "bend.range", "inputs": {"n": n, "i": i}, "reproduced": False, "replay_script": ""}}
                    continue
                got = X.tz(e, True) if isinstance(e, (X.SBool, bool)) else (X.tz(e) != 0)
                s = z3.Solver()
                s.set("timeout", 120000)
                s.add(*ctx.base, *path, band, got != spec_bend)
                t = time.time()
                r = s.check()
                zs += time.time() - t
                q += 1
                if r == z3.sat:
                    m = s.model()
                    vals = [float(m.eval(x, model_completion=True).as_fraction()) if hasattr(m.eval(x, model_completion=True), "as_fraction") else float(m.eval(x, model_completion=True).approx(12).as_fraction()) for x in V]
                    rep, script = _replay_bend(n, order, vals, mid)
                    return {"status": "cex", "queries": q, "solver_s": round(zs, 2), "detail": f"bend of residue {mid} disagrees with the 70-degree rule for C-alpha coordinates {vals}",
                            "cex": {"goal": "bend", "key": "bend", "inputs": {"xyz": vals}, "reproduced": rep, "replay_script": script}}
                if r != z3.unsat:
                    return {"status": "inconclusive", "detail": "solver: unknown on the bend equivalence", "queries": q, "solver_s": round(zs, 2)}
                outcomes.add(str(e)[:5])
    except (X.Unsupported, X.LowerError, X.OutOfBounds) as e:
        return {"status": "inconclusive", "detail": f"{type(e).__name__}: {e}"}
    return {"status": "holds", "queries": q + stats["queries"], "solver_s": round(zs + stats["solver_s"], 2), "paths": npaths, "wall_s": round(time.time() - t0, 2), "twin_ok": npaths >= 1}


_REPLAY_BEND = r'''
import sys, os, ctypes, tempfile, subprocess, json, math
def _die(*a):
    import traceback; traceback.print_exception(*a); os._exit(3)
sys.excepthook = _die
REPO = os.environ.get("VT_REPO", "/repo"); G = REPO + "/mdtraj/geometry"
SHIM = %(shim)r
d = tempfile.mkdtemp(); open(d + "/shim.cpp", "w").write(SHIM %% {"src": G + "/src/dssp.cpp"})
subprocess.check_call(["g++", "-O1", "-msse4.1", "-shared", "-fPIC", "-I" + G + "/include", "-I" + G + "/src/kernels", d + "/shim.cpp", "-o", d + "/shim.so"])
lib = ctypes.CDLL(d + "/shim.so")
n, order, xyz, mid = %(n)d, %(order)r, %(xyz)r, %(mid)d
I = lambda xs: (ctypes.c_int * len(xs))(*xs)
codes = I([0] * 11); lib.vt_codes(codes); codes = list(codes)
sec = I([codes[0]] * n)
lib.vt_helix((ctypes.c_float * len(xyz))(*xyz), I(order), I([0] * n), I([-1] * (2 * n)), I([0] * n), n, n, sec)
p = lambda r: xyz[3 * order[r]:3 * order[r] + 3]
u = [b - a for a, b in zip(p(mid - 2), p(mid))]; v = [b - a for a, b in zip(p(mid), p(mid + 2))]
ang = math.degrees(math.acos(max(-1, min(1, sum(a * b for a, b in zip(u, v)) / math.sqrt(sum(a * a for a in u) * sum(b * b for b in v))))))
got = sec[mid] == codes[7]
print("C-alpha angle at residue", mid, "=", round(ang, 4), "degrees; code 'S' assigned:", got)
sys.exit(1 if got != (ang > 70.0) else 0)
'''


def _replay_bend(n, order, vals, mid):
    script = _REPLAY_BEND % {"shim": _SHIM, "n": n, "order": order, "xyz": vals, "mid": mid}
    with tempfile.NamedTemporaryFile("w", suffix=".py", delete=False) as fh:
        fh.write(script)
    r = subprocess.run([sys.executable, fh.name], capture_output=True, text=True, env=dict(os.environ, VT_REPO=str(REPO)))
    os.unlink(fh.name)
    return r.returncode == 1, script + "\n# " + (r.stdout + r.stderr)[-600:].replace("\n", "\n# ")


# ------------------------------------------------------------------------------------------------------------ driver

def driver(n_res: int = 3, n_frames: int = 2):
    """dssp(): symbolic index arrays (each entry -1 or an atom); the rule functions and kabsch_sander are replaced by recorders.  On every path:
    the skip mask handed on is exactly 'some of N, C, O, CA is missing' (solver), kabsch_sander is called once per frame with that frame's
    coordinates, one frame, a fresh table of 2n entries all -1; the rule functions see the same table and frame; the character written at
    [frame * n_residues + residue] is the published letter of the code the rule functions left there"""
    t0 = time.time()
    P = program()
    P.summarised = set()
    n_atoms = 4 * n_res
    NCO = [z3.Int(f"nco_{r}_{k}") for r in range(n_res) for k in range(3)]
    CA = [z3.Int(f"ca_{r}") for r in range(n_res)]
    base = [z3.And(v >= -1, v < n_atoms) for v in NCO + CA]
    xyz = [F(k) for k in range(n_frames * n_atoms * 3)]
    letters = {"SS_LOOP": " ", "SS_ALPHAHELIX": "H", "SS_BETABRIDGE": "B", "SS_STRAND": "E", "SS_HELIX_3": "G", "SS_HELIX_5": "I", "SS_TURN": "T", "SS_BEND": "S"}
    names = list(letters)
    log = []

    def ks(fx, nco, ca, pro, nf, na, nr, hb, he):
        log.append(("ks", fx.off if isinstance(fx, X.Ptr) else None, fx.a is xyz if isinstance(fx, X.Ptr) else fx is xyz, nf, na, nr, list(hb.a[hb.off:]), hb.a))

    def beta(chain, hb, skip, nr, sec):
        log.append(("beta", list(skip.a), hb.a, [c for c in sec.a]))
        fr = sum(1 for e in log if e[0] == "beta") - 1
        for j in range(nr):
            X.SET(sec, j, code_of(names[(3 * fr + j) % 8]))

    def helix(fx, ca, chain, hb, skip, na, nr, sec):
        log.append(("helix", fx.off if isinstance(fx, X.Ptr) else None, list(skip.a), hb.a))
        fr = sum(1 for e in log if e[0] == "helix") - 1
        X.SET(sec, nr - 1, code_of(names[(5 * fr + 1) % 8]))
    P.stubs = {"kabsch_sander": ks, "calculate_beta_sheets": beta, "calculate_alpha_helices": helix}

    def run():
        del log[:]
        out = [None] * (n_frames * n_res)
        P.env["dssp"](X.Ptr(xyz, 0), [X.SInt(v) for v in NCO], [X.SInt(v) for v in CA], [0] * n_res, [0] * n_res, n_frames, n_atoms, n_res, out)
        return out, list(log)
    npaths, q, zs = 0, 0, 0.0
    problems = []
    try:
        for path, (out, lg), ctx, stats in X.explore(run, base, max_paths=4096):
            npaths += 1
            kss = [e for e in lg if e[0] == "ks"]
            bts = [e for e in lg if e[0] == "beta"]
            hls = [e for e in lg if e[0] == "helix"]
            if not (len(kss) == len(bts) == len(hls) == n_frames):
                problems.append("not exactly one kabsch_sander / beta / helix call per frame")
                break
            for f in range(n_frames):
                _, off, same, nf, na, nr, table, tid = kss[f]
                if not (same and off == f * n_atoms * 3 and nf == 1 and na == n_atoms and nr == n_res):
                    problems.append(f"frame {f}: kabsch_sander called with offset {off}, n_frames {nf}, n_atoms {na}, n_residues {nr}")
                if table != [-1] * (2 * n_res):
                    problems.append(f"frame {f}: the H-bond table is not a fresh table of -1")
                if bts[f][2] is not tid or hls[f][3] is not tid or hls[f][1] != f * n_atoms * 3:
                    problems.append(f"frame {f}: the rule functions do not see that frame's table / coordinates")
                if bts[f][3] != [code_of("SS_LOOP")] * n_res:
                    problems.append(f"frame {f}: the codes do not start as loop")
                skipv = bts[f][1]
                if hls[f][2] != skipv:
                    problems.append("beta and helix stages see different skip masks")
                for r in range(n_res):
                    missing = z3.Or(*[NCO[3 * r + k] == -1 for k in range(3)], CA[r] == -1)
                    s = z3.Solver()
                    s.add(*ctx.base, *path, missing != z3.BoolVal(bool(skipv[r])))
                    t = time.time()
                    rr = s.check()
                    zs += time.time() - t
                    q += 1
                    if rr != z3.unsat:
                        m = s.model() if rr == z3.sat else None
                        problems.append(f"skip[{r}] = {skipv[r]} although " + (f"nco = {[m.eval(v, model_completion=True) for v in NCO[3*r:3*r+3]]}, ca = {m.eval(CA[r], model_completion=True)}" if m else "solver unknown"))
                for j in range(n_res):
                    code_name = names[(3 * f + j) % 8] if j != n_res - 1 else names[(5 * f + 1) % 8]
                    if out[f * n_res + j] != ord(letters[code_name]):
                        problems.append(f"frame {f} residue {j}: wrote {out[f * n_res + j]!r} for {code_name}, expected {letters[code_name]!r}")
            if problems:
                break
    except (X.Unsupported, X.LowerError, X.OutOfBounds) as e:
        return {"status": "inconclusive", "detail": f"{type(e).__name__}: {e}"}
    finally:
        P.stubs = {}
    res = {"queries": q, "solver_s": round(zs, 2), "paths": npaths, "wall_s": round(time.time() - t0, 2)}
    if problems:
        return {**res, "status": "cex", "detail": "; ".join(problems[:3]), "cex": {"goal": "driver", "key": "driver", "inputs": {"problems": problems[:5]}, "reproduced": _replay_driver(), "replay_script": _driver_script() + "\n# " + getattr(_replay_driver, "tail", "").replace("\n", "\n# ")}}
    return {**res, "status": "holds", "twin_ok": npaths > 1}


_REPLAY_DRIVER = r"""
# dssp() end to end on a native build of the CURRENT sources.  kabsch_sander is a shim that installs a prepared H-bond table per frame (frames
# are recognised by a marker coordinate), so each frame shows one rule: nothing, alpha, 3-10, pi, a lone turn, a bridge, a ladder, bends.
# The expected strings were computed by the harness' reference rules.
import sys, os, ctypes, tempfile, subprocess
def _die(*a):
    import traceback; traceback.print_exception(*a); os._exit(3)
sys.excepthook = _die
REPO = os.environ.get("VT_REPO", "/repo"); G = REPO + "/mdtraj/geometry"
n_res, n_atoms = %(n_res)d, %(n_atoms)d
tables = %(tables)r
expected = %(expected)r
expected_skip = %(expected_skip)r
n_frames = len(tables)
SHIM = '''
#include "%%s/src/dssp.cpp"
static const int TABLES[%%d][%%d] = %%s;
static int calls = 0; static long offs[64]; static const float* base = 0;
void kabsch_sander(const float* xyz, const int* nco_indices, const int* ca_indices, const int* is_proline, const int n_frames, const int n_atoms, const int n_residues, int* hbonds, float* henergies) {
    if (!base) base = xyz;
    offs[calls++ %%%% 64] = (long)(xyz - base);
    int f = (int)(xyz[0] + 0.5f);
    for (int k = 0; k < 2 * n_residues; k++) hbonds[k] = TABLES[f][k]; }
extern "C" int vt_calls() { return calls; }
extern "C" long vt_off(int k) { return offs[k]; }
''' %% (G, n_frames, 2 * n_res, "{" + ",".join("{" + ",".join(map(str, t)) + "}" for t in tables) + "}")
d = tempfile.mkdtemp(); open(d + "/shim.cpp", "w").write(SHIM)
subprocess.check_call(["g++", "-O1", "-msse4.1", "-shared", "-fPIC", "-I" + G + "/include", "-I" + G + "/src/kernels", d + "/shim.cpp", "-o", d + "/shim.so"])
lib = ctypes.CDLL(d + "/shim.so"); lib.vt_off.restype = ctypes.c_long
I = lambda xs: (ctypes.c_int * len(xs))(*xs)
coords = []
for f in range(n_frames):
    fr = [0.0] * (n_atoms * 3)
    for r in range(n_res):
        if f == n_frames - 1:                       # right angles everywhere: residues two apart form two polylines that turn at every point
            k = r // 2
            p = ((k + 1) // 2 * 1.0, 5.0 * (r %% 2), (k // 2) * 1.0)
        else:
            p = (1.0 * r, 0.0, 0.0)                 # a straight line: no bends
        fr[3 * (4 * r + 1):3 * (4 * r + 1) + 3] = p
    fr[0] = float(f)                                # marker (atom 0 is the N of residue 0: not used by the rules)
    coords += fr
xyz = (ctypes.c_float * len(coords))(*coords)
nco = sum(([4 * r, 4 * r + 2, 4 * r + 3] for r in range(n_res)), []); ca = [4 * r + 1 for r in range(n_res)]
bad = 0
for variant, exp in (("complete residues", expected), ("residue 3 without CA, residue 5 without N", expected_skip)):
    nco2, ca2 = list(nco), list(ca)
    if variant != "complete residues":
        ca2[3] = -1; nco2[3 * 5] = -1
    out = ctypes.create_string_buffer(n_frames * n_res)
    lib.dssp(xyz, I(nco2), I(ca2), I([0] * n_res), I([0] * n_res), n_frames, n_atoms, n_res, out)
    got = out.raw.decode("latin1")
    for f in range(n_frames):
        g = got[f * n_res:(f + 1) * n_res]
        print(variant, "frame", f, "table", tables[f], ": codes", repr(g), " rules:", repr(exp[f]), "" if g == exp[f] else "  <-- differs")
        bad += g != exp[f]
offs = [lib.vt_off(k) for k in range(lib.vt_calls())]
if offs != [f * n_atoms * 3 for f in range(n_frames)] * 2:
    print("kabsch_sander was called with frame offsets", offs); bad += 1
sys.exit(1 if bad else 0)
"""


def _driver_case(n_res=8, skip=None):
    """frames, each with one pattern; expected strings from the reference rules of this module"""
    T = lambda **kw: [v for d in range(n_res) for v in kw.get(f"d{d}", (-1, -1))]
    tables = [T(), T(d4=(0, -1), d5=(1, -1)), T(d3=(0, -1), d4=(1, -1)), T(d5=(0, -1), d6=(1, -1)), T(d4=(0, -1)), T(d1=(5, -1), d5=(1, -1)), T(d1=(6, -1), d6=(1, -1), d2=(5, -1), d5=(2, -1)), T()]
    chain, skip = [0] * n_res, skip or [0] * n_res
    expected = []
    for f, tab in enumerate(tables):
        has = lambda d, a: tab[2 * d] == a or tab[2 * d + 1] == a
        Tm = {}
        for (i, j) in pairs_of(n_res):
            Hb = lambda x, y: has(y, x)
            par = (Hb(i - 1, j) and Hb(j, i + 1)) or (Hb(j - 1, i) and Hb(i, j + 1))
            anti = (Hb(i, j) and Hb(j, i)) or (Hb(i - 1, j + 1) and Hb(j - 1, i + 1))
            Tm[(i, j)] = 1 if par else 2 if anti else 0
        sec = ref_beta(n_res, chain, skip, Tm)
        turn = {(k, i): has(i + k, i) for k in (3, 4, 5) for i in range(n_res) if i + k < n_res}
        bend = {i: f == len(tables) - 1 for i in bend_defined(n_res, chain, skip)}
        sec = ref_helix(n_res, chain, skip, turn, bend, sec)
        expected.append("".join(CHARS[c] for c in sec))
    return tables, expected


def _driver_script():
    tables, expected = _driver_case(8)
    _, expected_skip = _driver_case(8, [0, 0, 0, 1, 0, 1, 0, 0])
    return _REPLAY_DRIVER % {"n_res": 8, "n_atoms": 32, "tables": tables, "expected": expected, "expected_skip": expected_skip}


def _replay_driver():
    with tempfile.NamedTemporaryFile("w", suffix=".py", delete=False) as fh:
        fh.write(_driver_script())
    r = subprocess.run([sys.executable, fh.name], capture_output=True, text=True, env=dict(os.environ, VT_REPO=str(REPO)))
    os.unlink(fh.name)
    _replay_driver.tail = (r.stdout + r.stderr)[-1500:]
    return r.returncode == 1
