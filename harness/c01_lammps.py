"""C01 — the LAMMPS dump READER's box arithmetic (LAMMPSTrajectoryFile.parse_box) on symbolic header numbers (E2 symnum).

The header of a triclinic frame gives xlo_bound xhi_bound xy / ylo_bound yhi_bound xz / zlo_bound zhi_bound yz; by the LAMMPS manual the cell
vectors are a = (lx, 0, 0), b = (xy, ly, 0), c = (xz, yz, lz) with lx = xhi - xlo etc. after removing the tilt extents from the bounds.
parse_box runs as it is (numpy replaced by the z3 facade; min / max over the tilt terms fork); arccos and degrees are recorders, so the claim is
about their ARGUMENTS:  lengths = (|a|, |b|, |c|) and the three angles are degrees(arccos(.)) of exactly  b.c / (|b||c|),  a.c / (|a||c|),
a.b / (|a||b|)  in that order (alpha, beta, gamma).  Orthogonal frames: lengths = hi - lo, angles 90."""
import os
import subprocess
import sys
import tempfile
import time

import numpy as np
import z3

from vtlib import symnum as S
from vtlib.symnum import NP, Goals, Sym, sym_array, tz

_REPLAY = r'''
import sys, os, tempfile, numpy as np, mdtraj as md
from mdtraj.formats import LAMMPSTrajectoryFile
bad = 0
for L, A in (((2.0, 3.0, 4.0), (75.0, 100.0, 70.0)), ((3.0, 2.5, 5.0), (90.0, 110.0, 90.0)), ((2.0, 2.0, 2.0), (60.0, 60.0, 90.0)), ((2.0, 3.0, 4.0), (90.0, 90.0, 90.0))):
    d = tempfile.mkdtemp(); p = os.path.join(d, "o.lammpstrj")
    xyz = np.array([[[0.1, 0.2, 0.3], [1.0, 1.5, 2.5]]], dtype=np.float32)
    with LAMMPSTrajectoryFile(p, "w") as f:
        f.write(xyz, np.array([L]), np.array([A]))
    with LAMMPSTrajectoryFile(p) as f:
        _, lengths, angles = f.read()
    ok = np.allclose(lengths[0], L, atol=1e-3) and np.allclose(angles[0], A, atol=1e-2)
    print("written", L, A, " read back", np.round(lengths[0], 4).tolist(), np.round(angles[0], 3).tolist(), "" if ok else "  <-- differs")
    bad += not ok
sys.exit(1 if bad else 0)
'''


def _replay(name, vals):
    with tempfile.NamedTemporaryFile("w", suffix=".py", delete=False) as fh:
        fh.write(_REPLAY)
    r = subprocess.run([sys.executable, fh.name], capture_output=True, text=True)
    os.unlink(fh.name)
    return r.returncode == 1, _REPLAY + "\n# " + (r.stdout + r.stderr)[-600:].replace("\n", "\n# "), name.split("[")[0]


class _Line:
    def __init__(self, toks):
        self.toks = toks

    def split(self):
        return list(self.toks)


def parse_box(style: str = "triclinic"):
    import mdtraj.formats.lammpstrj as _lm
    t0 = time.time()
    S.new_ctx(timeout_ms=30000)
    V = sym_array("h", (3, 3))                      # rows: lo hi tilt
    S.CTX.cons += [z3.And(tz(v) >= -50, tz(v) <= 50) for v in V.flat]
    S.CTX.cons += [tz(V[i, 1]) - tz(V[i, 0]) >= 20 for i in range(3)]          # bounds at least 20 apart, tilts within +-5: a proper cell
    S.CTX.cons += [z3.And(tz(V[i, 2]) >= -5, tz(V[i, 2]) <= 5) for i in range(3)]
    acos_args, deg_in = [], []

    def run():
        del acos_args[:], deg_in[:]
        f = NP()

        def arccos(x):
            acos_args.append(x)
            return Sym(S.CTX.fresh("acos"))

        def degrees(a):
            a = np.asarray(a, dtype=object)
            deg_in.append(list(a.flat))
            return a
        f.arccos, f.degrees = arccos, degrees
        _lm.np = f

        class FH:
            def __init__(self):
                self.i = 0

            def readline(self):
                self.i += 1
                return _Line([V[self.i - 1, k] for k in range(3 if style == "triclinic" else 2)])
        obj = _lm.LAMMPSTrajectoryFile.__new__(_lm.LAMMPSTrajectoryFile)
        obj._is_open = False
        obj._fh = FH()
        lengths, angles = _lm.LAMMPSTrajectoryFile.parse_box(obj, style)
        return lengths, angles, list(acos_args), list(deg_in)
    try:
        paths = S.explore(run, max_paths=256)
    finally:
        _lm.np = np
    G = Goals(30000)
    tol = z3.RealVal("1/1000000")
    for pi, (path, cons, assumed, (lengths, angles, acs, degs)) in enumerate(paths):
        prem = cons + path + assumed
        lo = [tz(V[i, 0]) for i in range(3)]
        hi = [tz(V[i, 1]) for i in range(3)]
        if style != "triclinic":
            for k in range(3):
                G.add(f"p{pi}.length[{k}]", prem, tz(lengths[k]) == hi[k] - lo[k], {})
                G.add(f"p{pi}.angle[{k}]", [], z3.BoolVal(float(angles[k]) == 90.0), {})
            continue
        xy, xz, yz = (tz(V[i, 2]) for i in range(3))
        zmin = lambda *v: (lambda m: m)(__import__("functools").reduce(lambda a, b: z3.If(b < a, b, a), v))
        zmax = lambda *v: __import__("functools").reduce(lambda a, b: z3.If(b > a, b, a), v)
        zero = z3.RealVal(0)
        lx = (hi[0] - zmax(zero, xy, xz, xy + xz)) - (lo[0] - zmin(zero, xy, xz, xy + xz))
        ly = (hi[1] - zmax(zero, yz)) - (lo[1] - zmin(zero, yz))
        lz = hi[2] - lo[2]
        a, b, c = (lx, zero, zero), (xy, ly, zero), (xz, yz, lz)
        dot = lambda u, v: sum(p * q for p, q in zip(u, v))
        G.add(f"p{pi}.a", prem, S.close(tz(lengths[0]), lx, tol, tol), {})
        G.add(f"p{pi}.b", prem, z3.And(tz(lengths[1]) >= 0, S.close(tz(lengths[1]) * tz(lengths[1]), dot(b, b), tol, tol)), {})
        G.add(f"p{pi}.c", prem, z3.And(tz(lengths[2]) >= 0, S.close(tz(lengths[2]) * tz(lengths[2]), dot(c, c), tol, tol)), {})
        ok = len(acs) == 3 and len(degs) == 1 and len(degs[0]) == 3 and all(z3.eq(tz(x), tz(y)) for x, y in zip(degs[0], angles))
        G.add(f"p{pi}.three_angles_through_arccos_and_degrees", [], z3.BoolVal(bool(ok)), {})
        if not ok:
            continue
        la, lb, lc = (tz(lengths[k]) for k in range(3))
        # cos * |u| * |v| == u . v   (lengths are positive by the premises on the bounds)
        for nm, arg, (u, v, nu, nv) in (("alpha", acs[0], (b, c, lb, lc)), ("beta", acs[1], (a, c, la, lc)), ("gamma", acs[2], (a, b, la, lb))):
            G.add(f"p{pi}.cos_{nm}", prem, S.close(tz(arg) * nu * nv, dot(u, v), z3.RealVal("1/10000"), z3.RealVal("1/10000")), {})
    r = G.run(_replay)
    r["paths"] = len(paths)
    r["wall_s"] = round(time.time() - t0, 2)
    return r
