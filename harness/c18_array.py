"""C18 — cursor semantics of the array-backed formats (HDF5, NetCDF): one operation from an
arbitrary valid cursor state (total, pos).  The real read/seek/tell/__len__ bytecode runs under
CrossHair on a fake back end that returns frame ids."""
import vtlib.xhfix  # noqa: F401  (CrossHair configuration; see module docstring)
import mdtraj.formats.hdf5 as _h5
import mdtraj.formats.netcdf as _nc
from mdtraj.formats.hdf5 import HDF5TrajectoryFile
from mdtraj.formats.netcdf import NetCDFTrajectoryFile
from vtlib.fakes import FakeH5Handle, FakeNCHandle, FakeTables, NPInt

_h5.np = NPInt()
_nc.np = NPInt()


def mk_h5(total, pos):
    f = object.__new__(HDF5TrajectoryFile)
    f._open = True
    f.mode = "r"
    f.tables = FakeTables()
    f._handle = FakeH5Handle(total)
    f._frame_index = pos
    f._needs_initialization = False
    return f


def mk_nc(total, pos):
    f = object.__new__(NetCDFTrajectoryFile)
    f._closed = False
    f._mode = "r"
    f._handle = FakeNCHandle(total)
    f._frame_index = pos
    f._needs_initialization = False
    return f


def _ids_h5(out):
    return out.coordinates.ids if len(out) else []


def _ids_nc(out):
    xyz = out[0]
    return xyz.ids if hasattr(xyz, "ids") else []


def _atoms(b0, b1, b2, b3):
    return [i for i, b in enumerate((b0, b1, b2, b3)) if b]


# ---------------------------------------------------------------- HDF5

def h5_read_n(total: int, pos: int, n: int) -> bool:
    """
    pre: 1 <= total <= 6 and 0 <= pos <= total and 1 <= n <= 7
    post: __return__
    """
    f = mk_h5(total, pos)
    got = _ids_h5(f.read(n_frames=n))
    exp = list(range(pos, min(pos + n, total)))
    return got == exp and f.tell() == pos + len(exp) and len(f) == total


def h5_read_all(total: int, pos: int) -> bool:
    """
    pre: 1 <= total <= 6 and 0 <= pos <= total
    post: __return__
    """
    f = mk_h5(total, pos)
    got = _ids_h5(f.read())
    return got == list(range(pos, total)) and f.tell() == total and len(f) == total


def h5_read_atoms(total: int, pos: int, n: int, b0: bool, b1: bool, b2: bool, b3: bool) -> bool:
    """
    pre: 1 <= total <= 4 and 0 <= pos < total and 1 <= n <= 4
    pre: b0 or b1 or b2 or b3
    post: __return__
    """
    f = mk_h5(total, pos)
    sub = _atoms(b0, b1, b2, b3)
    out = f.read(n_frames=n, atom_indices=sub)
    exp = list(range(pos, min(pos + n, total)))
    return out.coordinates.ids == exp and out.coordinates.atoms == sub and f.tell() == pos + len(exp) \
        and out.time.ids == exp


def h5_seek(total: int, pos: int, off: int, whence: int) -> bool:
    """
    pre: 1 <= total <= 6 and 0 <= pos <= total and -7 <= off <= 7 and 0 <= whence <= 2
    pre: (whence == 0 and 0 <= off <= total) or (whence == 1 and 0 <= pos + off <= total) or (whence == 2 and -total <= off <= 0)
    post: __return__
    """
    f = mk_h5(total, pos)
    f.seek(off, whence)
    exp = off if whence == 0 else (pos + off if whence == 1 else total + off)
    nxt = _ids_h5(f.read(n_frames=1))
    return exp == (f.tell() - len(nxt)) and nxt == list(range(exp, min(exp + 1, total))) and len(f) == total


def h5_two_handles(total: int, pa: int, pb: int, n: int, off: int, kind: int) -> bool:
    """
    pre: 1 <= total <= 5 and 0 <= pa <= total and 0 <= pb <= total and 1 <= n <= 5 and 0 <= off <= total and 0 <= kind <= 2
    post: __return__
    """
    a, b = mk_h5(total, pa), mk_h5(total, pb)
    b._handle = a._handle          # two file objects over the same stored data
    if kind == 0:
        a.read(n_frames=n)
    elif kind == 1:
        a.read()
    else:
        a.seek(off)
    got = _ids_h5(b.read(n_frames=1))
    return got == list(range(pb, min(pb + 1, total))) and len(b) == total and b.tell() == pb + len(got)


# ---------------------------------------------------------------- NetCDF

def nc_read_n(total: int, pos: int, n: int) -> bool:
    """
    pre: 1 <= total <= 6 and 0 <= pos <= total and 1 <= n <= 7
    post: __return__
    """
    f = mk_nc(total, pos)
    got = _ids_nc(f.read(n_frames=n))
    exp = list(range(pos, min(pos + n, total)))
    return got == exp and f.tell() == pos + len(exp) and len(f) == total


def nc_read_all(total: int, pos: int) -> bool:
    """
    pre: 1 <= total <= 6 and 0 <= pos <= total
    post: __return__
    """
    f = mk_nc(total, pos)
    got = _ids_nc(f.read())
    return got == list(range(pos, total)) and f.tell() == total and len(f) == total


def nc_read_atoms(total: int, pos: int, n: int, b0: bool, b1: bool, b2: bool, b3: bool) -> bool:
    """
    pre: 1 <= total <= 4 and 0 <= pos < total and 1 <= n <= 4
    pre: b0 or b1 or b2 or b3
    post: __return__
    """
    f = mk_nc(total, pos)
    sub = _atoms(b0, b1, b2, b3)
    xyz, time, _, _ = f.read(n_frames=n, atom_indices=sub)
    exp = list(range(pos, min(pos + n, total)))
    return xyz.ids == exp and xyz.atoms == sub and f.tell() == pos + len(exp) and time.ids == exp


def nc_seek(total: int, pos: int, off: int, whence: int) -> bool:
    """
    pre: 1 <= total <= 6 and 0 <= pos <= total and -7 <= off <= 7 and 0 <= whence <= 2
    pre: (whence == 0 and 0 <= off <= total) or (whence == 1 and 0 <= pos + off <= total) or (whence == 2 and -total <= off <= 0)
    post: __return__
    """
    f = mk_nc(total, pos)
    f.seek(off, whence)
    exp = off if whence == 0 else (pos + off if whence == 1 else total + off)
    nxt = _ids_nc(f.read(n_frames=1))
    return exp == (f.tell() - len(nxt)) and nxt == list(range(exp, min(exp + 1, total))) and len(f) == total


def nc_two_handles(total: int, pa: int, pb: int, n: int, off: int, kind: int) -> bool:
    """
    pre: 1 <= total <= 5 and 0 <= pa <= total and 0 <= pb <= total and 1 <= n <= 5 and 0 <= off <= total and 0 <= kind <= 2
    post: __return__
    """
    a, b = mk_nc(total, pa), mk_nc(total, pb)
    b._handle = a._handle
    if kind == 0:
        a.read(n_frames=n)
    elif kind == 1:
        a.read()
    else:
        a.seek(off)
    got = _ids_nc(b.read(n_frames=1))
    return got == list(range(pb, min(pb + 1, total))) and len(b) == total and b.tell() == pb + len(got)


# ------------------------------------------------------------------ histories (see harness/c18_text.py)

def h5_history(total: int, c0: int, a0: int, c1: int, a1: int, c2: int, a2: int) -> bool:
    """
    pre: 2 <= total <= 4 and 0 <= c0 <= 5 and 0 <= c1 <= 5 and 0 <= c2 <= 5 and 0 <= a0 <= 3 and 0 <= a1 <= 3 and 0 <= a2 <= 3
    post: __return__
    """
    from harness.c18_text import _hist3
    return _hist3(mk_h5, total, c0, a0, c1, a1, c2, a2, _ids_h5)


def nc_history(total: int, c0: int, a0: int, c1: int, a1: int, c2: int, a2: int) -> bool:
    """
    pre: 2 <= total <= 4 and 0 <= c0 <= 5 and 0 <= c1 <= 5 and 0 <= c2 <= 5 and 0 <= a0 <= 3 and 0 <= a1 <= 3 and 0 <= a2 <= 3
    post: __return__
    """
    from harness.c18_text import _hist3
    return _hist3(mk_nc, total, c0, a0, c1, a1, c2, a2, _ids_nc)
