"""C04 — `==` implies equal hash.  `hash` inside mdtraj.core.topology is replaced by an injective structural tagger
(DESIGN §4.9): two tags are equal iff the hash INPUTS are equal, so "hash equal" is decided on the inputs by the
solver (real hash values of equal inputs are equal; a counterexample is replayed with the real hash)."""
import vtlib.xhfix  # noqa: F401
from mdtraj.core import topology as _T
from harness.c04 import build
from vtlib.xhfix import conc


class HTag:
    def __init__(self, p):
        self.p = p

    def __xor__(self, o):
        return HTag(("xor", self, o))

    def __eq__(self, o):
        return isinstance(o, HTag) and _same(self.p, o.p)

    __hash__ = None


def _same(a, b):
    if isinstance(a, HTag) or isinstance(b, HTag):
        return isinstance(a, HTag) and isinstance(b, HTag) and _same(a.p, b.p)
    if isinstance(a, tuple) or isinstance(b, tuple):
        return isinstance(a, tuple) and isinstance(b, tuple) and len(a) == len(b) and all(_same(x, y) for x, y in zip(a, b))
    if a is None or b is None:
        return a is b
    return bool(a == b)


def shash(x):
    if isinstance(x, tuple):
        return HTag(("tuple",) + tuple(shash(e) for e in x))
    if x is None or isinstance(x, (str, int, float)):
        return HTag(("val", x))
    h = type(x).__hash__(x)          # an mdtraj object: its own __hash__ (which sees this tagger as `hash`)
    return h if isinstance(h, HTag) else HTag(("int", h))


_T.hash = shash


def _h(t):
    return _T.Topology.__hash__(t)


def eq_implies_hash_attrs(n0: str, m0: str, r0: str, q0: str, s0: str, u0: str, rs0: int, qs0: int, ser0: int, ter0: int, c0: str, d0: str) -> bool:
    """
    pre: len(n0) <= 2 and len(m0) <= 2 and len(r0) <= 2 and len(q0) <= 2 and len(s0) <= 1 and len(u0) <= 1 and len(c0) <= 1 and len(d0) <= 1
    post: __return__
    """
    t1 = build([n0, "N", "CA", "O"], [r0, "GLY", "HOH"], [s0, "", ""], [c0, "B"], [ser0, 2, 3, 4], [rs0, 5, 5], [0, 1, 0, 2], [1, 1, 0, 0], [1, 1, 0, 0])
    t2 = build([m0, "N", "CA", "O"], [q0, "GLY", "HOH"], [u0, "", ""], [d0, "B"], [ter0, 2, 3, 4], [qs0, 5, 5], [0, 1, 0, 2], [1, 1, 0, 0], [1, 1, 0, 0])
    if t1 == t2:
        return _h(t1) == _h(t2)
    return True


def eq_implies_hash_kinds(e0: int, f0: int, bt: int, ct: int, bo: int, co: int, which: int) -> bool:
    """
    pre: 0 <= e0 <= 5 and 0 <= f0 <= 5 and 0 <= bt <= 5 and 0 <= ct <= 5 and 0 <= bo <= 3 and 0 <= co <= 3 and 0 <= which <= 2
    pre: (which == 0 and bt == ct and bo == co) or (which == 1 and e0 == f0 and bo == co) or (which == 2 and e0 == f0 and bt == ct)
    post: __return__
    """
    e0, f0, bt, ct, bo, co = conc(e0, 0, 5), conc(f0, 0, 5), conc(bt, 0, 5), conc(ct, 0, 5), conc(bo, 0, 3), conc(co, 0, 3)
    t1 = build(["N", "N", "CA", "O"], ["ALA", "GLY", "HOH"], ["", "", ""], ["A", "B"], [1, 2, 3, 4], [1, 5, 5], [e0, 1, 0, 2], [bt, 1, 0, 0], [bo, 1, 0, 0])
    t2 = build(["N", "N", "CA", "O"], ["ALA", "GLY", "HOH"], ["", "", ""], ["A", "B"], [1, 2, 3, 4], [1, 5, 5], [f0, 1, 0, 2], [ct, 1, 0, 0], [co, 1, 0, 0])
    if t1 == t2:
        return _h(t1) == _h(t2)
    return True


def copy_hash_equal(n0: str, r0: str, s0: str, rs0: int, c0: str) -> bool:
    """
    pre: len(n0) <= 3 and len(r0) <= 3 and len(s0) <= 2 and len(c0) <= 1
    post: __return__
    """
    t = build([n0, "N", "CA", "O"], [r0, "GLY", "HOH"], [s0, "", ""], [c0, "B"], [1, 2, 3, 4], [rs0, 5, 5], [0, 1, 0, 2], [1, 2, 0, 5], [1, 2, 0, 3])
    c = t.copy()
    return c == t and _h(c) == _h(t)


def atom_bond_eq_hash(n0: str, m0: str, rs0: int, qs0: int, bt: int, ct: int) -> bool:
    """
    pre: len(n0) <= 2 and len(m0) <= 2 and 0 <= bt <= 5 and 0 <= ct <= 5
    post: __return__
    """
    bt, ct = conc(bt, 0, 5), conc(ct, 0, 5)
    t1 = build([n0, "N", "CA", "O"], ["ALA", "GLY", "HOH"], ["", "", ""], ["A", "B"], [1, 2, 3, 4], [rs0, 5, 5], [0, 1, 0, 2], [bt, 1, 0, 0], [1, 1, 0, 0])
    t2 = build([m0, "N", "CA", "O"], ["ALA", "GLY", "HOH"], ["", "", ""], ["A", "B"], [1, 2, 3, 4], [qs0, 5, 5], [0, 1, 0, 2], [ct, 1, 0, 0], [1, 1, 0, 0])
    ok = True
    for a, b in zip(t1.atoms, t2.atoms):
        if a == b:
            ok = ok and shash(a) == shash(b)
    for a, b in zip(t1.bonds, t2.bonds):
        if a == b:
            ok = ok and _T.Bond.__hash__(a) == _T.Bond.__hash__(b)
    return ok
