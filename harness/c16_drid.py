"""C16 — DRID moments (mdtraj/geometry/src/dridkernels.cpp: drid_moments; moments.cpp: the one-pass running moments) through engine E5.

Both files are lowered from clang's JSON AST.  The atom coordinates are concrete (so WHICH distances are used is read off the arguments of the
inner sqrt); the inverse distances entering the running moments are SYMBOLIC reals u_0..u_{n-1} (sqrt of a concrete squared distance returns an
object whose reciprocal is the fresh unknown).  After n pushes the three outputs must be

      mean = sum u_i / n,      sqrt( sum (u_i - mean)^2 / n ),      cbrt( sum (u_i - mean)^3 / n )

i.e. the one-pass update formulas are polynomial identities in the u_i (decided by z3, degree 3), the second moment goes through sqrt and the
third through the REAL cube root (cbrt, defined for negative arguments: a left-skewed distribution has a negative third moment)."""
import os
import subprocess
import sys
import tempfile
import time
from fractions import Fraction as F

import z3

from vtlib import cxxsym as X
from vtlib.core import REPO

G = REPO / "mdtraj" / "geometry"

_REPLAY = r'''
import sys, os, ctypes, tempfile, subprocess, numpy as np
def _die(*a):
    import traceback; traceback.print_exception(*a); os._exit(3)
sys.excepthook = _die
REPO = os.environ.get("VT_REPO", "/repo"); G = REPO + "/mdtraj/geometry"
d = tempfile.mkdtemp()
subprocess.check_call(["g++", "-O2", "-msse4.1", "-shared", "-fPIC", "-I" + G + "/include", "-I" + G + "/src/kernels", G + "/src/dridkernels.cpp", G + "/src/moments.cpp", "-o", d + "/k.so"])
lib = ctypes.CDLL(d + "/k.so")
fn = getattr(lib, [n for n in ("drid_moments", "_Z12drid_momentsPfiPiiPd") if hasattr(lib, n)][0])
bad = 0
for name, pts in (("right-skewed (one close partner, three far)", [[0, 0, 0], [0.2, 0, 0], [2.0, 0, 0], [0, 2.1, 0], [0, 0, 2.2]]),
                  ("left-skewed (three close partners, one far)", [[0, 0, 0], [0.2, 0, 0], [0, 0.21, 0], [0, 0, 0.22], [3.0, 0, 0]])):
    xyz = np.array(pts, dtype=np.float32); partners = np.array([1, 2, 3, 4], dtype=np.int32); out = np.zeros(3)
    fn(xyz.ctypes.data_as(ctypes.c_void_p), 0, partners.ctypes.data_as(ctypes.c_void_p), 4, out.ctypes.data_as(ctypes.c_void_p))
    u = 1.0 / np.linalg.norm(xyz[1:].astype(float) - xyz[0].astype(float), axis=1)
    want = [u.mean(), np.sqrt(((u - u.mean()) ** 2).mean()), np.cbrt(((u - u.mean()) ** 3).mean())]
    ok = np.allclose(out, want, rtol=1e-5, atol=1e-7, equal_nan=False)
    print(name, ": kernel", out.tolist(), " closed form", [float(x) for x in want], "" if ok else "  <-- differs")
    bad += not ok
sys.exit(1 if bad else 0)
'''


def _replay():
    with tempfile.NamedTemporaryFile("w", suffix=".py", delete=False) as fh:
        fh.write(_REPLAY)
    r = subprocess.run([sys.executable, fh.name], capture_output=True, text=True, env=dict(os.environ, VT_REPO=str(REPO)))
    os.unlink(fh.name)
    return r.returncode == 1, _REPLAY + "\n# " + (r.stdout + r.stderr)[-600:].replace("\n", "\n# ")


class _Recip:
    def __init__(self, u):
        self.u = u


def drid_moments(n: int = 4):
    t0 = time.time()
    inc = [str(G / "include"), str(G / "src" / "kernels")]
    P1 = X.Program(G / "src" / "moments.cpp", ["moments_clear", "moments_push", "moments_mean", "moments_second", "moments_third"], [], [], inc, plain_structs=("moments_t",))
    P2 = X.Program(G / "src" / "dridkernels.cpp", ["drid_moments"], [], [], inc, plain_structs=("moments_t",))
    n_atoms = n + 2
    coords = [F((7 * k * k + 3 * k) % 11, 4) + F(k, 9) for k in range(3 * n_atoms)]
    index = 1
    partners = [p for p in ((5 * k + 2) % n_atoms for k in range(n_atoms)) if p != index]
    partners = (partners + [p for p in range(n_atoms) if p != index and p not in partners])[:n]
    U = [z3.Real(f"u{k}") for k in range(n)]
    seen_d, finals = [], {}

    def sqrt(x):
        if not X.is_sym(x):
            seen_d.append(F(x))
            return _Recip(X.SReal(U[len(seen_d) - 1]))
        finals["sqrt"] = x
        return X.SReal(z3.Real("out_sqrt"))

    def cbrt(x):
        finals["cbrt"] = x
        return X.SReal(z3.Real("out_cbrt"))

    def pow_(x, y):
        finals["pow"] = (x, y)
        return X.SReal(z3.Real("out_pow"))

    def fdiv(a, b):
        if isinstance(b, _Recip):
            return b.u if a == 1 else a * b.u
        if not X.is_sym(b):
            return a * (F(1) / F(b))                      # division by a concrete count: exact, no auxiliary unknown
        return X.FDIV(a, b)
    P2.stubs = {"moments_t": X.Struct, "sqrt": sqrt, "cbrt": cbrt, "pow": pow_, "powf": pow_, **{k: P1.env[k] for k in ("moments_clear", "moments_push", "moments_mean", "moments_second", "moments_third")}}
    P2.env["FDIV"] = fdiv
    P1.env["FDIV"] = fdiv
    X.CTX = X.Ctx()
    out = [None, None, None]
    try:
        P2.env["drid_moments"](list(coords), index, list(partners), n, out)
    except (X.Unsupported, X.LowerError) as e:
        return {"status": "inconclusive", "detail": f"{type(e).__name__}: {e}"}
    problems = []
    want_d = [sum((coords[3 * index + c] - coords[3 * p + c]) ** 2 for c in range(3)) for p in partners]
    if seen_d != want_d:
        problems.append("the inverse distances are not those from the atom to its partners, in order")
    s = z3.Solver()
    s.set("timeout", 60000)
    q, zs = 0, 0.0

    def same(name, got, want):
        nonlocal q, zs
        s.push()
        s.add(X.tz(got) != want)
        t = time.time()
        r = s.check()
        zs += time.time() - t
        q += 1
        s.pop()
        if r == z3.sat:
            problems.append(name)
        elif r != z3.unsat:
            problems.append(name + " (solver: unknown)")
    mean = sum(U[1:], U[0]) / n
    m2 = sum(((u - mean) * (u - mean) for u in U[1:]), (U[0] - mean) * (U[0] - mean)) / n
    m3 = sum(((u - mean) * (u - mean) * (u - mean) for u in U[1:]), (U[0] - mean) * (U[0] - mean) * (U[0] - mean)) / n
    same("moments[0] is not the mean of the inverse distances", out[0], mean)
    if "sqrt" not in finals or not (X.is_sym(out[1]) and z3.eq(X.tz(out[1]), z3.Real("out_sqrt"))):
        problems.append("moments[1] is not a square root")
    else:
        same("moments[1] is not the square root of the second central moment", finals["sqrt"], m2)
    if "cbrt" not in finals or not (X.is_sym(out[2]) and z3.eq(X.tz(out[2]), z3.Real("out_cbrt"))):
        problems.append("moments[2] is not the real cube root (cbrt) of something" + (": pow(x, 1/3) is undefined (NaN) for a negative third moment" if "pow" in finals else ""))
    else:
        same("moments[2] is not the cube root of the third central moment", finals["cbrt"], m3)
    res = {"queries": q, "solver_s": round(zs, 2), "wall_s": round(time.time() - t0, 2), "partners": partners}
    if problems:
        rep, script = _replay()
        return {**res, "status": "cex", "detail": "; ".join(problems[:3]), "cex": {"goal": "drid", "key": "drid", "inputs": {"problems": problems}, "reproduced": rep, "replay_script": script}}
    return {**res, "status": "holds", "twin_ok": q == 3}
