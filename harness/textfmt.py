"""Builders for the text trajectory formats over in-memory files (shared by C18 / C02 harnesses).

A file holds frames 0..total-1; frame i has N_ATOMS atoms, atom j at (i, j, 0) in native units, so a
returned coordinate block identifies which frame and which atoms were read.  `mk_<fmt>(total, pos)`
returns a real file object of the class under test positioned at frame `pos` *without* running its
constructor: the fields the real __init__ sets are installed directly and the in-memory file is
positioned at the first line of frame `pos` — that pair is the representation invariant of the cursor.
"""
import vtlib.xhfix  # noqa: F401  (CrossHair configuration; see module docstring)
import io

from vtlib.xhfix import conc

import mdtraj.formats.arc as _arc
import mdtraj.formats.gro as _gro
import mdtraj.formats.lammpstrj as _lmp
import mdtraj.formats.mdcrd as _mdcrd
import mdtraj.formats.xyzfile as _xyz

N_ATOMS = 3
_GROCls = _gro.GroTrajectoryFile
_MDCRDCls, _XYZCls, _LMPCls, _ARCCls = (_mdcrd.MDCRDTrajectoryFile, _xyz.XYZTrajectoryFile, _lmp.LAMMPSTrajectoryFile,
                                        _arc.ArcTrajectoryFile)   # captured: harnesses may rebind the module globals
MAXF = 8


def _mdcrd_frame(i, box):
    vals = []
    for j in range(N_ATOMS):
        vals += [float(i), float(j), 0.0]
    s = "".join("%8.3f" % v for v in vals) + "\n"       # 9 values: one line (max 10 per line)
    if box:
        s += "%8.3f%8.3f%8.3f\n" % (50.0 + i, 50.0, 50.0)
    return s.encode()


def _xyz_frame(i):
    s = "%d\nframe %d\n" % (N_ATOMS, i)
    for j in range(N_ATOMS):
        s += "X %.3f %.3f %.3f\n" % (i, j, 0)
    return s


def _lmp_frame(i):
    s = "ITEM: TIMESTEP\n%d\nITEM: NUMBER OF ATOMS\n%d\nITEM: BOX BOUNDS pp pp pp\n0 %d\n0 50\n0 50\n" % (i, N_ATOMS, 50 + i)
    s += "ITEM: ATOMS id type xu yu zu\n"
    for j in range(N_ATOMS):
        s += "%d 1 %.3f %.3f %.3f\n" % (j + 1, i, j, 0)
    return s


def _arc_frame(i):
    s = "%6d  frame %d\n" % (N_ATOMS, i)
    for j in range(N_ATOMS):
        s += "%6d  C  %12.6f%12.6f%12.6f     1\n" % (j + 1, i, j, 0)
    return s


def _gro_frame(i):
    s = "frame %d, t= %.1f\n%5d\n" % (i, 2.0 * i, N_ATOMS)
    for j in range(N_ATOMS):
        s += "%5d%-5s%5s%5d%8.3f%8.3f%8.3f\n" % (1, "ALA", "C%d" % j, j + 1, i, j, 0)
    s += "%10.5f%10.5f%10.5f\n" % (5.0 + i, 6.0, 7.0)
    return s


_GRO = [_gro_frame(i) for i in range(MAXF)]
_MDCRD = {b: [_mdcrd_frame(i, b) for i in range(MAXF)] for b in (False, True)}
_XYZ = [_xyz_frame(i) for i in range(MAXF)]
_LMP = [_lmp_frame(i) for i in range(MAXF)]
_ARC = [_arc_frame(i) for i in range(MAXF)]
_TITLE = b"title\n"


class Store:
    """The 'disk': path -> content; `open` of the module under test is bound to this."""

    def __init__(self, content, binary):
        self.content, self.binary, self.opens = content, binary, 0

    def open(self, filename, mode="r", *a, **k):
        self.opens += 1
        return io.BytesIO(self.content) if self.binary else io.StringIO(self.content)


def mk_mdcrd(total, pos, box=False):
    total, pos = conc(total), conc(pos)
    frames = _MDCRD[bool(box)][:total]
    st = Store(_TITLE + b"".join(frames), True)
    _mdcrd.open = st.open
    f = object.__new__(_MDCRDCls)
    f._is_open, f._filename, f._n_atoms, f._mode, f._w_has_box = True, "mem.mdcrd", N_ATOMS, "r", None
    f._has_box = "detect"
    f._fh = st.open("mem.mdcrd", "rb")
    f._fh.seek(len(_TITLE) + sum(len(x) for x in frames[:pos]))
    f._frame_index = pos
    f._line_counter = 1 + pos * (2 if box else 1)
    f._store = st
    return f


def mk_xyz(total, pos):
    total, pos = conc(total), conc(pos)
    frames = _XYZ[:total]
    st = Store("".join(frames), False)
    _xyz.open = st.open
    f = object.__new__(_XYZCls)
    f._is_open, f._filename, f._mode, f._n_atoms, f._n_frames = True, "mem.xyz", "r", None, None
    f._fh = st.open("mem.xyz")
    f._fh.seek(sum(len(x) for x in frames[:pos]))
    f._frame_index = pos
    f._line_counter = pos * (2 + N_ATOMS)
    f._store = st
    return f


def mk_lammpstrj(total, pos):
    total, pos = conc(total), conc(pos)
    frames = _LMP[:total]
    st = Store("".join(frames), False)
    _lmp.open = st.open
    f = object.__new__(_LMPCls)
    f._is_open, f._filename, f._mode, f._n_atoms = True, "mem.lammpstrj", "r", None
    f._fh = st.open("mem.lammpstrj")
    f._fh.seek(sum(len(x) for x in frames[:pos]))
    f._frame_index = pos
    f._line_counter = pos * (9 + N_ATOMS)
    if pos > 0:   # what reading frame 0 established
        f._atom_index_column, f._atom_type_column, f._xyz_columns = 0, 1, [2, 3, 4]
    f._store = st
    return f


def mk_arc(total, pos):
    total, pos = conc(total), conc(pos)
    frames = _ARC[:total]
    st = Store("".join(frames), False)
    _arc.open = st.open
    f = object.__new__(_ARCCls)
    f._is_open, f._filename, f._mode, f.topology = True, "mem.arc", "r", None
    f._fh = st.open("mem.arc")
    f._fh.seek(sum(len(x) for x in frames[:pos]))
    f._frame_index = pos
    f._line_counter = pos * (1 + N_ATOMS)
    f._store = st
    return f


def mk_gro(total, pos, top=None):
    total, pos = conc(total), conc(pos)
    frames = _GRO[:total]
    st = Store("".join(frames), False)
    f = object.__new__(_GROCls)
    f._open, f._mode, f._frame_index, f.n_atoms, f.topology = True, "r", 0, N_ATOMS, top
    f._file = st.open("mem.gro")
    f._file.seek(sum(len(x) for x in frames[:pos]))
    f._store = st
    return f


def frame_ids(xyz):
    """ids of the frames in a returned coordinate block (x of the first returned atom is the id)."""
    if xyz is None or len(xyz) == 0:
        return []
    return [int(round(float(fr[0][0]))) for fr in xyz]


def atom_ids(xyz):
    if xyz is None or len(xyz) == 0:
        return None
    return [int(round(float(a[1]))) for a in xyz[0]]


def coords_of(out):
    return out[0] if isinstance(out, tuple) else out
