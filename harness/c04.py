"""C04 — topology transformations preserve atoms, residues, chains and bonds; == implies equal hash; copies are
independent.  Real Topology code under CrossHair; topologies of a fixed small SHAPE (2 chains; residues of
2,1 | 1 atoms; four bonds incl. cross-residue and cross-chain) whose every attribute is symbolic."""
import vtlib.xhfix  # noqa: F401
from mdtraj.core import element as _el
from mdtraj.core import topology as _T
from mdtraj.core.topology import Topology
from vtlib.xhfix import conc

ELEMS = [_el.carbon, _el.nitrogen, _el.oxygen, _el.hydrogen, _el.sulfur, _el.virtual]
BTYPES = [None, _T.Single, _T.Double, _T.Triple, _T.Aromatic, _T.Amide]
ORDERS = [None, 1, 2, 3]
BOND_PAIRS = [(0, 1), (1, 2), (2, 3), (0, 3)]       # within residue, across residues, across chains, long


def build(an, rn, sg, cid, ser, rs, el, bt, bo):
    """an: 4 atom names, rn: 3 residue names, sg: 3 segment ids, cid: 2 chain ids (None allowed), ser: 4 serials,
    rs: 3 resSeq, el: 4 element indices, bt/bo: 4 bond type / order indices (concrete ints)."""
    t = Topology()
    cA = t.add_chain(cid[0])
    r0 = t.add_residue(rn[0], cA, rs[0], sg[0])
    a0 = t.add_atom(an[0], ELEMS[el[0]], r0, serial=ser[0])
    a1 = t.add_atom(an[1], ELEMS[el[1]], r0, serial=ser[1])
    r1 = t.add_residue(rn[1], cA, rs[1], sg[1])
    a2 = t.add_atom(an[2], ELEMS[el[2]], r1, serial=ser[2])
    cB = t.add_chain(cid[1])
    r2 = t.add_residue(rn[2], cB, rs[2], sg[2])
    a3 = t.add_atom(an[3], ELEMS[el[3]], r2, serial=ser[3])
    atoms = [a0, a1, a2, a3]
    for k, (i, j) in enumerate(BOND_PAIRS):
        t.add_bond(atoms[i], atoms[j], type=BTYPES[bt[k]], order=ORDERS[bo[k]])
    return t


def snapshot(t):
    """everything observable about a topology, as plain data"""
    return {
        "chains": [(c.index, c.chain_id, [r.index for r in c.residues]) for c in t.chains],
        "residues": [(r.index, r.name, r.resSeq, r.segment_id, r.chain.index, [a.index for a in r.atoms]) for r in t.residues],
        "atoms": [(a.index, a.name, a.element.symbol, a.serial, a.residue.index) for a in t.atoms],
        "bonds": sorted((b[0].index, b[1].index, repr(b.type), b.order) for b in t.bonds),
        "n": (t.n_atoms, t.n_residues, t.n_chains, t._numAtoms, t._numResidues),
    }


def own_bonds(t):
    atoms = list(t.atoms)
    return all(any(b[0] is a for a in atoms) and any(b[1] is a for a in atoms) for b in t.bonds)


def wellformed(t):
    ok = [a.index for a in t.atoms] == list(range(t.n_atoms)) and [r.index for r in t.residues] == list(range(t.n_residues)) \
        and [c.index for c in t.chains] == list(range(t.n_chains))
    ok = ok and t._numAtoms == len(list(t.atoms)) and t._numResidues == len(list(t.residues))
    ok = ok and [a for r in t.residues for a in r.atoms] == list(t.atoms) and [r for c in t.chains for r in c.residues] == list(t.residues)
    return ok and own_bonds(t)


def _els(e0, e1):
    return [conc(e0, 0, 5), conc(e1, 0, 5), 0, 1]


# ------------------------------------------------------------------ copy

def copy_preserves(n0: str, n1: str, r0: str, s0: str, c0: str, c1: str, ser0: int, ser1: int, rs0: int, rs1: int, cnone: bool) -> bool:
    """
    pre: len(n0) <= 3 and len(n1) <= 3 and len(r0) <= 3 and len(s0) <= 2 and len(c0) <= 1 and len(c1) <= 1
    post: __return__
    """
    t = build([n0, n1, "CA", "O"], [r0, "GLY", "HOH"], [s0, "", "S2"], [None if cnone else c0, c1], [ser0, ser1, 7, 7], [rs0, rs1, rs0],
              [0, 1, 0, 2], [1, 2, 0, 5], [1, 0, 1, 2])
    before = snapshot(t)
    c = t.copy()
    return snapshot(c) == before and snapshot(t) == before and wellformed(c) and c == t


def copy_kinds(e0: int, bt: int, bo: int) -> bool:
    """
    pre: 0 <= e0 <= 5 and 0 <= bt <= 5 and 0 <= bo <= 3
    post: __return__
    """
    e0, bt, bo = conc(e0, 0, 5), conc(bt, 0, 5), conc(bo, 0, 3)
    t = build(["N", "CA", "C", "O"], ["ALA", "GLY", "HOH"], ["", "", "S2"], ["A", "B"], [1, 2, 3, 4], [1, 2, 3], [e0, 1, 0, (e0 + 1) % 6], [bt, 1, 0, (bt + 2) % 6], [bo, 0, 1, (bo + 1) % 4])
    before = snapshot(t)
    c = t.copy()
    return snapshot(c) == before and wellformed(c) and c == t


def deepcopy_preserves(n0: str, c0: str, rs0: int, cnone: bool) -> bool:
    """
    pre: len(n0) <= 3 and len(c0) <= 1
    post: __return__
    """
    import copy
    t = build([n0, "N", "CA", "O"], ["ALA", "GLY", "HOH"], ["", "", ""], [None if cnone else c0, "B"], [1, 2, 3, 4], [rs0, 5, 5],
              [0, 1, 0, 2], [1, 2, 0, 3], [1, 2, 0, 3])
    before = snapshot(t)
    return snapshot(copy.deepcopy(t)) == before and snapshot(copy.copy(t)) == before and wellformed(copy.deepcopy(t))


def copy_independent(op: int, side: bool, idx: int, name: str) -> bool:
    """
    pre: 0 <= op <= 2 and 0 <= idx <= 3 and len(name) <= 2
    post: __return__
    """
    op, idx = conc(op, 0, 2), conc(idx, 0, 3)
    t = build(["N", "CA", "C", "O"], ["ALA", "GLY", "HOH"], ["", "", ""], ["A", "B"], [1, 2, 3, 4], [1, 2, 3], [1, 0, 0, 2], [1, 1, 1, 0], [1, 1, 1, 0])
    c = t.copy()
    edited, other = (t, c) if side else (c, t)
    before = snapshot(other)
    if op == 0:
        edited.insert_atom(name, _el.hydrogen, edited.residue(0), index=idx, rindex=0)
    elif op == 1:
        edited.delete_atom_by_index(idx)
    else:
        edited.add_bond(edited.atom(1), edited.atom(3))
    return snapshot(other) == before and own_bonds(other)


# ------------------------------------------------------------------ subset

def _check_subset(t, keep):
    before = snapshot(t)
    s = t.subset(keep)
    if snapshot(t) != before or not wellformed(s):
        return False
    new = {old: i for i, old in enumerate(keep)}
    b = before
    # atoms: every kept atom's name / element / serial, renumbered contiguously in order
    if [(x[1], x[2], x[3]) for x in snapshot(s)["atoms"]] != [(b["atoms"][i][1], b["atoms"][i][2], b["atoms"][i][3]) for i in keep]:
        return False
    # residues: those with a kept atom, with name / resSeq / segment id
    kept_res = [r for r in b["residues"] if any(a in keep for a in r[5])]
    if [(r[1], r[2], r[3], [new[a] for a in r[5] if a in keep]) for r in kept_res] != [(r[1], r[2], r[3], r[5]) for r in snapshot(s)["residues"]]:
        return False
    # chains: those with a kept residue, with their identifier
    kept_ch = [c for c in b["chains"] if any(any(a in keep for a in b["residues"][ri][5]) for ri in c[2])]
    if [c[1] for c in kept_ch] != [c[1] for c in snapshot(s)["chains"]]:
        return False
    # bonds: exactly those whose two ends survive, re-pointed, with type and order
    want = sorted((new[i], new[j], ty, od) for (i, j, ty, od) in b["bonds"] if i in new and j in new)
    return snapshot(s)["bonds"] == want


def subset_preserves(n0: str, r0: str, s0: str, c0: str, ser0: int, rs0: int, rs1: int, cnone: bool, k0: bool, k1: bool, k2: bool, k3: bool) -> bool:
    """
    pre: len(n0) <= 3 and len(r0) <= 3 and len(s0) <= 2 and len(c0) <= 1
    pre: k0 or k1 or k2 or k3
    post: __return__
    """
    t = build([n0, "CB", "CA", "O"], [r0, "GLY", "HOH"], [s0, "", "S2"], [c0, None if cnone else "B"], [ser0, 12, 7, 7], [rs0, rs1, rs0],
              [1, 0, 0, 2], [1, 2, 0, 5], [1, 0, 1, 2])
    return _check_subset(t, [i for i, k in enumerate((k0, k1, k2, k3)) if k])


def subset_kinds(e0: int, bt: int, bo: int, k0: bool, k1: bool, k2: bool, k3: bool) -> bool:
    """
    pre: 0 <= e0 <= 5 and 0 <= bt <= 5 and 0 <= bo <= 3
    pre: k0 or k1 or k2 or k3
    post: __return__
    """
    e0, bt, bo = conc(e0, 0, 5), conc(bt, 0, 5), conc(bo, 0, 3)
    t = build(["N", "CA", "C", "O"], ["ALA", "GLY", "HOH"], ["", "", "S2"], ["A", "B"], [1, 2, 3, 4], [0, 2, 0], [e0, 1, 0, (e0 + 1) % 6], [bt, 1, 0, (bt + 2) % 6], [bo, 0, 1, (bo + 1) % 4])
    return _check_subset(t, [i for i, k in enumerate((k0, k1, k2, k3)) if k])


# ------------------------------------------------------------------ join

def _check_join(t1, t2, keep):
    b1, b2 = snapshot(t1), snapshot(t2)
    j = t1.join(t2, keep_resSeq=keep)
    if snapshot(t1) != b1 or snapshot(t2) != b2 or not wellformed(j):
        return False
    sj = snapshot(j)
    if [x[1:4] for x in sj["atoms"]] != [x[1:4] for x in b1["atoms"]] + [x[1:4] for x in b2["atoms"]]:
        return False
    if [c[1] for c in sj["chains"]] != [c[1] for c in b1["chains"]] + [c[1] for c in b2["chains"]]:
        return False
    rs2 = [r[2] for r in b2["residues"]] if keep else [b1["residues"][-1][2] + 1 + i for i in range(3)]
    if [(r[1], r[2], r[3]) for r in sj["residues"]] != [(r[1], r[2], r[3]) for r in b1["residues"]] + [(r[1], rs, r[3]) for r, rs in zip(b2["residues"], rs2)]:
        return False
    want = sorted(b1["bonds"] + [(i + 4, k + 4, ty, od) for (i, k, ty, od) in b2["bonds"]])
    return sj["bonds"] == want


def join_preserves(n0: str, r0: str, s0: str, c0: str, ser0: int, rs0: int, keep: bool, cnone: bool) -> bool:
    """
    pre: len(n0) <= 3 and len(r0) <= 3 and len(s0) <= 2 and len(c0) <= 1
    post: __return__
    """
    t1 = build(["N", "CA", "C", "O"], ["ALA", "GLY", "HOH"], ["", "X", ""], ["A", None if cnone else c0], [1, 2, 3, 4], [1, 2, rs0], [1, 0, 0, 2], [1, 2, 0, 0], [1, 2, 0, 0])
    t2 = build([n0, "CB", "CA", "O"], [r0, "GLY", "HOH"], [s0, "", "S2"], [c0, "B"], [ser0, 12, 7, 7], [rs0, 9, rs0],
               [1, 0, 0, 2], [3, 1, 0, 2], [2, 0, 1, 2])
    return _check_join(t1, t2, keep)


def join_kinds(e0: int, bt: int, bo: int, keep: bool) -> bool:
    """
    pre: 0 <= e0 <= 5 and 0 <= bt <= 5 and 0 <= bo <= 3
    post: __return__
    """
    e0, bt, bo = conc(e0, 0, 5), conc(bt, 0, 5), conc(bo, 0, 3)
    t1 = build(["N", "CA", "C", "O"], ["ALA", "GLY", "HOH"], ["", "X", ""], ["A", "B"], [1, 2, 3, 4], [1, 2, 3], [1, 0, 0, 2], [1, 2, 0, 0], [1, 2, 0, 0])
    t2 = build(["N", "CB", "CA", "O"], ["SER", "GLY", "HOH"], ["", "", "S2"], ["C", "D"], [5, 12, 7, 7], [4, 9, 9], [e0, 0, 0, (e0 + 1) % 6], [bt, 1, 0, (bt + 2) % 6], [bo, 0, 1, (bo + 1) % 4])
    return _check_join(t1, t2, keep)


def join_independent(which: int, op: int, idx: int, keep: bool) -> bool:
    """
    pre: 0 <= which <= 2 and 0 <= op <= 2 and 0 <= idx <= 3
    post: __return__
    """
    which, op, idx = conc(which, 0, 2), conc(op, 0, 2), conc(idx, 0, 3)
    full = lambda: build(["N", "CA", "C", "O"], ["ALA", "GLY", "HOH"], ["", "X", ""], ["A", "B"], [1, 2, 3, 4], [1, 2, 3], [1, 0, 0, 2], [1, 2, 0, 0], [1, 2, 0, 0])
    t1 = Topology() if which == 1 else full()          # which: 0 both non-empty, 1 empty left operand, 2 empty right operand
    t2 = Topology() if which == 2 else full()
    b1, b2 = snapshot(t1), snapshot(t2)
    j = t1.join(t2, keep_resSeq=True if which == 1 else keep)
    if j is t1 or j is t2 or not wellformed(j):
        return False
    # the result is a new object: editing it must leave both operands exactly as they were
    if op == 0:
        j.insert_atom("H", _el.hydrogen, j.residue(0), index=idx, rindex=0)
    elif op == 1:
        j.delete_atom_by_index(idx)
    else:
        j.add_bond(j.atom(1), j.atom(3))
    return snapshot(t1) == b1 and snapshot(t2) == b2 and own_bonds(t1) and own_bonds(t2)
