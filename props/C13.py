from vtlib.core import Obl

FILES = ["mdtraj/geometry/src/sasa.cpp", "mdtraj/geometry/sasa.py"]
META = {
    "files": FILES,
    "explanation": "E3 llsym on the IR of `sasa` (asa_frame and generate_sphere_points inlined), 2 frames: frame 0 concrete, frame 1 with SYMBOLIC coordinates, "
                   "concrete radii, n_sphere_points in {2,4}; the interpreter forks on every neighbour and point-in-sphere comparison and for each "
                   "feasible path z3 decides that the per-group output of frame 1 equals the independent evaluation on the same golden-spiral points "
                   "(count of points outside every neighbouring sphere times (4 pi/n) r^2, summed per group over SELECTED atoms); malloc'ed work buffers "
                   "read as fresh symbols. E1 CrossHair on sasa.py with the kernel replaced by that contract: radii = table|override + probe, selection "
                   "mask, residue mode = sum over the residue's selected atoms, -1 for unselected atoms and residues without a selected atom.",
    "trusted_base": ["clang 14 -O2 IR", "vtlib/llsym.py", "z3", "CrossHair", "monomial naming (kernel and specification expand to the same monomials)",
                     "geometric lemma: a non-neighbour (|ci-cj| >= ri+rj) cannot contain a point of sphere i (triangle inequality) — the specification uses the same prefilter"],
    "assumptions": ["atoms are not coincident (the code exits; property excludes it)", "sphere-point trigonometry evaluated numerically on constants and checked against the documented formula to 2e-6"],
    "out": ["quadrature error vs analytic areas", "n_sphere_points beyond 4 and more than 3 atoms (path count grows as 2^(points x neighbours))", "the Cython glue _geometry.pyx"],
}


def obligations():
    H = "harness.c13"
    enc = ["sasa.cpp:sasa", "sasa.cpp:asa_frame", "sasa.cpp:generate_sphere_points"]
    o = [
        Obl("C13.kernel.1atom", "py", H, "check_sasa", enc, "1 atom, 2 points", "isolated atom: every point accessible: 4 pi r^2", 120, params={"n_atoms": 1, "n_points": 2}, twin=False),
        Obl("C13.kernel.2atoms_2pts", "py", H, "check_sasa", enc, "2 atoms, 2 points, all selected, atom mode", "areas equal the independent evaluation on every path", 300, params={"n_atoms": 2, "n_points": 2}),
        Obl("C13.kernel.2atoms_4pts", "py", H, "check_sasa", enc, "2 atoms, 4 points", "same", 600, params={"n_atoms": 2, "n_points": 4}),
        Obl("C13.kernel.groups", "py", H, "check_sasa", enc, "2 atoms mapped to one group (residue mode)", "group output is the sum over its atoms", 300, params={"n_atoms": 2, "n_points": 2, "mapping": "residue"}),
        Obl("C13.kernel.3atoms_2groups_1pt", "py", H, "check_sasa", enc, "3 atoms in 2 groups (fewer groups than atoms), 1 point", "group sums with n_groups < n_atoms across two frames", 600, params={"n_atoms": 3, "n_points": 1, "mapping": "residue", "max_paths": 20000}),
        Obl("C13.kernel.mask_first", "py", H, "check_sasa", enc, "2 atoms, only the first selected", "unselected atoms contribute nothing and still shadow selected ones", 300, params={"n_atoms": 2, "n_points": 2, "mask": "first"}),
        Obl("C13.kernel.mask_rest", "py", H, "check_sasa", enc, "2 atoms, only the second selected", "same", 300, params={"n_atoms": 2, "n_points": 2, "mask": "rest"}),
        Obl("C13.kernel.3atoms", "py", H, "check_sasa", enc, "3 atoms, 2 points (about 1000 paths)", "same with a third atom (neighbour cache order)", 1500, params={"n_atoms": 3, "n_points": 2, "max_paths": 20000}, tiers=("thorough",)),
        Obl("C13.kernel.3atoms_groups", "py", H, "check_sasa", enc, "3 atoms in 2 groups, first unselected", "groups + mask together", 1500, params={"n_atoms": 3, "n_points": 2, "mapping": "residue", "mask": "rest", "max_paths": 20000}, tiers=("thorough",)),
        Obl("C13.python.bookkeeping", "xh", "harness.c13_py", "bookkeeping", ["mdtraj.geometry.sasa.shrake_rupley"], "5 atoms in 3 residues; mode x every atom subset x probe in {0,.1,.2,.3} x change_radii x get_mapping",
            "radii, mask and mapping handed to the kernel; residue mode = sum over selected atoms; -1 for unselected atoms and residues without selected atoms; kept values unchanged by subsetting", 600,
            pre="not two_chains and not primed", quick_pre="probe10 <= 1 and not get_mapping", timeout_thorough=2400),
        Obl("C13.python.bookkeeping.two_chains", "xh", "harness.c13_py", "bookkeeping", ["mdtraj.geometry.sasa.shrake_rupley (residue mapping)"], "the same 5 atoms with residues 1 and 2 in a SECOND chain; mode x change_radii x get_mapping x atom subsets",
            "residue mode maps atoms to GLOBAL residue indices whatever the chain (per-chain numbering would fold chain 2 into chain 1)", 600,
            pre="two_chains and not primed and probe10 == 0", quick_pre="(not use_idx) or (k0 and k3 and not k1)", timeout_thorough=1200),
        Obl("C13.python.bookkeeping.history", "xh", "harness.c13_py", "bookkeeping", ["mdtraj.geometry.sasa.shrake_rupley (radii per call)"], "history: a first call on the same topology and probe radius with OTHER radii (an override, or the defaults), then the checked call",
            "the radii of a call are the documented table plus THIS call's change_radii: nothing is remembered per topology", 600,
            pre="primed and not two_chains and not use_idx and probe10 <= 1", timeout_thorough=1200),
    ]
    return o


MANIFEST_INFO = {
    "engine": "llsym",
    "technique": "forking symbolic interpretation of sasa.cpp's LLVM IR with symbolic coordinates; per path z3 compares with an independent evaluation on the same point set; CrossHair for the Python bookkeeping",
    "text": "For every coordinate configuration of 2 (thorough: 3) atoms and 2-4 sphere points the kernel's per-group areas equal the independent count, stale scratch memory and the previous frame have no influence, and the Python layer's radii/mask/mapping/-1 bookkeeping is decided for every atom subset.",
    "note": "Small systems only (path explosion); real-arithmetic floats; Cython glue not encodable. The stale-accumulator defect found here was fixed in the C source (the installed extension cannot be rebuilt in this sandbox).",
}
