from vtlib.core import Obl

FILES = ["mdtraj/formats/hdf5.py", "mdtraj/formats/netcdf.py", "mdtraj/formats/mdcrd.py", "mdtraj/formats/xyzfile.py",
         "mdtraj/formats/lammpstrj.py", "mdtraj/formats/arc.py"]

META = {
    "files": FILES,
    "explanation": "Bounded symbolic execution (CrossHair/z3) of the real read/seek/tell/__len__ methods of the Python "
                   "trajectory file classes on in-memory fake back ends. Primary form: ONE operation from an ARBITRARY valid "
                   "cursor state (total, pos) compared with a 5-line cursor model; since the state after the step is again a "
                   "valid state, this covers operation histories of any length. Bounds: total<=6 frames, n<=7, |offset|<=7, "
                   "4 atoms with every non-empty increasing subset.",
    "trusted_base": ["CrossHair 0.0.110 + z3 5.1.0", "vtlib/fakes.py (FakeNode/FakeVar index frame ids with Python slice semantics)",
                     "stub: np.inf -> 2**62 inside the module under test"],
    "assumptions": ["pytables/netCDF4/scipy variables implement basic slicing like Python lists (frame ids stand for frames)",
                    "seek arguments are in range, as the property states"],
    "out": ["xtc/trr/dcd/dtr file classes (Cython; cannot be rebuilt or executed symbolically here)"],
}


def obligations():
    o = []
    for fmt, Cls in (("h5", "HDF5TrajectoryFile"), ("nc", "NetCDFTrajectoryFile")):
        enc = [f"mdtraj.formats.{'hdf5' if fmt == 'h5' else 'netcdf'}.{Cls}.{m}" for m in ("read", "seek", "tell", "__len__")]
        o += [
            Obl(f"C18.{fmt}.read_n", "xh", "harness.c18_array", f"{fmt}_read_n", enc, "total<=6, 0<=pos<=total, 1<=n<=7",
                "read(n) returns ids[pos:pos+n], tell advances by the number returned, len unchanged", 60,
                replay="harness.c18_replay:replay"),
            Obl(f"C18.{fmt}.read_all", "xh", "harness.c18_array", f"{fmt}_read_all", enc, "total<=6, 0<=pos<=total",
                "read() returns ids[pos:], leaves tell()==total", 60, replay="harness.c18_replay:replay"),
            Obl(f"C18.{fmt}.read_atoms", "xh", "harness.c18_array", f"{fmt}_read_atoms", enc, "total<=4, n<=4, all non-empty subsets of 4 atoms",
                "read(n, atom_indices) returns the same frames restricted to exactly those atoms; time follows", 90,
                replay="harness.c18_replay:replay"),
            Obl(f"C18.{fmt}.seek", "xh", "harness.c18_array", f"{fmt}_seek", enc, "total<=6, whence in {0,1,2}, in-range offsets",
                "seek(off, whence) then tell()/read(1) agree with the cursor model", 60, replay="harness.c18_replay:replay"),
            Obl(f"C18.{fmt}.two_handles", "xh", "harness.c18_array", f"{fmt}_two_handles", enc, "total<=5, op on A in {read(n),read(),seek}",
                "an operation on handle A does not change what handle B reads next, its tell or len", 90),
        ]
    for fmt, Cls, mod in (("mdcrd", "MDCRDTrajectoryFile", "mdcrd"), ("xyz", "XYZTrajectoryFile", "xyzfile"),
                          ("lammpstrj", "LAMMPSTrajectoryFile", "lammpstrj")):
        enc = [f"mdtraj.formats.{mod}.{Cls}.{m}" for m in ("read", "_read", "seek", "tell")]
        T = "in-memory file of total<=5 frames x 3 atoms"
        o += [
            Obl(f"C18.{fmt}.read_n", "xh", "harness.c18_text", f"{fmt}_read_n", enc, T + ", 0<=pos<=total, 1<=n<=6",
                "read(n) returns the next n frames, tell advances by the number returned", 90, replay="harness.c18_replay:replay"),
            Obl(f"C18.{fmt}.read_all", "xh", "harness.c18_text", f"{fmt}_read_all", enc, T, "read() returns the remainder and leaves tell()==total", 90,
                replay="harness.c18_replay:replay"),
            Obl(f"C18.{fmt}.read_atoms", "xh", "harness.c18_text", f"{fmt}_read_atoms", enc, "total<=3, n<=3, every non-empty subset of 3 atoms",
                "read(n, atom_indices) returns the same frames restricted to those atoms", 120),
            Obl(f"C18.{fmt}.seek", "xh", "harness.c18_text", f"{fmt}_seek", enc, T + ", whence in {0,1}, in-range offsets (whence=2 is documented as unsupported)",
                "seek then tell/read(1) agree with the cursor model, forwards (skip-read) and backwards (re-open and skip)", 120,
                replay="harness.c18_replay:replay"),
        ] + [
            Obl(f"C18.{fmt}.two_handles.{k}", "xh", "harness.c18_text", f"{fmt}_two_handles_{k}", enc, "total<=3, n<=3",
                f"{k} on handle A does not change what handle B reads next nor its tell", 120) for k in ("read_n", "read_all", "seek")
        ]
    enc = ["mdtraj.formats.mdcrd.MDCRDTrajectoryFile.read", "mdtraj.formats.mdcrd.MDCRDTrajectoryFile._read", "mdtraj.formats.mdcrd.MDCRDTrajectoryFile.seek"]
    o += [Obl("C18.mdcrd.box.read_n", "xh", "harness.c18_text", "mdcrd_box_read_n", enc, "file with box lines, total<=5", "box-line peek-ahead keeps the cursor on frame boundaries", 90),
          Obl("C18.mdcrd.box.seek", "xh", "harness.c18_text", "mdcrd_box_seek", enc, "file with box lines, total<=5", "seek over frames with box lines", 120),
          Obl("C18.xyz.len", "xh", "harness.c18_text", "xyz_len", ["mdtraj.formats.xyzfile.XYZTrajectoryFile.__len__"], "total<=5, any pos",
              "len() reports the number of frames and does not disturb the cursor, whatever was done before", 60),
          Obl("C18.xyz.len_after_op", "xh", "harness.c18_text", "xyz_len_after_op", ["mdtraj.formats.xyzfile.XYZTrajectoryFile.__len__", "mdtraj.formats.xyzfile.XYZTrajectoryFile.read", "mdtraj.formats.xyzfile.XYZTrajectoryFile.seek"],
              "total<=4, any pos, op in {read(n), read(), seek}, length cache empty or filled", "len() is the number of frames regardless of what was done before (cached length stays None or the true length)", 120),
          Obl("C18.arc.read_n", "xh", "harness.c18_text", "arc_read_n", ["mdtraj.formats.arc.ArcTrajectoryFile.read", "mdtraj.formats.arc.ArcTrajectoryFile._read"], "total<=5",
              "sequential read(n) on TINKER arc returns the next n frames", 90),
          Obl("C18.arc.seek_tell", "xh", "harness.c18_text", "arc_seek_tell", ["mdtraj.formats.arc.ArcTrajectoryFile.seek", "mdtraj.formats.arc.ArcTrajectoryFile.tell"], "total<=5",
              "arc is listed as seekable: seek(k); tell()==k", 30)]
    for fmt, mod in (("h5", "harness.c18_array"), ("nc", "harness.c18_array"), ("mdcrd", "harness.c18_text"), ("xyz", "harness.c18_text"), ("lammpstrj", "harness.c18_text")):
        o.append(Obl(f"C18.{fmt}.history", "xh", mod, f"{fmt}_history", [f"{fmt}: read / seek / tell / __len__ in sequence on one freshly opened handle"],
                     "3 operations out of {read(n), read(), seek(k), seek(-d,1), seek(+d,1), len} with arguments 1..2 on files of 2..4 frames",
                     "after every operation the data returned, tell() and len() agree with a bare cursor over the frames (sequences exercise whatever private state the class keeps between calls)", 600,
                     quick_pre="total == 3 and a0 == 1 and a1 == 1 and a2 == 1", thorough_pre="total <= 3 and 1 <= a0 <= 2 and 1 <= a1 <= 2 and 1 <= a2 <= 2", timeout_thorough=3400))
    return o

MANIFEST_INFO = {
    "engine": "xh",
    "technique": "bounded symbolic execution of the real Python methods (CrossHair + z3), one step from an arbitrary valid cursor state, fake back ends",
    "text": "For the Python file classes, every single cursor operation from every valid (total<=6, pos) state is compared with a cursor model by the solver over all paths; the inductive step covers histories of any length inside the size bounds. Counterexamples are replayed on real files through md.open before being reported.",
    "note": "Trusted: CrossHair/z3, the fake back ends in vtlib/fakes.py, np.inf->2**62 stub. Not covered: xtc/trr/dcd/dtr (Cython classes cannot be rebuilt or symbolically executed here); sizes beyond the bounds.",
}
