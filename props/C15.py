from vtlib.core import Obl

FILES = ["mdtraj/geometry/dssp.py", "mdtraj/geometry/hbond.py", "mdtraj/geometry/src/dssp.cpp"]
META = {
    "files": FILES,
    "explanation": "Two layers. (1) THE RULES (dssp.cpp), engine E5 cxxsym: the functions are lowered from clang's JSON AST of the current source to Python, statement by statement "
                   "(std::vector / deque / map, iterators and sort by small container classes with C++ value semantics) and executed on a SYMBOLIC hydrogen-bond table: 2n integers "
                   "constrained only by kabsch_sander's output contract. Branches on symbolic conditions fork (one incremental z3 solver, a push level per decision); the leaf predicates "
                   "(_test_bond, _residue_test_bridge) are explored completely once and enter as one ite-term. Per path the solver enumerates the n-turn / bridge-type assignments BY THE "
                   "PAPER'S DEFINITIONS that are consistent with the path, and the codes written must equal those of reference rules typed in from Kabsch & Sander 1983 / DSSP 2.2.0 "
                   "(ref_beta, ref_helix). Separately: the bridge predicate as a term == the paper's definition for every residue pair; bulge-linked ladders for every gap combination "
                   "(n = 15, three seed pairs free, all other pairs assumed unbridged); the 70-degree bend on symbolic real coordinates (nlsat); the driver (skip mask from symbolic "
                   "index arrays, per-frame table and coordinates, letters). Counterexamples are H-bond tables replayed on a native build of the current dssp.cpp through a shim. "
                   "(2) THE PYTHON LAYER, E1 CrossHair on compute_dssp with the compiled routine replaced by a recorder answering symbolic codes: shape, 'NA' overlay exactly for residues "
                   "lacking N, CA, C or O, the simplified image, per-residue atom indices / proline flags / chain indices handed over.",
    "trusted_base": ["clang 14 -ast-dump=json", "vtlib/cxxsym.py (lowering + container models + forking executor)", "z3", "the reference rules in harness/c15_rules.py (typed from the paper / DSSP 2.2.0)",
                     "kabsch_sander's output contract (values in {-1} U [0,n), not the donor itself nor its predecessor, distinct slots, second only after first; C14 decides the store step)",
                     "std::sort modelled as a stable sort (libstdc++ uses insertion sort below 16 elements)", "CrossHair + z3 for the Python layer"],
    "assumptions": ["rules: n <= 8 residues with every pair free (9 in the thorough tier), n = 15 with three free pairs for bulges; chain ids and skip masks from catalogues; bend decisions free booleans",
                    "bend angle: orientation of the C-alpha triple fixed (first vector along x, second in the xy-plane), positions and lengths free in [-10, 10] nm; within 1e-6 of the threshold excluded",
                    "Python layer: 4 residues x 2 frames"],
    "out": ["the Cython glue _geometry.pyx (array conversion, char buffer) — installed binary, cannot be rebuilt here", "proteins longer than the bounds (the rules are local: windows of <= 6 residues per pattern, but ladder "
            "merging over more than two ladders at once is only reached in the n <= 9 exhaustive runs)", "float32 rounding in the bend angle", "the hydrogen-bond energies feeding the rules are C14's subject"],
}


def obligations():
    enc = ["mdtraj.geometry.dssp.compute_dssp", "mdtraj.geometry.hbond._prep_kabsch_sander_arrays"]
    o = [Obl("C15.python.codes", "xh", "harness.c15_py", "dssp_codes", enc, "4 residues, 2 frames; which backbone atom residues 1 and 3 lack (or none), simplified, every code at every position",
             "shape; 'NA' overlay exactly for incomplete residues; the routine's code or its simplified image", 600),
         Obl("C15.python.arguments", "xh", "harness.c15_py", "dssp_arguments", enc, "same topologies x proline position x chain break",
             "per-residue N/C/O/CA indices (-1 when missing) found by NAME in any atom order, proline flags, chain indices, float32 coordinates", 600)]
    o.append(Obl("C15.python.after_edit", "xh", "harness.c15_py", "dssp_after_edit", enc, "history: (compute_dssp,) rename a residue to PRO / rename a backbone atom away, compute_dssp again; counts unchanged",
                 "the second call's index arrays, proline flags and 'NA' overlay follow the topology as it is now (nothing cached from the first call)", 300))
    H = "harness.c15_rules"
    D = "dssp.cpp:"
    for ch in ("one", "two"):
        o.append(Obl(f"C15.rules.bridge.{ch}", "py", H, "bridge_test", [D + "_residue_test_bridge", D + "_test_bond"], f"7 residues, chains '{ch}', every ordered residue pair, symbolic H-bond table (14 integers)",
                     "the bridge predicate as one term equals Kabsch & Sander's definition (parallel before antiparallel, both triplets inside one chain)", 300, params={"n": 7, "chains": ch}))
    for ch, sk in (("one", "none"), ("tail", "none"), ("one", "s2"), ("two", "mid"), ("one", "mid"), ("one", "last")):
        o.append(Obl(f"C15.rules.beta.n8.{ch}.{sk}", "py", H, "beta_sheets", [D + "calculate_beta_sheets", D + "Bridge", D + "_residue_test_bridge"], f"8 residues, chains '{ch}', skip mask '{sk}', every pair free (up to 3^6 type matrices)",
                     "B / E codes equal the reference ladder algorithm on every path", 900, params={"n": 8, "chains": ch, "skips": sk}))
    for tag, allowed in (("a", "1-5;1-6;1-7;2-6;2-7;3-7;4-7"), ("b", "1-4;1-5;1-6;2-5;2-7;3-6;3-7")):
        o.append(Obl(f"C15.rules.beta.n9.{tag}", "py", H, "beta_sheets", [D + "calculate_beta_sheets"], "9 residues, one chain, seven of the ten pairs free (" + allowed + "), the others assumed unbridged", "same", 3000,
                     params={"n": 9, "chains": "one", "skips": "none", "allowed": allowed, "max_paths": 100000}, tiers=("thorough",)))
    for kind in ("parallel", "anti"):
        o.append(Obl(f"C15.rules.bulges.{kind}", "py", H, "beta_bulges", [D + "calculate_beta_sheets (ladder extension, bulge merging)"], "15 residues; a two-bridge ladder and a third bridge at every gap combination (1..6 x 1..6); only these three pairs may be bridged",
                     "linked exactly when one strand has at most one and the other at most four extra residues, in the right direction; merged extents coded E", 1500, params={"n": 15, "kind": kind}))
    o.append(Obl("C15.rules.bulges.parallel.break", "py", H, "beta_bulges", [D + "calculate_beta_sheets (chain continuity of merged ladders)"], "same with a chain break after residue 4", "ladders are not linked across a chain break", 1500,
                 params={"n": 15, "kind": "parallel", "chains": "break5"}, tiers=("thorough",)))
    for ch, sk, init in (("one", "none", "loop"), ("one", "none", "strand"), ("one", "none", "bridge"), ("one", "none", "allE"), ("two", "none", "loop"), ("one", "mid", "loop"), ("tail", "s2", "strand")):
        o.append(Obl(f"C15.rules.helices.n7.{ch}.{sk}.{init}", "py", H, "helices", [D + "calculate_alpha_helices", D + "calculate_bends", D + "_test_bond"], f"7 residues, chains '{ch}', skip '{sk}', strand codes before: '{init}'; bends free booleans",
                     "H / G / I / T / S equal the reference (minimal helices from consecutive n-turns, H first, G only on free residues, I over H, turns, bends; bends asked for exactly the right C-alpha triples)", 900,
                     params={"n": 7, "chains": ch, "skips": sk, "init": init}))
    o.append(Obl("C15.rules.helices.n8", "py", H, "helices", [D + "calculate_alpha_helices"], "8 residues, one chain (4096 turn patterns)", "same", 1800, params={"n": 8, "chains": "one", "skips": "none", "init": "loop", "max_paths": 200000}))
    o.append(Obl("C15.rules.helices.n9", "py", H, "helices", [D + "calculate_alpha_helices"], "9 residues, one chain", "same", 12000, params={"n": 9, "chains": "one", "skips": "none", "init": "loop", "max_paths": 2000000}, tiers=("thorough",)))
    o.append(Obl("C15.rules.bend_angle", "py", H, "bend_angle", [D + "calculate_bends", "vectorize.h:fvec4 (modelled)"], "5 residues, symbolic real C-alpha coordinates (orientation fixed)", "bend <=> angle between CA(i)-CA(i-2) and CA(i+2)-CA(i) > 70 degrees", 600, params={"n": 5}))
    o.append(Obl("C15.rules.driver", "py", H, "driver", [D + "dssp"], "3 residues x 2 frames, symbolic N/C/O/CA index arrays", "skip mask <=> an index is -1; one kabsch_sander call per frame on that frame's coordinates and a fresh table; letters at [frame * n_residues + residue]", 600,
                 params={"n_res": 3, "n_frames": 2}))
    return o


MANIFEST_INFO = {
    "engine": "cxxsym+xh",
    "technique": "symbolic execution of dssp.cpp lowered from clang's JSON AST (forking executor over a symbolic hydrogen-bond table, leaf predicates summarised as ite-terms, z3 incremental) against reference rules from the paper, native replay through a shim; CrossHair for compute_dssp's Python layer",
    "text": "The rule code of dssp.cpp (bridge predicate, ladders and bulge merging, minimal helices with H/G/I priorities, turns, bends, skip mask, letters, per-frame driver) agrees with the published rules on every hydrogen-bond table kabsch_sander can produce for up to 8 residues (9 thorough), on every bulge gap combination for three free bridges in 15 residues; the Python layer's shape, 'NA' overlay, simplified image and argument preparation are decided for small topologies.",
    "note": "Bounds are small proteins; the rules are local (patterns span <= 6 residues) but this locality is an argument, not something the solver showed. The Cython glue and float32 effects in the bend angle are outside.",
}
