from vtlib.core import Obl

FILES = ["mdtraj/geometry/dssp.py", "mdtraj/geometry/hbond.py"]
META = {
    "files": FILES,
    "explanation": "PYTHON LAYER ONLY. E1 CrossHair on compute_dssp with the compiled routine replaced by a recorder that answers with symbolic codes: topology symbolic (which backbone "
                   "atoms two of four residues have, which residue is proline, where the chain break is, atoms listed in different orders), simplified symbolic. Decided: one code per "
                   "residue per frame; 'NA' exactly for residues lacking any of N, CA, C, O; otherwise the routine's code or its documented three-letter image; the routine receives each "
                   "residue's own N/C/O/CA indices (-1 when missing), proline flags and chain indices.",
    "trusted_base": ["CrossHair + z3", "vtlib/xhfix.py"],
    "assumptions": ["4 residues x 2 frames; residues 0 and 2 complete"],
    "out": ["THE DSSP RULES THEMSELVES (dssp.cpp: n-turns, minimal helices and their priority, bridges, ladders, bulges, bends): std::deque/map/vector code whose container shapes depend on the "
            "symbolic hydrogen-bond pattern (3^(n^2) forks) is beyond the IR interpreter; a change inside dssp.cpp is NOT detected by this check",
            "the hydrogen-bond energies feeding the rules are C14's subject (Kabsch-Sander kernel)"],
}


def obligations():
    enc = ["mdtraj.geometry.dssp.compute_dssp", "mdtraj.geometry.hbond._prep_kabsch_sander_arrays"]
    return [Obl("C15.python.codes", "xh", "harness.c15_py", "dssp_codes", enc, "4 residues, 2 frames; which backbone atom residues 1 and 3 lack (or none), simplified, every code at every position",
                "shape; 'NA' overlay exactly for incomplete residues; the routine's code or its simplified image", 600),
            Obl("C15.python.arguments", "xh", "harness.c15_py", "dssp_arguments", enc, "same topologies x proline position x chain break",
                "per-residue N/C/O/CA indices (-1 when missing) found by NAME in any atom order, proline flags, chain indices, float32 coordinates", 600)]


MANIFEST_INFO = {
    "engine": "xh",
    "technique": "CrossHair symbolic execution of compute_dssp's Python layer with the compiled DSSP routine replaced by a recorder returning symbolic codes",
    "text": "PARTIAL (Python layer only): shape, 'NA' overlay for residues without a full backbone, the simplified three-letter image and the per-residue atom indices / proline flags / chain ids handed to the compiled routine are decided for every small topology in the bound. The DSSP rules in dssp.cpp are NOT covered.",
    "note": "dssp.cpp is outside the reach of the IR interpreter (symbolic container shapes); changes there are not detected. Listed as claimed only for the Python layer.",
}
