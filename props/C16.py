from vtlib.core import Obl

FILES = ["mdtraj/geometry/rg.py", "mdtraj/geometry/distance.py", "mdtraj/geometry/shape.py", "mdtraj/geometry/contact.py", "mdtraj/geometry/rdf.py",
         "mdtraj/geometry/thermodynamic_properties.py", "mdtraj/nmr/scalar_couplings.py"]
META = {
    "files": FILES,
    "explanation": "E2 symnum: the real numpy code of each descriptor runs on z3 reals (symbolic coordinates / distances / volumes / charges; small concrete "
                   "topologies and a catalogue of mass vectors) through the numpy facade, and z3 (cvc5 as fallback) decides equality with the closed form "
                   "from the documentation / literature typed in independently. Contacts: compute_distances is replaced by a source of one named "
                   "symbolic distance per atom pair, so column i must be the min (or beta/log sum exp(beta/d)) over EXACTLY the designated pairs, "
                   "which exercises the running-offset bookkeeping on residues of unequal size (GLY, a residue without CA, water).",
    "trusted_base": ["z3 / cvc5", "vtlib/symnum.py facade (einsum patterns spelled out; eigvalsh replaced by three sorted unknowns with the trace invariant)",
                     "float constants such as 1/N are exact binary values: identities are stated with 1e-8 tolerances and coordinates in [-100,100] nm"],
    "assumptions": ["2 frames x 3 atoms for the coordinate descriptors; one 6-residue topology for contacts; mass vectors from a catalogue of 4"],
    "out": ["eigen-decompositions themselves (LAPACK)", "the Cython glue drid.pyx (partner lists per atom) and nematic order (eigen-solver heavy) not encoded; the DRID moment kernel itself is (C16.drid.*)",
            "np.histogram binning (numpy library)", "static_dielectric / kappa_T unit algebra", "compute_rdf_t beyond its pair chunking"],
}


def obligations():
    H = "harness.c16"
    o = [Obl(f"C16.rg.{m}", "py", H, "rg", ["mdtraj.geometry.rg.compute_rg", "mdtraj.geometry.rg._compute_rg_xyz"], f"masses: {m}; 2 frames x 3 atoms, coordinates in [-100,100]",
             "Rg^2 = sum w_i |r_i - r_cm|^2 about the mass-weighted centre", 300, params={"masses": m}) for m in ("equal", "CHO", "heavy_first", "CNS")]
    o += [
        Obl("C16.centers", "py", H, "centers", ["mdtraj.geometry.distance.compute_center_of_mass", "mdtraj.geometry.distance.compute_center_of_geometry"], "2 frames x 3 atoms (C,H,O masses)", "sum m r / sum m; plain mean", 120),
        Obl("C16.gyration_shape", "py", H, "gyration_and_shape", ["mdtraj.geometry.shape.compute_gyration_tensor", "asphericity", "acylindricity", "relative_shape_anisotropy", "principal_moments"],
            "symbolic coordinates; sorted eigenvalues as unknowns", "S = (1/N) sum (r-c)(r-c)^T; b = l3-(l1+l2)/2; c = l2-l1; kappa^2 = (b^2 + 3/4 c^2)/(l1+l2+l3)^2", 300),
        Obl("C16.karplus", "py", H, "karplus", ["mdtraj.nmr.scalar_couplings._J3_function", "compute_J3_HN_HA", "compute_J3_HN_C", "compute_J3_HN_CB"], "symbolic phi; 5 published parameter sets",
            "J = A cos^2(phi+phi0) + B cos(phi+phi0) + C with the published constants; indices passed through", 120),
        Obl("C16.density", "py", H, "density", ["mdtraj.geometry.thermodynamic_properties.density"], "symbolic volumes", "total mass / volume in kg/m^3 (1 Da/nm^3 = 1.66053907)", 120),
        Obl("C16.dipoles", "py", H, "dipoles", ["mdtraj.geometry.thermodynamic_properties.dipole_moments"], "4 atoms in 2 molecules, symbolic charges and displacements", "sum_i q_i (r_i->first atom of its molecule + that atom->atom 0)", 120),
        Obl("C16.rdf_norm", "py", H, "rdf_normalisation", ["mdtraj.geometry.rdf.compute_rdf"], "symbolic cell volumes, 4 bins", "shell-volume and sum-of-inverse-volumes normalisation; bin centres", 120),
        Obl("C16.squareform", "py", H, "squareform_placement", ["mdtraj.geometry.contact.squareform"], "symbolic distances, 3 residue pairs", "symmetric placement, zero elsewhere", 120),
    ]
    for scheme in ("ca", "closest", "closest-heavy", "sidechain", "sidechain-heavy"):
        for mode in ("all", "explicit"):
            for soft in ((False, True) if scheme != "ca" else (False,)):
                quick = (mode == "all") != (scheme in ("closest", "sidechain")) or soft
                o.append(Obl(f"C16.contacts.{scheme}.{mode}.{'soft' if soft else 'min'}", "py", H, "contacts", ["mdtraj.geometry.contact.compute_contacts"], "6-residue topology, one symbolic distance per atom pair and frame",
                             "column i = (soft) minimum over exactly the scheme's atom pairs of residue pair i; residue_pairs as documented", 300,
                             params={"scheme": scheme, "mode": mode, "soft_min": soft}, tiers=("quick", "thorough") if quick else ("thorough",)))
    for scheme in ("ca", "closest-heavy", "sidechain"):
        o.append(Obl(f"C16.contacts.{scheme}.nonperiodic", "py", H, "contacts", ["mdtraj.geometry.contact.compute_contacts"], "same topology, periodic=False", "every distance is measured under the caller's periodic flag; same minima", 300,
                     params={"scheme": scheme, "mode": "explicit", "soft_min": False, "periodic": False}))
    for scheme in ("ca", "closest"):
        o.append(Obl(f"C16.contacts.{scheme}.all_residues", "py", H, "contacts", ["mdtraj.geometry.contact.compute_contacts"], "same topology (one water, one residue without N), contacts='all', ignore_nonprotein=False",
                     "one label per distance column; scheme 'ca' reports exactly the pairs whose residues both have a CA, the other schemes every pair at least three residues apart", 600, params={"scheme": scheme, "mode": "all", "ignore_nonprotein": False}))
    for n in (4, 5):
        o.append(Obl(f"C16.drid.n{n}", "py", "harness.c16_drid", "drid_moments", ["dridkernels.cpp:drid_moments", "moments.cpp:moments_clear / push / mean / second / third"], f"{n} partners of one atom; the inverse distances symbolic reals",
                     "mean, sqrt of the second and REAL cube root of the third central moment of the inverse distances to the listed partners (one-pass update formulas as polynomial identities)", 300, params={"n": n}))
    o.append(Obl("C16.rdf_t.chunks", "xh", "harness.c16_py", "rdf_t_chunks", ["mdtraj.geometry.rdf.compute_rdf_t"], "3..4 atoms (3..6 pairs + self pairs), n_concurrent_pairs 1..11, self_correlation on/off",
                 "every pair is handed to the distance routine exactly once and the result does not depend on the chunk size", 300))
    return o


MANIFEST_INFO = {
    "engine": "symnum",
    "technique": "real numpy descriptor code executed on z3 reals through a numpy facade; closed forms typed independently; z3/cvc5 decide equality",
    "text": "Rg, centres, gyration tensor and shape descriptors, Karplus relations, density, dipole moments, RDF normalisation, squareform and the residue-contact bookkeeping (all five schemes, 'all' and explicit pairs, hard and soft minimum) are proved equal to their formulas for all coordinate / distance values on small systems.",
    "note": "Nematic order, eigen-decompositions, histogram binning and the Cython glue of compute_drid are not encoded (the DRID moment kernel is, through the clang-AST engine). Real-arithmetic floats; small fixed topologies.",
}
