from vtlib.core import Obl

FILES = ["mdtraj/core/topology.py", "mdtraj/core/element.py"]
T = "mdtraj.core.topology."
META = {
    "files": FILES,
    "explanation": "Symbolic execution (CrossHair/z3) of the real Topology.copy/__deepcopy__/join/subset/insert_atom/delete_atom_by_index/"
                   "add_bond/__eq__/__hash__ on topologies of a fixed small shape (2 chains, 3 residues, 4 atoms, 4 bonds incl. cross-residue "
                   "and cross-chain) whose attributes are symbolic: atom/residue names and segment ids (strings <=3), chain ids (<=1 char or "
                   "None), serials and resSeq (any int, incl. 0 and repeats), elements (6 incl. virtual site), bond types (5+None) and orders. "
                   "A full snapshot of chains/residues/atoms/bonds is compared before/after; bonds must be between the result's OWN atom objects.",
    "trusted_base": ["CrossHair 0.0.110 + z3 5.1.0", "harness/c04.py snapshot() as the observation function", "harness/c04_hash.py: hash replaced by an injective structural tagger inside mdtraj.core.topology (equal inputs => equal real hashes)"],
    "assumptions": ["the fixed shape (2,1|1 atoms per residue) is representative of larger topologies for these per-item loops"],
    "out": ["to_dataframe/from_dataframe (pandas C boundary), HDF5 topology JSON and PDB writer/reader (text/JSON carriers: CrossHair realises; not encoded this round)",
            "pickle (C accelerator)", "topologies of other shapes/sizes"],
}


def obligations():
    H, HH = "harness.c04", "harness.c04_hash"
    A = "symbolic names / residue names / segment ids (strings<=3), chain ids (<=1 char or None), serials and resSeq (any int)"
    K = "element in 6 (incl. virtual), bond type in 5+None, bond order in 1..3+None"
    return [
        Obl("C04.copy.attrs", "xh", H, "copy_preserves", [T + "Topology.copy", T + "Topology.__eq__"], A,
            "copy keeps every attribute incl. chain ids, bonds are between the copy's own atoms, copy == original", 240, timeout_thorough=900),
        Obl("C04.copy.kinds", "xh", H, "copy_kinds", [T + "Topology.copy"], K, "copy keeps elements, bond types and orders", 240),
        Obl("C04.deepcopy.preserves", "xh", H, "deepcopy_preserves", [T + "Topology.__deepcopy__", T + "Topology.__copy__"], "symbolic name, chain id, resSeq", "copy.copy / copy.deepcopy likewise", 120),
        Obl("C04.copy.independent", "xh", H, "copy_independent", [T + "Topology.copy", T + "Topology.insert_atom", T + "Topology.delete_atom_by_index", T + "Topology.add_bond"],
            "edit in {insert_atom(idx 0..3), delete_atom_by_index(0..3), add_bond} applied to either side", "editing the copy never changes the original and vice versa (full snapshot, bonds included)", 180),
        Obl("C04.subset.attrs", "xh", H, "subset_preserves", [T + "_topology_from_subset", T + "Topology.subset"], "every non-empty subset of the 4 atoms; " + A,
            "surviving atoms/residues/chains keep all attributes (chain id, resSeq incl. 0, segment id), indices contiguous, bonds exactly those with both ends kept, re-pointed", 300, timeout_thorough=1200),
        Obl("C04.subset.kinds", "xh", H, "subset_kinds", [T + "_topology_from_subset"], "every non-empty subset; " + K, "same for elements, bond types, orders; resSeq 0 kept", 400, quick_pre="bo <= 1 and e0 <= 2", timeout_thorough=1500),
        Obl("C04.join.attrs", "xh", H, "join_preserves", [T + "Topology.join"], A + "; keep_resSeq in {T,F}",
            "join keeps both operands' atoms, residues (renumbered iff requested), chain ids and bonds; operands unchanged", 300, timeout_thorough=1200),
        Obl("C04.join.independent", "xh", H, "join_independent", [T + "Topology.join", T + "Topology.copy"], "both operands non-empty / empty left / empty right; edit in {insert, delete, add_bond}",
            "join returns a NEW topology sharing nothing with its operands (also when one of them is empty): editing it changes neither", 240),
        Obl("C04.join.kinds", "xh", H, "join_kinds", [T + "Topology.join"], K, "same for elements, bond types, orders", 300),
        Obl("C04.eq_implies_hash.attrs", "xh", HH, "eq_implies_hash_attrs", [T + "Topology.__eq__", T + "Topology.__hash__", T + "Residue.__hash__", T + "Chain.__hash__", T + "Atom.__hash__"],
            "two topologies with independent symbolic names, residue names, segment ids, chain ids, serials, resSeq", "t1 == t2 implies equal hash inputs (structural hash)", 400, timeout_thorough=1800),
        Obl("C04.eq_implies_hash.kinds", "xh", HH, "eq_implies_hash_kinds", [T + "Topology.__eq__", T + "Topology.__hash__", T + "Bond.__hash__", T + "Bond.__eq__"],
            "pairs of elements / bond types / bond orders", "t1 == t2 implies equal hash inputs", 300),
        Obl("C04.copy.hash", "xh", HH, "copy_hash_equal", [T + "Topology.copy", T + "Topology.__hash__"], "symbolic attributes", "t.copy() == t and hashes equal", 120),
        Obl("C04.atom_bond_eq_hash", "xh", HH, "atom_bond_eq_hash", [T + "Atom.__eq__", T + "Atom.__hash__", T + "Bond.__eq__", T + "Bond.__hash__"], "symbolic names/resSeq, bond type pairs",
            "equal atoms / bonds have equal hash inputs", 180),
    ]


MANIFEST_INFO = {
    "engine": "xh",
    "technique": "symbolic execution of the real Topology methods (CrossHair + z3) on a fixed-shape topology with all attributes symbolic; snapshot comparison",
    "text": "Attribute preservation, index renumbering, bond re-pointing, copy independence and eq=>hash are decided for all attribute values (bounded strings, any ints) on one small but structurally complete topology shape.",
    "note": "Partial: in-memory transformations only (copy, deepcopy, subset, join, edits, eq/hash). Data-frame, HDF5-JSON, PDB and pickle carriers are not encoded. Trusted: CrossHair/z3.",
}
