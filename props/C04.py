from vtlib.core import Obl

FILES = ["mdtraj/core/topology.py", "mdtraj/core/element.py"]
T = "mdtraj.core.topology."
META = {
    "files": FILES,
    "explanation": "Symbolic execution (CrossHair/z3) of the real Topology.copy/__deepcopy__/join/subset/insert_atom/delete_atom_by_index/"
                   "add_bond/__eq__/__hash__ on topologies of a fixed small shape (2 chains, 3 residues, 4 atoms, 4 bonds incl. cross-residue "
                   "and cross-chain) whose attributes are symbolic: atom/residue names and segment ids (strings <=3), chain ids (<=1 char or "
                   "None), serials and resSeq (any int, incl. 0 and repeats), elements (6 incl. virtual site), bond types (5+None) and orders. "
                   "A full snapshot of chains/residues/atoms/bonds is compared before/after; bonds must be between the result's OWN atom objects.",
    "trusted_base": ["CrossHair 0.0.110 + z3 5.1.0", "harness/c04.py snapshot() as the observation function", "harness/c04_hash.py: hash replaced by an injective structural tagger inside mdtraj.core.topology (equal inputs => equal real hashes)"],
    "assumptions": ["the fixed shape (2,1|1 atoms per residue) is representative of larger topologies for these per-item loops"],
    "out": ["to_dataframe/from_dataframe (pandas C boundary), HDF5 topology JSON and PDB writer/reader (text/JSON carriers: CrossHair realises; not encoded this round)",
            "pickle (C accelerator)", "topologies of other shapes/sizes"],
}


def obligations():
    H, HH = "harness.c04", "harness.c04_hash"
    A = "symbolic names / residue names / segment ids (strings<=3), chain ids (<=1 char or None), serials and resSeq (any int)"
    K = "element in 6 (incl. virtual), bond type in 5+None, bond order in 1..3+None"
    C = "harness.c04_carriers"
    T2 = "mdtraj.core.topology.Topology."
    o = [
        Obl("C04.copy.attrs", "xh", H, "copy_preserves", [T + "Topology.copy", T + "Topology.__eq__"], A,
            "copy keeps every attribute incl. chain ids, bonds are between the copy's own atoms, copy == original", 240, timeout_thorough=900),
        Obl("C04.copy.kinds", "xh", H, "copy_kinds", [T + "Topology.copy"], K, "copy keeps elements, bond types and orders", 240),
        Obl("C04.deepcopy.preserves", "xh", H, "deepcopy_preserves", [T + "Topology.__deepcopy__", T + "Topology.__copy__"], "symbolic name, chain id, resSeq", "copy.copy / copy.deepcopy likewise", 120),
        Obl("C04.copy.independent", "xh", H, "copy_independent", [T + "Topology.copy", T + "Topology.insert_atom", T + "Topology.delete_atom_by_index", T + "Topology.add_bond"],
            "edit in {insert_atom(idx 0..3), delete_atom_by_index(0..3), add_bond} applied to either side", "editing the copy never changes the original and vice versa (full snapshot, bonds included)", 180),
        Obl("C04.subset.attrs", "xh", H, "subset_preserves", [T + "_topology_from_subset", T + "Topology.subset"], "every non-empty subset of the 4 atoms; " + A,
            "surviving atoms/residues/chains keep all attributes (chain id, resSeq incl. 0, segment id), indices contiguous, bonds exactly those with both ends kept, re-pointed", 300, timeout_thorough=1200),
        Obl("C04.subset.kinds", "xh", H, "subset_kinds", [T + "_topology_from_subset"], "every non-empty subset; " + K, "same for elements, bond types, orders; resSeq 0 kept", 400, quick_pre="bo <= 1 and e0 <= 2", timeout_thorough=1500),
        Obl("C04.join.attrs", "xh", H, "join_preserves", [T + "Topology.join"], A + "; keep_resSeq in {T,F}",
            "join keeps both operands' atoms, residues (renumbered iff requested), chain ids and bonds; operands unchanged", 300, timeout_thorough=1200),
        Obl("C04.join.independent", "xh", H, "join_independent", [T + "Topology.join", T + "Topology.copy"], "both operands non-empty / empty left / empty right; edit in {insert, delete, add_bond}",
            "join returns a NEW topology sharing nothing with its operands (also when one of them is empty): editing it changes neither", 240),
        Obl("C04.join.kinds", "xh", H, "join_kinds", [T + "Topology.join"], K, "same for elements, bond types, orders", 300),
        Obl("C04.eq_implies_hash.attrs", "xh", HH, "eq_implies_hash_attrs", [T + "Topology.__eq__", T + "Topology.__hash__", T + "Residue.__hash__", T + "Chain.__hash__", T + "Atom.__hash__"],
            "two topologies with independent symbolic names, residue names, segment ids, chain ids, serials, resSeq", "t1 == t2 implies equal hash inputs (structural hash)", 400, timeout_thorough=1800),
        Obl("C04.eq_implies_hash.kinds", "xh", HH, "eq_implies_hash_kinds", [T + "Topology.__eq__", T + "Topology.__hash__", T + "Bond.__hash__", T + "Bond.__eq__"],
            "pairs of elements / bond types / bond orders", "t1 == t2 implies equal hash inputs", 300),
        Obl("C04.copy.hash", "xh", HH, "copy_hash_equal", [T + "Topology.copy", T + "Topology.__hash__"], "symbolic attributes", "t.copy() == t and hashes equal", 120),
        Obl("C04.atom_bond_eq_hash", "xh", HH, "atom_bond_eq_hash", [T + "Atom.__eq__", T + "Atom.__hash__", T + "Bond.__eq__", T + "Bond.__hash__"], "symbolic names/resSeq, bond type pairs",
            "equal atoms / bonds have equal hash inputs", 180),
    ]
    o += [
        Obl("C04.pickle", "xh", C, "pickle_roundtrip", [T2 + "__reduce__/__setstate__ (pickle)", "mdtraj.core.element.Element.__reduce__"], "elements incl. deuterium and virtual site, bond type/order, chain ids (A,B / None / A,A), serials (1..4, non-contiguous, None), protocols 2..5",
            "pickle round trip preserves every observable attribute, ==, hash and element identity", 600, quick_pre="bt <= 1 and bo <= 1 and proto == 5 and e1 <= 1 and smode <= 1", thorough_pre="bt <= 2 and bo <= 2 and e1 <= 2", timeout_thorough=3000),
        Obl("C04.dataframe.structure", "xh", C, "dataframe_structure", [T2 + "to_dataframe", T2 + "from_dataframe"], "same, plus equal / different residue numbers and names across the chain boundary",
            "atoms, residues, chain membership, bonds with type and order survive the data-frame round trip (chain identifiers: see C04.dataframe.chain_ids)", 600, quick_pre="bt <= 1 and bo == 1 and e1 == 0", thorough_pre="bt <= 2 and bo <= 2 and e1 <= 1", timeout_thorough=3000),
        Obl("C04.dataframe.chain_ids", "xh", C, "dataframe_chain_ids", [T2 + "to_dataframe", T2 + "from_dataframe"], "chain ids A,B / None,None / A,A", "chain identifiers survive the data-frame round trip", 120),
        Obl("C04.hdf5.record", "xh", C, "hdf5_record", ["mdtraj.formats.hdf5.HDF5TrajectoryFile.topology (setter, getter)"], "elements, chain ids, serials, boundary residues; record written once or replaced",
            "names, elements, serials, residue names / numbers / segment ids, chain identifiers and membership and the bond graph survive the JSON record (no field for bond type / order)", 600, quick_pre="2 <= e0 <= 3 and e1 == 0 and (not twice or (cmode == 0 and smode == 0))", thorough_pre="e1 <= 1", timeout_thorough=3000),
        Obl("C04.pdb.conect", "xh", C, "pdb_conect", ["mdtraj.formats.pdb.pdbfile.PDBTrajectoryFile.write", "_write_footer"], "an atom with 1..5 partners, one or two chains, serials 1.. / non-contiguous / None, ter on/off, standard / non-standard / disulfide, residue numbers incl. negative ones that fit the 4-column field",
            "an independent fixed-column reading of ATOM and CONECT records gives exactly the bonds the writer is meant to list; ATOM fields carry the topology's names, numbers, chain ids, elements", 600, quick_pre="(rsk == 0 or (n_leaves == 1 and not two_chains and smode == 0 and not cys)) and (n_leaves in (1, 5) or (smode == 0 and not cys))"),
    ]
    return o


MANIFEST_INFO = {
    "engine": "xh",
    "technique": "symbolic execution of the real Topology methods (CrossHair + z3) on a fixed-shape topology with all attributes symbolic; snapshot comparison",
    "text": "Attribute preservation, index renumbering, bond re-pointing, copy independence and eq=>hash are decided for all attribute values (bounded strings, any ints) on one small but structurally complete topology shape.",
    "note": "Partial: in-memory transformations only (copy, deepcopy, subset, join, edits, eq/hash). Data-frame, HDF5-JSON, PDB and pickle carriers are not encoded. Trusted: CrossHair/z3.",
}
