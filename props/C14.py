from vtlib.core import Obl

FILES = ["mdtraj/geometry/hbond.py", "mdtraj/geometry/src/geometry.cpp"]
META = {
    "files": FILES,
    "explanation": "Three engines. E1 CrossHair: _get_bond_triplets on a 5-atom / 2-residue topology whose elements (N,O,H,C,S), six candidate bonds, "
                   "water residue, side-chain naming and both filters are symbolic, against the documented donor/acceptor rules. E2 symnum: the real "
                   "baker_hubbard, wernet_nilsson and _compute_bounded_geometry run on SYMBOLIC distances (compute_distances replaced by a source of "
                   "symbolic d_DH, d_HA, d_DA per triplet and frame with triangle inequalities; boolean masks fork); on every path the reported set is "
                   "compared with the documented criteria typed in independently (law of cosines; degrees vs radians; strictness; frequency "
                   "arithmetic), thresholds excluded by a margin; acos is a named value with monotonicity against the comparison constants. "
                   "E3 llsym: ks_donor_acceptor's energy formula (exact polynomial comparison of the four squared distances and signs, floor -9.9) and "
                   "the kabsch_sander driver on 2-3 residues with symbolic coordinates (forks on the CA prefilter and the energy threshold; NaN as a "
                   "value for empty slots): recorded iff evaluated, below -0.5, not proline, not (i+1 -> i); stored energy is the pair's; two lowest kept "
                   "in order; unevaluated pairs provably have CA-CA >= 0.9 nm; hydrogen placement uses |C-O| of the previous residue; memory safety "
                   "after an incomplete residue.",
    "trusted_base": ["CrossHair/z3", "vtlib/symnum.py", "vtlib/llsym.py + clang IR", "acos monotonicity axioms against the code's constants"],
    "assumptions": ["distances in (0.05, 1) nm satisfying the triangle inequality", "1-2 triplets x 2-3 frames; 2-3 residues for the kernel"],
    "out": ["scipy.sparse CSR assembly in hbond.kabsch_sander", "periodic distance computation itself (C05)", "larger systems", "the Cython glue"],
}


def obligations():
    o = []
    for ew in (False, True):
        for sc in (False, True):
            o.append(Obl(f"C14.triplets.ew{int(ew)}.sc{int(sc)}", "xh", "harness.c14_py", "bond_triplets", ["mdtraj.geometry.hbond._get_bond_triplets"],
                         "5 atoms in 2 residues; elements, bonds, water flag, naming symbolic", "exactly the bonded N-H/O-H donors x N/O acceptors passing the filters, donor != acceptor, donor before hydrogen", 900,
                         pre=f"exclude_water == {ew} and sidechain_only == {sc}",
                         quick_pre="(e0 == 0 or e0 == 2) and 1 <= e1 <= 2 and 2 <= e2 <= 3 and e3 == 3 and e4 <= 1 and b3 and b4 and not b5",
                         thorough_pre="e0 <= 2 and 1 <= e1 <= 2 and 2 <= e2 <= 3 and e3 == 3 and e4 <= 1 and not b5", timeout_thorough=3000))
    H = "harness.c14"
    bh = ["mdtraj.geometry.hbond.baker_hubbard", "mdtraj.geometry.hbond._compute_bounded_geometry"]
    o += [
        Obl("C14.bh.f2t1", "py", H, "baker_hubbard", bh, "2 frames, 1 triplet, freq 0.4", "reported <=> fraction of frames with d_HA < 0.25 and theta_DHA > 120 deg exceeds freq", 300, params={"n_frames": 2, "n_trip": 1, "freq": 0.4}),
        Obl("C14.bh.f3t1", "py", H, "baker_hubbard", bh, "3 frames, 1 triplet, freq 0.5", "same (2 of 3 frames needed)", 300, params={"n_frames": 3, "n_trip": 1, "freq": 0.5}),
        Obl("C14.bh.f2t2", "py", H, "baker_hubbard", bh, "2 frames, 2 triplets sharing the acceptor, freq 0.4", "same; triplets kept apart", 600, params={"n_frames": 2, "n_trip": 2, "freq": 0.4}),
        Obl("C14.bh.cutoffs", "py", H, "baker_hubbard", bh, "2 frames, non-default cutoffs 0.3 nm / 150 deg, freq 0", "cutoff arguments have exactly the documented effect", 300,
            params={"n_frames": 2, "n_trip": 1, "freq": 0.0, "distance_cutoff": 0.3, "angle_cutoff": 150.0}),
        Obl("C14.wn.f2t1", "py", H, "wernet_nilsson", ["mdtraj.geometry.hbond.wernet_nilsson", "mdtraj.geometry.hbond._compute_bounded_geometry"], "2 frames, 1 triplet",
            "per frame: reported <=> d_DA < 0.33 - 0.000044 * delta_HDA(deg)^2", 300, params={"n_frames": 2, "n_trip": 1}),
        Obl("C14.bh.nonperiodic", "py", H, "baker_hubbard", bh, "2 frames, 1 triplet, periodic=False", "same criterion; every triangle side measured with the caller's periodic flag", 300, params={"n_frames": 2, "n_trip": 1, "freq": 0.4, "periodic": False}),
        Obl("C14.wn.nonperiodic", "py", H, "wernet_nilsson", ["mdtraj.geometry.hbond.wernet_nilsson", "mdtraj.geometry.hbond._compute_bounded_geometry"], "2 frames, 1 triplet, periodic=False", "same with periodic=False", 300, params={"n_frames": 2, "n_trip": 1, "periodic": False}),
        Obl("C14.wn.f2t2", "py", H, "wernet_nilsson", ["mdtraj.geometry.hbond.wernet_nilsson"], "2 frames, 2 triplets", "same", 600, params={"n_frames": 2, "n_trip": 2}),
    ]
    K = "harness.c14_ks"
    o += [
        Obl("C14.ks.energy", "py", K, "donor_acceptor", ["geometry.cpp:ks_donor_acceptor"], "symbolic coordinates", "E = 2.7888 (1/r_NO + 1/r_HC - 1/r_HO - 1/r_NC), floored at -9.9", 120),
        Obl("C14.ks.driver2", "py", K, "driver", ["geometry.cpp:kabsch_sander", "ks_assign_hydrogens", "store_energies"], "2 residues", "see explanation", 300, params={"n_res": 2}),
        Obl("C14.ks.driver3", "py", K, "driver", ["geometry.cpp:kabsch_sander"], "3 residues (51 paths)", "same incl. best-two bookkeeping", 600, params={"n_res": 3}),
        Obl("C14.ks.store.empty", "py", K, "store_step", ["geometry.cpp:store_energies (-fno-inline IR)"], "both slots empty, arbitrary new energy", "one inductive step of the best-two bookkeeping", 120, params={"state": "empty"}),
        Obl("C14.ks.store.one", "py", K, "store_step", ["geometry.cpp:store_energies (-fno-inline IR)"], "one slot filled (arbitrary energy), arbitrary new energy", "same", 120, params={"state": "one"}),
        Obl("C14.ks.store.two", "py", K, "store_step", ["geometry.cpp:store_energies (-fno-inline IR)"], "both slots filled (arbitrary sorted energies), arbitrary new energy", "slots hold the two lowest of the three, lowest first, each with its own acceptor; other donors untouched", 120, params={"state": "two"}),
        Obl("C14.ks.python_matrix", "xh", "harness.c15_py", "kabsch_sander_matrix", ["mdtraj.geometry.hbond.kabsch_sander"], "4 residues, 2 frames; which slots the routine fills (symbolic donors / acceptors, one or two per donor)",
            "matrix[f][acceptor, donor] = energy exactly for the filled slots, nothing else (documented orientation)", 600),
        Obl("C14.ks.python_arguments", "xh", "harness.c15_py", "kabsch_sander_arguments", ["mdtraj.geometry.hbond.kabsch_sander", "mdtraj.geometry.hbond._prep_kabsch_sander_arrays"], "which backbone atom residues 1 and 3 lack, proline position",
            "per-residue atom indices found by name, proline flags", 300),
        Obl("C14.kernel_choice", "xh", "harness.c05_py", "dispatch", ["mdtraj.geometry.distance.compute_distances_core (used by every hydrogen-bond criterion)"], "3 frames, each orthorhombic or skewed (symbolic)",
            "distances feeding the criteria come from the diagonal-only kernel only if EVERY frame is orthorhombic", 300),
        Obl("C14.ks.driver3_proline", "py", K, "driver", ["geometry.cpp:kabsch_sander"], "3 residues, residue 1 proline", "proline donors are never recorded", 600, params={"n_res": 3, "proline": 1}),
        Obl("C14.ks.incomplete_residue", "py", K, "hydrogen_after_incomplete_residue", ["geometry.cpp:ks_assign_hydrogens"], "residue 0 without backbone atoms followed by two complete residues",
            "no coordinate is read through index -1", 300),
    ]
    return o


MANIFEST_INFO = {
    "engine": "symnum",
    "technique": "real hbond.py criteria on symbolic distances (numpy facade + z3), CrossHair for the donor/acceptor triplets, LLVM-IR interpretation of the Kabsch-Sander kernel",
    "text": "Donor/acceptor enumeration, the Baker-Hubbard and Wernet-Nilsson criteria (units, strictness, frequency arithmetic) and the Kabsch-Sander energy / threshold / best-two bookkeeping are decided for all inputs within small sizes.",
    "note": "Small sizes (1-2 triplets, 2-3 frames, 2-3 residues); real-arithmetic floats; scipy CSR assembly and Cython glue not covered.",
}
