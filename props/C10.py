from vtlib.core import Obl
from harness.c05 import CELLS

FILES = ["mdtraj/geometry/src/neighbors.cpp", "mdtraj/geometry/include/neighbors.hpp", "mdtraj/geometry/src/neighborlist.cpp"]
META = {
    "files": FILES,
    "explanation": "E3 llsym on the IR of neighbors.cpp:_compute_neighbors. The two std::vector<int> arguments are built in interpreter memory "
                   "(libstdc++ layout), push_back/realloc run for real (operator new, memmove), coordinates are SYMBOLIC, the cell is concrete "
                   "(C05 catalogue or none) and the cutoff is concrete, at most half the smallest cell width. The interpreter forks on every "
                   "`dist2 < cutoff2`; per path the returned vector is a concrete index list. Decided: duplicate-free subsequence of the haystack; "
                   "no-cell: exactly the distance criterion (z3 on exact polynomials); periodic: for every unreported atom and query atom, first the "
                   "wrap domain of the kernel's wrapped difference W is PROVED from the path's rounding constraints (linear), then an EXACT "
                   "non-linear real query per lattice vector (+-2 cells) shows that |W| >= cutoff excludes any closer image. The kernel only wraps "
                   "and does not search 27 images; that this suffices whenever cutoff <= half the cell width is what is proved. "
                   "THE VOXEL LIST (neighborlist.cpp), engine E5 cxxsym: _compute_neighborlist with its Voxels class is lowered from clang's JSON AST and executed on two atoms whose x "
                   "coordinates are symbolic reals anywhere within +-2.5 cell lengths while y and z run over a grid of fractional positions on both sides of every face and outside the "
                   "cell; every quantity is then linear in the unknowns plus floor / round integers, |d|^2 against cutoff^2 is a bound on |dx|; forks on range tests, binary searches and "
                   "sort order; per path the two lists must be the symmetric pair exactly when some lattice image is within the cutoff, else empty (no duplicates).",
    "trusted_base": ["clang 14 -O2 IR incl. libstdc++ vector code", "vtlib/llsym.py", "z3 nlsat for the exact queries", "triangle-inequality pruning of far lattice vectors on concrete numbers"],
    "assumptions": ["cells from the catalogue (off exact rounding ties)", "cutoff in {0.9, 1.0} x half the smallest cell width", "atoms anywhere (the wrapped difference ranges over the whole wrap domain)"],
    "out": ["compute_neighborlist for more than two atoms at once and for symbolic y / z (the voxel list is decided for ATOM PAIRS with symbolic x and y, z on a 4 x 4 grid of fractional positions per atom, "
            "see voxel_pair; the sort / binary search then see at most two entries per bin)", "the Cython frame loops neighbors.pyx / neighborlist.pyx", "float32 rounding (reals; 1e-5 around the cutoff excluded)"],
}


def obligations():
    H = "harness.c10"
    enc = ["neighbors.cpp:_compute_neighbors", "libstdc++ std::vector<int>::push_back (as compiled)"]
    o = [Obl("C10.neighbors.nocell", "py", H, "check_neighbors", enc, "3 atoms, query {0}, haystack {0,1,2}, no cell", "exactly the atoms (other than the query itself) within the cutoff, in haystack order", 300, params={"cell": "none"}),
         Obl("C10.neighbors.nocell.2queries", "py", H, "check_neighbors", enc, "query {0,1}, haystack {2,0,1} (unsorted)", "haystack ORDER is kept; an atom in both sets is compared with the other query atoms only", 300,
             params={"cell": "none", "query": [0, 1], "haystack": [2, 0, 1]})]
    for c in sorted(CELLS):
        quick = c in ("cubic", "ortho_ratio6", "hexagonal60", "monoclinic110", "monoclinic_alpha70", "monoclinic_gamma70", "trunc_octahedron", "triclinic_b", "triclinic_c", "triclinic_a_unreduced")
        o.append(Obl(f"C10.neighbors.{c}", "py", H, "check_neighbors", enc, f"cell {c}, cutoff = half the smallest width, query {{0}}, haystack {{0,1,2}}",
                     "periodic: reported atoms have an image within the cutoff; unreported atoms have NO image within the cutoff (wrap-only suffices)", 600,
                     params={"cell": c, "cutoff_frac": 1.0}, tiers=("quick", "thorough") if quick else ("thorough",)))
        o.append(Obl(f"C10.neighbors.{c}.q2", "py", H, "check_neighbors", enc, f"cell {c}, cutoff = 0.9 x half width, query {{0,1}}, haystack {{2,1,0}}", "same with two query atoms and an unsorted haystack", 900,
                     params={"cell": c, "cutoff_frac": 0.9, "query": [0, 1], "haystack": [2, 1, 0]}, tiers=("thorough",)))
    V = "harness.c10_voxel"
    venc = ["neighborlist.cpp:_compute_neighborlist", "Voxels::getVoxelIndex", "Voxels::getNeighbors", "Voxels::findLowerBound", "Voxels::findUpperBound", "Voxels::insert / sortItems"]
    for c in ("cubic3", "ortho543", "triclinic", "hex", "ortho345"):
        for g in range(16):
            o.append(Obl(f"C10.voxel.{c}.g{g}", "py", V, "voxel_pair", venc, f"2 atoms, cell {c}, cutoff 0.8 x half width; x of both atoms symbolic in +-2.5 cells; atom 0 at (y, z) grid point {g} of 16, atom 1 over all 16 (fractional -0.3, 0.15, 0.85, 1.2)",
                         "lists == [[1], [0]] exactly when some lattice image of the pair is closer than the cutoff, else [[], []]: symmetric, irreflexive, duplicate-free, wherever the atoms sit relative to the primary cell", 1500,
                         params={"cell": c, "cut_frac": 0.8, "g0": g}, tiers=("quick", "thorough") if c != "ortho345" else ("thorough",)))
    for c, cf in (("cubic3", 0.95), ("triclinic", 0.95), ("hex", 0.95), ("ortho543", 0.4), ("cubic3", 0.4)):
        for g in (0, 5, 10, 15):
            o.append(Obl(f"C10.voxel.{c}.cut{int(cf * 100)}.g{g}", "py", V, "voxel_pair", venc, f"same, cutoff {cf} x half width, grid point {g}", "same", 3000, params={"cell": c, "cut_frac": cf, "g0": g},
                         tiers=("quick", "thorough") if (cf == 0.95 and g in (0, 10)) else ("thorough",)))
    for g in range(16):
        o.append(Obl(f"C10.voxel.skewed.g{g}", "py", V, "voxel_pair", venc, f"strongly skewed cell (2.42, 3.05, 2.13 nm; 121.1, 124.5, 88.6 degrees), cutoff 0.9 x half width, grid point {g}", "same", 1500, params={"cell": "skewed", "cut_frac": 0.9, "g0": g},
                     tiers=("quick", "thorough") if g in (0, 5, 10, 15) else ("thorough",)))
    for c, cf in (("triclinic", 0.8), ("skewed", 0.9)):
        for g in range(64):
            o.append(Obl(f"C10.voxel.{c}.fine.g{g}", "py", V, "voxel_pair", venc, f"cell {c}, cutoff {cf} x half width, FINE grid: 8 x 8 fractional (y, z) positions per atom (-0.3 .. 1.2); atom 0 at grid point {g} of 64, atom 1 over all 64", "same", 3000,
                         params={"cell": c, "cut_frac": cf, "g0": g, "grid": "fine"}, tiers=("quick", "thorough") if g % 21 == 0 else ("thorough",)))
    o.append(Obl("C10.voxel.skewed.few_z_rows", "py", V, "voxel_pair", venc, "the same skewed cell (three voxel rows along z, c leaning by a third of b), atoms at (y, z) = (1.8356, 0.0912) and (0.8130, 0.8804) nm, x of both symbolic",
                 "same (this pair of rows is where a neighbour across the upper z face is lost: see the known finding)", 600, params={"cell": "skewed", "cut_frac": 0.9, "g0": 0, "points": "1.8356,0.0912,0.8130,0.8804"}))
    for c in ("cubic3", "triclinic"):
        for g in (0, 5, 10, 15):
            o.append(Obl(f"C10.voxel.nocell.{c}.g{g}", "py", V, "voxel_pair", venc, f"no cell (coordinates laid out as for cell {c}), cutoff as there, grid point {g}", "lists == [[1], [0]] exactly when the plain distance is below the cutoff", 600,
                         params={"cell": c, "cut_frac": 0.8, "g0": g, "periodic": False}))
    from harness.c10_voxel import CELLS as VC
    for c in ("triclinic", "skewed", "hex"):
        by, cy, cz = float(VC[c][1][1]), float(VC[c][2][1]), float(VC[c][2][2])
        yz = lambda fy, fz: (round(fy * by + fz * cy, 4), round(fz * cz, 4))
        for tag, A, B in (("zface", (0.5, 0.03), (0.5, 0.97)), ("zface_shifted", (0.3, 0.04), (0.42, 0.96)), ("yface", (0.03, 0.5), (0.97, 0.5)), ("yface_shifted", (0.04, 0.3), (0.96, 0.38))):
            for order in (0, 1):
                P0, P1 = (yz(*A), yz(*B)) if order == 0 else (yz(*B), yz(*A))
                o.append(Obl(f"C10.voxel.{c}.{tag}.order{order}", "py", V, "voxel_pair", venc, f"cell {c}, SMALL cutoff (0.4 x half width: many voxel rows), a pair straddling a cell face at fractional (y, z) {A} / {B}, atom order {order}; x symbolic",
                             "same: the neighbour is reached through the periodic image of a voxel layer / row, whose window is shifted by the image's offset", 900,
                             params={"cell": c, "cut_frac": 0.4, "g0": 0, "points": f"{P0[0]},{P0[1]},{P1[0]},{P1[1]}"}))
    import math
    from harness.c10_voxel import _width as _vw
    for c in ("triclinic", "skewed"):
        by, cy, cz = float(VC[c][1][1]), float(VC[c][2][1]), float(VC[c][2][2])
        cutv = 0.4 * _vw([[float(v) for v in r] for r in VC[c]]) / 2
        dz = 0.08 * cz
        if dz < 0.9 * cutv:
            dy = math.sqrt((0.97 * cutv) ** 2 - dz ** 2)
            for sgn, ph in ((sg, ph_) for sg in (1, -1) for ph_ in range(5)):
                # B's image one cell below sits dy (almost the whole cutoff) beside A in y: the partner lies in the outermost voxel row of the shifted window
                # (five phases of A within its voxel row)
                A = (0.40 + 0.021 * ph, 0.04)
                fyB = A[0] + (sgn * dy + 0.08 * cy) / by
                for order in (0, 1):
                    pa, pb = (round(A[0] * by + A[1] * cy, 4), round(A[1] * cz, 4)), (round(fyB * by + 0.96 * cy, 4), round(0.96 * cz, 4))
                    P0, P1 = (pa, pb) if order == 0 else (pb, pa)
                    o.append(Obl(f"C10.voxel.{c}.zface_far.{'plus' if sgn > 0 else 'minus'}.ph{ph}.order{order}", "py", V, "voxel_pair", venc, f"cell {c}, cutoff 0.4 x half width, a pair through the z face whose images are 0.97 cutoff apart, almost all of it along y ({'+' if sgn > 0 else '-'}), atom order {order}; x symbolic",
                                 "same: the partner sits in the outermost voxel row of the window shifted by the image's y offset", 900, params={"cell": c, "cut_frac": 0.4, "g0": 0, "points": f"{P0[0]},{P0[1]},{P1[0]},{P1[1]}"}))
    for c in ("cubic3", "ortho543", "triclinic"):
        by, cy, cz = float(VC[c][1][1]), float(VC[c][2][1]), float(VC[c][2][2])
        yz = lambda fy, fz: (round(fy * by + fz * cy, 4), round(fz * cz, 4))
        for tag, A, B in (("below_y", (-0.3, 0.5), (0.59, 0.5)), ("below_z", (0.5, -0.3), (0.5, 0.62)), ("above_y", (1.2, 0.5), (0.31, 0.52)), ("below_both", (-0.3, -0.3), (0.62, 0.6))):
            for order in (0, 1):
                P0, P1 = (yz(*A), yz(*B)) if order == 0 else (yz(*B), yz(*A))
                o.append(Obl(f"C10.voxel.{c}.{tag}.order{order}", "py", V, "voxel_pair", venc, f"cell {c}, SMALL cutoff (0.4 x half width), one atom stored OUTSIDE the cell at fractional (y, z) {A}, the other inside at {B} (a neighbour of its wrapped image in y / z), atom order {order}; x symbolic",
                             "same: the outside atom must be binned where its wrapped image is", 900, params={"cell": c, "cut_frac": 0.4, "g0": 0, "points": f"{P0[0]},{P0[1]},{P1[0]},{P1[1]}"}))
    for c in ("cubic3", "ortho543"):
        for g in (0, 63):
            for r_ in (4, 5):
                o.append(Obl(f"C10.voxel.{c}.cut40.fine.g{g}.row{r_}", "py", V, "voxel_pair", venc, f"cell {c}, cutoff 0.4 x half width, fine grid: atom 0 at grid point {g}, atom 1 over row {r_} (8 positions)", "same", 3000,
                             params={"cell": c, "cut_frac": 0.4, "g0": g, "grid": "fine", "row": r_}, tiers=("thorough",)))
    # no cell, TWO far atoms fix the bounding box: one voxel (taller than the cutoff) along one axis, four layers (shorter than the cutoff) along the other;
    # the pair sits two layers apart yet within the cutoff: the reach along each axis must come from that axis' own voxel size
    cut_ = 1.2
    for axis in ("z", "y"):
        lo, hi_short, hi_long = 0.0, 1.4 * cut_, 3.55 * cut_
        vs = hi_long / 4
        a0, a1 = round(lo + 0.99 * vs, 4), round(lo + 2.01 * vs, 4)
        mid = round(0.5 * hi_short, 4)
        for order in (0, 1):
            p0, p1 = (a0, a1) if order == 0 else (a1, a0)
            pts = f"{mid},{p0},{mid},{p1}" if axis == "z" else f"{p0},{mid},{p1},{mid}"
            spec = f"100,{lo},{lo},-100,{hi_short if axis == 'z' else hi_long},{hi_long if axis == 'z' else hi_short}"
            o.append(Obl(f"C10.voxel.nocell.two_layers_apart.{axis}.order{order}", "py", V, "voxel_pair", venc, f"no cell, cutoff 1.2; two far atoms fix the bounding box (one voxel along the other axis, four layers of 0.89 cutoff along {axis}); the pair sits two layers apart along {axis}, 0.91 cutoff apart; x symbolic",
                         "listed exactly when the plain distance is below the cutoff (the search must reach two layers along this axis)", 600, params={"cell": "cubic3", "cut_frac": 0.8, "g0": 0, "periodic": False, "points": pts, "spectator": spec}))
    for g in range(0, 64, 3):
        o.append(Obl(f"C10.voxel.nocell.stretched_fine.g{g}", "py", V, "voxel_pair", venc, f"no cell, cutoff 1.2, FINE grid; a third atom at (100, 2.0, 3.2) makes the voxels taller than the cutoff in y and shorter in z for part of the grid; pair grid point {g} of 64",
                     "same", 900, params={"cell": "cubic3", "cut_frac": 0.8, "g0": g, "periodic": False, "spectator": "100,2.0,3.2", "grid": "fine"}))
    for g in (0, 5, 6, 9, 10, 15):
        o.append(Obl(f"C10.voxel.nocell.stretched.g{g}", "py", V, "voxel_pair", venc, f"no cell, cutoff 1.2; a third atom at (100, 2.0, 9.5) stretches the bounding box (2 voxel rows in y, 8 layers in z: different voxel sizes in y and z); pair grid point {g}",
                     "the pair is listed exactly when its plain distance is below the cutoff; the far atom has no neighbours", 900, params={"cell": "cubic3", "cut_frac": 0.8, "g0": g, "periodic": False, "spectator": "100,2.0,9.5"}))
    return o


MANIFEST_INFO = {
    "engine": "llsym+cxxsym",
    "technique": "forking symbolic interpretation of neighbors.cpp's LLVM IR (incl. std::vector code) with symbolic coordinates and exact non-linear real queries on the wrapped difference; the voxel list neighborlist.cpp lowered from clang's JSON AST and executed on atom pairs with symbolic x (z3 linear arithmetic with floor / round integers), native shim replay",
    "text": "compute_neighbors' kernel returns exactly the haystack atoms within the cutoff (minimum-image sense) for every atom placement, for catalogue cells and cutoffs up to half the cell width. compute_neighborlist's voxel search lists an atom pair (symmetrically, once) exactly when an image is within the cutoff, for every x of both atoms within +-2.5 cells and a grid of y / z positions inside and outside the cell, for five cells and no cell.",
    "note": "The voxel list is decided for pairs (two atoms per call, optionally one or two concrete far atoms) with y / z on grids or explicit positions; defects that need three or more INTERACTING atoms are outside this bound (far concrete atoms can shape the voxel grid); the Cython frame loops are outside. Two defects found this way were repaired (b5a4600c: atoms outside the primary cell lose neighbours; 4e184836: skewed cells with few voxel layers).",
}
