from vtlib.core import Obl
from harness.c05 import CELLS

FILES = ["mdtraj/geometry/src/neighbors.cpp", "mdtraj/geometry/include/neighbors.hpp"]
META = {
    "files": FILES,
    "explanation": "E3 llsym on the IR of neighbors.cpp:_compute_neighbors. The two std::vector<int> arguments are built in interpreter memory "
                   "(libstdc++ layout), push_back/realloc run for real (operator new, memmove), coordinates are SYMBOLIC, the cell is concrete "
                   "(C05 catalogue or none) and the cutoff is concrete, at most half the smallest cell width. The interpreter forks on every "
                   "`dist2 < cutoff2`; per path the returned vector is a concrete index list. Decided: duplicate-free subsequence of the haystack; "
                   "no-cell: exactly the distance criterion (z3 on exact polynomials); periodic: for every unreported atom and query atom, first the "
                   "wrap domain of the kernel's wrapped difference W is PROVED from the path's rounding constraints (linear), then an EXACT "
                   "non-linear real query per lattice vector (+-2 cells) shows that |W| >= cutoff excludes any closer image. The kernel only wraps "
                   "and does not search 27 images; that this suffices whenever cutoff <= half the cell width is what is proved.",
    "trusted_base": ["clang 14 -O2 IR incl. libstdc++ vector code", "vtlib/llsym.py", "z3 nlsat for the exact queries", "triangle-inequality pruning of far lattice vectors on concrete numbers"],
    "assumptions": ["cells from the catalogue (off exact rounding ties)", "cutoff in {0.9, 1.0} x half the smallest cell width", "atoms anywhere (the wrapped difference ranges over the whole wrap domain)"],
    "out": ["compute_neighborlist (neighborlist.cpp: nested std::vector bins, std::sort, binary searches over symbolic keys — container shapes depend on symbolic data; not encodable with this interpreter): "
            "its symmetric / irreflexive / duplicate-free clauses and the voxel hashing are NOT decided", "the Cython frame loop neighbors.pyx"],
}


def obligations():
    H = "harness.c10"
    enc = ["neighbors.cpp:_compute_neighbors", "libstdc++ std::vector<int>::push_back (as compiled)"]
    o = [Obl("C10.neighbors.nocell", "py", H, "check_neighbors", enc, "3 atoms, query {0}, haystack {0,1,2}, no cell", "exactly the atoms (other than the query itself) within the cutoff, in haystack order", 300, params={"cell": "none"}),
         Obl("C10.neighbors.nocell.2queries", "py", H, "check_neighbors", enc, "query {0,1}, haystack {2,0,1} (unsorted)", "haystack ORDER is kept; an atom in both sets is compared with the other query atoms only", 300,
             params={"cell": "none", "query": [0, 1], "haystack": [2, 0, 1]})]
    for c in sorted(CELLS):
        quick = c in ("cubic", "ortho_ratio6", "hexagonal60", "monoclinic110", "monoclinic_alpha70", "monoclinic_gamma70", "trunc_octahedron", "triclinic_b", "triclinic_c", "triclinic_a_unreduced")
        o.append(Obl(f"C10.neighbors.{c}", "py", H, "check_neighbors", enc, f"cell {c}, cutoff = half the smallest width, query {{0}}, haystack {{0,1,2}}",
                     "periodic: reported atoms have an image within the cutoff; unreported atoms have NO image within the cutoff (wrap-only suffices)", 600,
                     params={"cell": c, "cutoff_frac": 1.0}, tiers=("quick", "thorough") if quick else ("thorough",)))
        o.append(Obl(f"C10.neighbors.{c}.q2", "py", H, "check_neighbors", enc, f"cell {c}, cutoff = 0.9 x half width, query {{0,1}}, haystack {{2,1,0}}", "same with two query atoms and an unsorted haystack", 900,
                     params={"cell": c, "cutoff_frac": 0.9, "query": [0, 1], "haystack": [2, 1, 0]}, tiers=("thorough",)))
    return o


MANIFEST_INFO = {
    "engine": "llsym",
    "technique": "forking symbolic interpretation of neighbors.cpp's LLVM IR (incl. std::vector code) with symbolic coordinates; exact non-linear real queries on the wrapped difference",
    "text": "compute_neighbors' kernel is proved to return exactly the haystack atoms within the cutoff (minimum-image sense) for every atom placement, for catalogue cells and cutoffs up to half the cell width. compute_neighborlist is NOT claimed.",
    "note": "Partial: only the compute_neighbors half of the property. neighborlist.cpp (voxel bins, sort, binary search) is outside the reach of the IR interpreter; neighbors.pyx frame loop is Cython.",
}
