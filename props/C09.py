from vtlib.core import Obl

FILES = ["mdtraj/geometry/src/geometry.cpp", "mdtraj/geometry/src/kernels/distancekernels.h", "mdtraj/geometry/src/kernels/anglekernels.h", "mdtraj/geometry/src/kernels/dihedralkernels.h",
         "mdtraj/geometry/src/sasa.cpp", "mdtraj/geometry/rg.py", "mdtraj/geometry/shape.py"]
META = {
    "files": FILES,
    "explanation": "Rigid motion: each kernel's IR (dist, angle, dihedral, ks_donor_acceptor) is interpreted on symbolic coordinates X and on R X + t with t SYMBOLIC and R from a "
                   "catalogue of 7 exact rational proper rotations; outputs are sqrt / acos / atan2 / quotients of polynomial arguments, and the two runs are compared as exact "
                   "polynomial normal forms (recursively through the named function values), i.e. invariance for ALL coordinates and translations, for those rotations. "
                   "compute_rg and the gyration tensor's invariants (trace, Frobenius norm, determinant) likewise through the numpy facade with z3. SASA: with every atom "
                   "translated by a common symbolic t no path condition and no output mentions t. Lattice translation: dist_mic with atom 2 shifted by SYMBOLIC integer multiples of "
                   "the cell vectors: z3 (QF_LIRA) proves the displacement unchanged away from rounding ties; for triclinic cells the statement is the corollary of C05 (a)+(b): "
                   "both results are images of one another and each is minimal among images within +-M cells, hence equal length.",
    "trusted_base": ["clang IR + vtlib/llsym.py", "polynomial normal form as decision procedure for identity", "z3", "C05 for the triclinic corollary"],
    "assumptions": ["rotations from the catalogue (symbolic R with R^T R = I is not attempted)", "real arithmetic: float32 cancellation at translations of hundreds of nm is outside the model"],
    "out": ["DSSP / hydrogen-bond SETS and neighbour lists (discrete consequences; only the distances/energies they threshold are covered)", "RMSD (C06 n/a)", "DRID", "SASA under rotation (quadrature points are fixed in the lab frame: invariance only up to quadrature error)", "neighbour-list voxel hashing"],
}


def obligations():
    H = "harness.c09"
    o = []
    for k in ("dist", "angle", "dihedral"):
        for r in range(7):
            quick = r in ((2, 5) if k == "dist" else (4,) if k == "angle" else (2, 6))
            o.append(Obl(f"C09.rigid.{k}.rot{r}", "py", H, "kernel_rigid", [f"geometry.cpp:{k}"], f"rotation #{r}, symbolic translation, all coordinates", "output on R X + t is the same function of X", 300,
                         params={"kernel": k, "rot": r}, tiers=("quick", "thorough") if quick else ("thorough",)))
    o += [
        Obl("C09.rigid.ks_energy", "py", H, "ks_energy_rigid", ["geometry.cpp:ks_donor_acceptor"], "rotation #4, symbolic translation", "Kabsch-Sander pair energy invariant", 300),
        Obl("C09.rigid.rg_gyration", "py", H, "rg_gyration_rigid", ["mdtraj.geometry.rg.compute_rg", "mdtraj.geometry.shape.compute_gyration_tensor"], "rotation #2, symbolic translation, 3 atoms", "Rg and trace / Frobenius norm / determinant of the gyration tensor invariant", 400),
        Obl("C09.translation.sasa", "py", H, "sasa_translation", ["sasa.cpp:sasa"], "2 atoms, 2 points, common symbolic translation", "no decision and no area depends on the translation", 300),
        Obl("C09.lattice.ortho_1_2_3", "py", H, "lattice_shift_ortho", ["geometry.cpp:dist_mic"], "symbolic integer lattice shift of one atom", "displacement unchanged away from ties", 300, params={"cell": "ortho_1_2_3"}),
        Obl("C09.lattice.cubic", "py", H, "lattice_shift_ortho", ["geometry.cpp:dist_mic"], "cubic cell", "same", 300, params={"cell": "cubic"}),
    ]
    # lattice translation at the API level: what is reported must be a function of minimum-image separations only
    enc = ["neighbors.cpp:_compute_neighbors"]
    for c in ("monoclinic110", "triclinic_b", "cubic"):
        o.append(Obl(f"C09.lattice.neighbors.{c}", "py", "harness.c10", "check_neighbors", enc, f"cell {c}, cutoff = half the smallest width, symbolic coordinates anywhere",
                     "the reported set is exactly 'some image within the cutoff' -- a lattice-periodic predicate, hence invariant under per-atom lattice shifts", 600, params={"cell": c, "cutoff_frac": 1.0}))
    o.append(Obl("C09.lattice.kernel_choice", "xh", "harness.c05_py", "dispatch", ["mdtraj.geometry.distance.compute_distances_core", "compute_displacements", "compute_distances_t"],
                 "3 frames, each orthorhombic or skewed (symbolic)", "a skewed frame is never sent to the diagonal-only kernel (whose output is not lattice-periodic in a skewed cell)", 300))
    o.append(Obl("C09.lattice.wrapper_flags", "xh", "harness.c07_py", "wrapper_flags", ["mdtraj.geometry.dihedral.compute_phi/psi/omega/chi1..chi5"], "3 ARG residues; which wrapper, periodic, opt symbolic",
                 "the minimum-image request reaches compute_dihedrals whatever the opt flag (a dropped periodic flag makes torsions depend on the stored image)", 200))
    o.append(Obl("C09.lattice.closest_contact_cell", "xh", "harness.c07_py", "closest_contact_frame", ["mdtraj.geometry.distance.find_closest_contact"], "3 frames with three different cells; frame, periodic, presence of a cell symbolic",
                 "the kernel receives the requested frame's coordinates and THAT frame's cell (another frame's lattice is not a symmetry of this frame)", 200))
    o.append(Obl("C09.lattice.hbond_legs", "py", "harness.c14", "baker_hubbard", ["mdtraj.geometry.hbond._compute_bounded_geometry"], "2 frames, 1 triplet, periodic=True",
                 "every side of the D-H...A triangle is measured with the caller's periodic flag (a raw D-H leg breaks invariance under per-atom lattice shifts)", 300, params={"n_frames": 2, "n_trip": 1, "freq": 0.4}))
    return o


MANIFEST_INFO = {
    "engine": "llsym",
    "technique": "two symbolic interpretations of each kernel's LLVM IR (X and R X + t, t symbolic, R exact rational) compared as polynomial normal forms; z3 for integer lattice shifts and for the numpy descriptors",
    "text": "Partial claim: distances, angles, dihedrals (value and sign), Kabsch-Sander energies, Rg and gyration-tensor invariants are proved invariant under catalogue rotations with arbitrary translations; SASA under translation; orthorhombic minimum-image displacement under integer lattice shifts; triclinic lattice shifts follow from C05.",
    "note": "Catalogue of rotations; real arithmetic (float32 cancellation regime excluded); discrete derived sets (DSSP codes, H-bond lists, neighbour lists) only through the quantities they threshold; RMSD not covered (C06).",
}
