from vtlib.core import Obl

FILES = ["mdtraj/geometry/src/kernels/anglekernels.h", "mdtraj/geometry/src/kernels/dihedralkernels.h", "mdtraj/geometry/src/geometry.cpp",
         "mdtraj/geometry/angle.py", "mdtraj/geometry/dihedral.py"]
META = {
    "files": FILES,
    "explanation": "E3 llsym, compositional: the IR of the six angle/dihedral kernels is interpreted with the called distance kernel replaced by its "
                   "C05 contract (fresh symbolic displacement vectors D_p and distances s_p = sqrt(D_p.D_p)), 2 frames x 2 index rows x 5 atoms. "
                   "Decided for ALL coordinate values: which pairs / coordinates / cell / sizes are handed to the distance kernel (both bond vectors "
                   "from the MIDDLE atom; b1,b2,b3 consecutive), angle = acos(clip(D0.D1/(s0 s1),-1,1)) (z3 on the clip select tree), dihedral = "
                   "atan2(s1*D0.(D1xD2), (D0xD1).(D1xD2)) (exact polynomial normal forms), output indexing out[frame,row]. E1 CrossHair: the torsion "
                   "index tables over topologies with symbolic atom presence and chain breaks; the Python dispatch with recording kernels.",
    "trusted_base": ["clang 14 -O2 IR", "vtlib/llsym.py", "z3 5.1.0", "CrossHair 0.0.110", "C05 contract of the distance kernels (proved separately)",
                     "acos/atan2 are compared through their arguments, never through numeric values"],
    "assumptions": ["index rows are distinct atoms in range (as the Python layer checks)"],
    "out": ["float behaviour near collinear / planar geometries", "chi3-chi5 tables (same code path as chi1/chi2 with other table constants)"],
}


def obligations():
    o = []
    for k in ("angle", "angle_mic", "angle_mic_triclinic", "dihedral", "dihedral_mic", "dihedral_mic_triclinic"):
        o.append(Obl(f"C07.kernel.{k}", "py", "harness.c07", "check_kernel", [f"geometry.cpp:{k}"], "2 frames x 2 index rows, symbolic displacements (callee contract), all coordinate values",
                     "right pairs from the middle atom / consecutive bonds, right cell, textbook formula incl. IUPAC sign, output indexing", 300, params={"kernel": k}))
    H = "harness.c07_py"
    D = "mdtraj.geometry.dihedral."
    o += [
    ] + [
        Obl(f"C07.indices.{nm}", "xh", H, "backbone_torsions", [D + "_atom_sequence", D + "_construct_atom_dict", D + "parse_offsets", D + "indices_" + nm],
            "3 residues with every presence pattern of N/CA/C (2^9), chain break after residue 1, 2 or none",
            f"{nm} rows are exactly the residues with all four atoms in the documented residues of the SAME chain, in residue order, columns in table order", 600, pre=f"which == {w}")
        for w, nm in enumerate(("phi", "psi", "omega"))
    ] + [
        Obl("C07.indices.chi1", "xh", H, "chi1_indices", [D + "_indices_chi", D + "indices_chi1", D + "_atom_sequence"], "one residue with every presence pattern of 7 side-chain atom names next to a fixed residue",
            "chi1 rows = every (residue, table row) match, ordered by residue", 600),
        Obl("C07.indices.chi2", "xh", H, "chi2_indices", [D + "_indices_chi", D + "indices_chi2", D + "_atom_sequence"], "same for the chi2 table", "chi2 rows likewise", 600),
    ] + [
        Obl(f"C07.indices.chi{w}", "xh", H, "chi345_indices", [D + "_indices_chi", D + f"indices_chi{w}", D + "_atom_sequence"], f"same for the chi{w} table (7 atom names, every presence pattern)",
            f"chi{w} rows = every (residue, documented table row) match, ordered by residue, columns in table order", 600, pre=f"which == {w}")
        for w in (3, 4, 5)
    ] + [
        Obl("C07.reference_paths", "xh", H, "reference_paths", ["mdtraj.geometry.angle._angle", "mdtraj.geometry.dihedral._dihedral"], "opt=False paths; periodic flag as Python or numpy bool; two index rows incl. repeated / reversed atoms",
            "every bond vector is requested with the caller's periodic flag for the right atom pair; the value is acos / atan2 of the textbook expression of those vectors", 200),
        Obl("C07.torsions_after_edit", "xh", H, "torsions_after_edit", ["mdtraj.geometry.dihedral.indices_phi/psi/omega/chi1", "_construct_atom_dict"], "query, rename / delete an atom in place, query again (with and without a first query)",
            "named torsions follow the CURRENT topology (no stale lookup table)", 200),
        Obl("C07.dispatch", "xh", H, "dispatch", ["mdtraj.geometry.angle.compute_angles", "mdtraj.geometry.dihedral.compute_dihedrals"],
            "angles|dihedrals x {no cell, orthorhombic, one skewed frame, triclinic, 90.00001 deg} x periodic x opt",
            "non-periodic/no-cell -> plain kernel; periodic -> *_mic kernel with the per-frame TRANSPOSED cell and orthogonal <=> every frame allclose to 90 deg; opt=False -> reference path", 300),
        Obl("C07.wrapper_flags", "xh", H, "wrapper_flags", ["mdtraj.geometry.dihedral.compute_phi/psi/omega/chi1..chi5"], "3 ARG residues; which wrapper, periodic, opt symbolic",
            "each convenience wrapper hands the trajectory and the caller's periodic and opt flags, each in its own place, to compute_dihedrals", 200),
    ]
    return o


MANIFEST_INFO = {
    "engine": "llsym",
    "technique": "symbolic interpretation of the angle/dihedral kernels' LLVM IR with the distance kernel replaced by its proved contract; exact polynomial normal forms + z3; CrossHair for index tables and dispatch",
    "text": "Angle and dihedral kernels are proved to be acos / atan2 of the textbook expressions of the minimum-image bond vectors for all coordinates, the named torsions are proved to pick exactly the documented atoms for every presence pattern and chain layout in the bound, and the Python dispatch is proved to select the right kernel with the right cell.",
    "note": "Compositional: relies on C05 for the distance kernels. Real-arithmetic model of floats. Reference numpy paths covered only through dispatch.",
}
