from vtlib.core import Obl

FILES = ["mdtraj/core/trajectory.py", "mdtraj/utils/unit/__init__.py", "mdtraj/utils/unitcell.py", "mdtraj/formats/hdf5.py", "mdtraj/formats/netcdf.py", "mdtraj/formats/mdcrd.py",
         "mdtraj/formats/xyzfile.py", "mdtraj/formats/lammpstrj.py", "mdtraj/formats/gro.py", "mdtraj/formats/amberrst.py", "mdtraj/formats/pdb/pdbfile.py"]
META = {
    "files": FILES,
    "explanation": "E2 symnum on the unit / field plumbing between a Trajectory and each format's writer and reader. Save side: the real Trajectory.save_<fmt> "
                   "runs on a trajectory whose coordinates, times and cell lengths are z3 reals; the format's file class is replaced by a recorder whose "
                   "distance_unit is the real class's (for the compiled classes: a real writer instance's), and z3 decides that every number handed to write() "
                   "equals the trajectory value times the factor in an independent table of native units (angstrom: dcd, netcdf, ncrst, rst7, mdcrd, pdb, xyz, "
                   "lammpstrj, dtr; nm: xtc, trr, h5, gro), that time (ps) and angles (degrees) pass unchanged into the right argument, that box vectors have the "
                   "cell's lengths and angles in the standard orientation, and that numbered restart files get frame k's coordinates, time and cell. Load side: the "
                   "real read_as_traj of each pure-Python format class runs on symbolic arrays delivered by a stub read(); the values reaching the Trajectory "
                   "constructor / setters must be the file's numbers converted to nm with times / angles unchanged. Counterexamples are replayed through real files "
                   "(save with the public API, read back with the format's low-level reader in native units, and vice versa).",
    "trusted_base": ["z3", "vtlib/symnum.py facade", "the independent native-unit table in harness/c01.py", "compiled writers' distance_unit attribute read from the installed extension modules"],
    "assumptions": ["2 frames x 2 atoms (restart: 1, 3 and 11 frames); coordinates/times in [-1000,1000], cell lengths in [0.5,100] nm; cell angles concrete (90/90/90 and 80/100/70)",
                    "real arithmetic: float32 storage precision of the formats is not modelled"],
    "out": ["binary codecs (XTC compression, TRR, DCD, DTR: Cython + C behind FFI) and HDF5/NetCDF storage layers: bytes on disk are not modelled",
            "fixed-width text encoders/decoders (mdcrd, pdb, gro, xyz, lammpstrj, rst7 number formatting and column layout) -- value fidelity of the text layer is not decided here",
            "read_as_traj of the compiled classes (xtc, trr, dcd, dtr)", "PDB keeps a single CRYST1 record: per-frame varying cells are a format limitation",
            "save options (gro precision, pdb bfactors/ter/header)"],
}

SAVE = ["hdf5", "xtc", "trr", "dcd", "dtr", "netcdf", "mdcrd", "xyz", "lammpstrj", "pdb", "gro"]
LOAD = ["netcdf", "hdf5", "mdcrd", "xyz", "lammpstrj", "gro", "amberrst7", "netcdfrst"]


def obligations():
    H = "harness.c01"
    o = []
    for f in SAVE:
        for cell, tri in ((True, False), (True, True), (False, False)):
            if f == "xyz" and tri:
                continue
            tag = "tri" if tri else "ortho" if cell else "nocell"
            o.append(Obl(f"C01.save.{f}.{tag}", "py", H, "save_units", [f"mdtraj.core.trajectory.Trajectory.save_{f}", "mdtraj.utils.unit.in_units_of", "mdtraj.utils.unitcell.lengths_and_angles_to_box_vectors"],
                         "2 frames x 2 atoms, symbolic coordinates/times/cell lengths", "numbers handed to the writer = trajectory values in the format's native unit, each in its own argument", 120,
                         params={"fmt": f, "cell": cell, "triclinic": tri}))
    for f in ("amberrst7", "netcdfrst"):
        for n in (1, 3, 11):
            for cell in (True, False):
                o.append(Obl(f"C01.restart.{f}.n{n}.{'cell' if cell else 'nocell'}", "py", H, "restart_indexing", [f"mdtraj.core.trajectory.Trajectory.save_{f}"], f"{n} frames x 2 atoms, symbolic",
                             "file name.k receives frame k's coordinates (angstrom), time and cell; one frame -> name", 120, params={"fmt": f, "n_frames": n, "cell": cell},
                             tiers=("quick", "thorough") if n != 11 or cell else ("thorough",)))
    for f in LOAD:
        for cell in (True, False):
            o.append(Obl(f"C01.load.{f}.{'cell' if cell else 'nocell'}", "py", H, "load_units", [f"{f} read_as_traj", "mdtraj.utils.unit.in_units_of"], "2 frames x 2 atoms (restart: 1 frame), symbolic file contents",
                         "values reaching the Trajectory are the file's numbers in nm / ps / degrees", 120, params={"fmt": f, "cell": cell}))
    return o


MANIFEST_INFO = {
    "engine": "symnum",
    "technique": "real save_<fmt> / read_as_traj Python code executed on z3 reals (symbolic coordinates, times, cell lengths) with the file class replaced by a recorder; z3 decides equality with an independent native-unit table; counterexamples replayed through real files",
    "text": "Units and field plumbing between Trajectory and every writable format's writer (13 formats) and every pure-Python reader (8): native-unit factor, time/angle pass-through, box-vector geometry, per-file frame indexing of the multi-file restart writers, cell-less trajectories.",
    "note": "PARTIAL: the bytes themselves (binary codecs, fixed-width text formatting and parsing) are not modelled; precision claims are not decided. Real arithmetic.",
}
