from vtlib.core import Obl

FILES = ["mdtraj/core/trajectory.py", "mdtraj/utils/unit/__init__.py", "mdtraj/utils/unitcell.py", "mdtraj/formats/hdf5.py", "mdtraj/formats/netcdf.py", "mdtraj/formats/mdcrd.py",
         "mdtraj/formats/xyzfile.py", "mdtraj/formats/lammpstrj.py", "mdtraj/formats/gro.py", "mdtraj/formats/amberrst.py", "mdtraj/formats/pdb/pdbfile.py"]
META = {
    "files": FILES,
    "explanation": "E2 symnum on the unit / field plumbing between a Trajectory and each format's writer and reader. Save side: the real Trajectory.save_<fmt> "
                   "runs on a trajectory whose coordinates, times and cell lengths are z3 reals; the format's file class is replaced by a recorder whose "
                   "distance_unit is the real class's (for the compiled classes: a real writer instance's), and z3 decides that every number handed to write() "
                   "equals the trajectory value times the factor in an independent table of native units (angstrom: dcd, netcdf, ncrst, rst7, mdcrd, pdb, xyz, "
                   "lammpstrj, dtr; nm: xtc, trr, h5, gro), that time (ps) and angles (degrees) pass unchanged into the right argument, that box vectors have the "
                   "cell's lengths and angles in the standard orientation, and that numbered restart files get frame k's coordinates, time and cell. Load side: the "
                   "real read_as_traj of each pure-Python format class runs on symbolic arrays delivered by a stub read(); the values reaching the Trajectory "
                   "constructor / setters must be the file's numbers converted to nm with times / angles unchanged. Text layer (harness/c01_text.py): the real write() "
                   "of gro, mdcrd, xyz, lammpstrj, rst7 and pdb runs on symbolic numbers; formatting a symbolic value yields a TOKEN standing for its z3 term, so all arithmetic before "
                   "formatting (LAMMPS box bounds and tilt factors, minima) stays symbolic and the text records which term landed in which field; an independent reader written "
                   "from each format's specification parses the text and z3 decides that it extracts the trajectory's numbers, on every path through the writer (branches on "
                   "symbolic values are explored); mdtraj's own reader must extract the same tokens. Counterexamples are replayed through real files "
                   "(save with the public API, read back with the format's low-level reader in native units, and vice versa).",
    "trusted_base": ["z3", "vtlib/symnum.py facade", "the independent native-unit table in harness/c01.py", "compiled writers' distance_unit attribute read from the installed extension modules"],
    "assumptions": ["2 frames x 2 atoms (restart: 1, 3 and 11 frames); coordinates/times in [-1000,1000], cell lengths in [0.5,100] nm; cell angles concrete (90/90/90 and 80/100/70)",
                    "real arithmetic: float32 storage precision of the formats is not modelled"],
    "out": ["binary codecs (XTC compression, TRR, DCD, DTR: Cython + C behind FFI) and HDF5/NetCDF storage layers: bytes on disk are not modelled",
            "number formatting itself (rounding to the printed precision, field overflow at the format's limit): tokens are exact in every field", ".gz variants", "PDB: bfactors / ter / header options, CONECT records, more than one chain",
            "read_as_traj of the compiled classes (xtc, trr, dcd, dtr)", "PDB keeps a single CRYST1 record: per-frame varying cells are a format limitation",
            "save options (gro precision, pdb bfactors/ter/header)"],
}

SAVE = ["hdf5", "xtc", "trr", "dcd", "dtr", "netcdf", "mdcrd", "xyz", "lammpstrj", "pdb", "gro"]
LOAD = ["netcdf", "hdf5", "mdcrd", "xyz", "lammpstrj", "gro", "amberrst7", "netcdfrst"]


def obligations():
    H = "harness.c01"
    o = []
    for f in SAVE:
        for cell, tri in ((True, False), (True, True), (False, False)):
            if f == "xyz" and tri:
                continue
            tag = "tri" if tri else "ortho" if cell else "nocell"
            o.append(Obl(f"C01.save.{f}.{tag}", "py", H, "save_units", [f"mdtraj.core.trajectory.Trajectory.save_{f}", "mdtraj.utils.unit.in_units_of", "mdtraj.utils.unitcell.lengths_and_angles_to_box_vectors"],
                         "2 frames x 2 atoms, symbolic coordinates/times/cell lengths", "numbers handed to the writer = trajectory values in the format's native unit, each in its own argument", 120,
                         params={"fmt": f, "cell": cell, "triclinic": tri}))
    for f, shapes in (("mdcrd", ("hex", "mono", "mono_a", "frame1")), ("dcd", ("hex",)), ("netcdf", ("mono",)), ("lammpstrj", ("hex", "mono_a")), ("xtc", ("mono",))):
        for sh in shapes:
            o.append(Obl(f"C01.save.{f}.{sh}", "py", H, "save_units", [f"mdtraj.core.trajectory.Trajectory.save_{f}"], "2 frames x 2 atoms; a cell with SOME right angles (hex 90/90/120, mono 90/100/90, mono_a 75/90/90, frame1: only the second frame skewed)",
                         "same; mdcrd (box lengths only) must refuse every non-rectilinear cell", 120, params={"fmt": f, "cell": True, "triclinic": True, "angles": sh}))
    for f in ("amberrst7", "netcdfrst"):
        for n in (1, 3, 11):
            for cell in (True, False):
                o.append(Obl(f"C01.restart.{f}.n{n}.{'cell' if cell else 'nocell'}", "py", H, "restart_indexing", [f"mdtraj.core.trajectory.Trajectory.save_{f}"], f"{n} frames x 2 atoms, symbolic",
                             "file name.k receives frame k's coordinates (angstrom), time and cell; one frame -> name", 120, params={"fmt": f, "n_frames": n, "cell": cell},
                             tiers=("quick", "thorough") if n != 11 or cell else ("thorough",)))
    for f in LOAD:
        for cell in (True, False):
            o.append(Obl(f"C01.load.{f}.{'cell' if cell else 'nocell'}", "py", H, "load_units", [f"{f} read_as_traj", "mdtraj.utils.unit.in_units_of"], "2 frames x 2 atoms (restart: 1 frame), symbolic file contents",
                         "values reaching the Trajectory are the file's numbers in nm / ps / degrees", 120, params={"fmt": f, "cell": cell}))
    o.append(Obl("C01.pdb.format_83", "py", "harness.c01_fmt", "format_83", ["mdtraj.formats.pdb.pdbfile._format_83"], "every multiple of 0.001 up to +-1e9: the function's branch regions from the solver, decided on the solver's boundary witnesses of each region",
                 "the coordinate field is exactly 8 columns and reads back to the number within one unit of its last printed digit, or the save is refused", 120))
    for st in ("orthogonal", "triclinic"):
        o.append(Obl(f"C01.lammpstrj.parse_box.{st}", "py", "harness.c01_lammps", "parse_box", ["mdtraj.formats.lammpstrj.LAMMPSTrajectoryFile.parse_box"], "symbolic header numbers (bounds at least 20 apart, tilt factors within +-5)",
                     "lengths and angles returned by the READER are those of the cell a = (lx,0,0), b = (xy,ly,0), c = (xz,yz,lz) of the LAMMPS manual: each angle is arccos of the right normalised dot product", 600, params={"style": st}))
    T = "harness.c01_text"
    enc = {"gro": ["mdtraj.formats.gro.GroTrajectoryFile.write", "_write_frame", "read", "_read_frame"], "mdcrd": ["mdtraj.formats.mdcrd.MDCRDTrajectoryFile.write", "read", "_read"],
           "xyz": ["mdtraj.formats.xyzfile.XYZTrajectoryFile.write", "read"], "lammpstrj": ["mdtraj.formats.lammpstrj.LAMMPSTrajectoryFile.write", "write_box", "read", "parse_box"],
           "rst7": ["mdtraj.formats.amberrst.AmberRestartFile.write", "read"], "pdb": ["mdtraj.formats.pdb.pdbfile.PDBTrajectoryFile.write", "_write_header", "_format_83", "_read_models"]}
    for f in ("gro", "mdcrd", "xyz", "lammpstrj", "rst7", "pdb"):
        for cell in ("none", "ortho", "tri"):
            if (f, cell) in (("mdcrd", "tri"), ("lammpstrj", "none"), ("xyz", "ortho"), ("xyz", "tri")):
                continue
            o.append(Obl(f"C01.text.{f}.{cell}", "py", T, "writer", enc[f], "2 frames (rst7: 1) x 3 atoms; symbolic coordinates, times, cell lengths; every path through the writer",
                         "an independent reader of the format (written from its specification) and mdtraj's own reader both extract exactly the trajectory's numbers from the written text", 300,
                         params={"fmt": f, "cell": cell, "n_atoms": 3}))
    for f in ("lammpstrj", "gro", "pdb"):
        o.append(Obl(f"C01.text.{f}.tri2", "py", T, "writer", enc[f], "same with a cell whose beta and gamma are both obtuse (80 / 95 / 100 degrees: b and c lean towards -x; kept below the token range of the formatting trick)",
                     "same (the tilt extents of the LAMMPS bounding box then come from xy + xz)", 300, params={"fmt": f, "cell": "tri2", "n_atoms": 3}))
    o.append(Obl("C01.text.mdcrd.7atoms", "py", T, "writer", enc["mdcrd"], "7 atoms: 21 values = 2 full 10F8.3 records + 1", "record wrapping at 10 values per line and a fresh record per frame", 300, params={"fmt": "mdcrd", "cell": "ortho", "n_atoms": 7}))
    o.append(Obl("C01.text.rst7.odd_atoms", "py", T, "writer", enc["rst7"], "3 and 4 atoms: 6F12.7 records with an odd / even number of atoms", "line breaks after every second atom; box line on its own record", 300, params={"fmt": "rst7", "cell": "ortho", "n_atoms": 4}))
    o.append(Obl("C01.text.rst7.two_atoms_60deg", "py", T, "writer", enc["rst7"], "2 atoms, rhombohedral cell 60/60/60 with lengths below 60 A: the reader has to tell a box line from a velocity line", "the box written for a 2-atom system is read back as a box", 300,
                 params={"fmt": "rst7", "cell": "rhomb60", "n_atoms": 2}))
    o.append(Obl("C01.text.mdcrd.box_record_layout", "py", T, "writer", enc["mdcrd"], "fixed-column (FORTRAN 3F8.3) reading of the box record", "the box record occupies columns 1-24 as the AMBER format page specifies", 300,
                 params={"fmt": "mdcrd", "cell": "ortho", "n_atoms": 3, "strict_box": True}))
    return o


MANIFEST_INFO = {
    "engine": "symnum",
    "technique": "real save_<fmt> / read_as_traj Python code executed on z3 reals (symbolic coordinates, times, cell lengths) with the file class replaced by a recorder; z3 decides equality with an independent native-unit table; counterexamples replayed through real files",
    "text": "Units and field plumbing between Trajectory and every writable format's writer (13 formats) and every pure-Python reader (8): native-unit factor, time/angle pass-through, box-vector geometry, per-file frame indexing of the multi-file restart writers, cell-less trajectories. Text formats (gro, mdcrd, xyz, lammpstrj, rst7, pdb): the written text, read by an independent specification-based reader and by mdtraj's reader, yields exactly the symbolic numbers (layout, field order, record wrapping, LAMMPS triclinic box bounds).",
    "note": "PARTIAL: binary codecs (XTC/TRR/DCD/DTR, HDF5/NetCDF storage) are not modelled; printed precision / field overflow are not decided. Real arithmetic.",
}
