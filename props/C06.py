from vtlib.core import Obl

FILES = ["mdtraj/rmsd/src/theobald_rmsd.cpp", "mdtraj/rmsd/src/theobald_rmsd_generic.h", "mdtraj/rmsd/src/rotation.cpp", "mdtraj/rmsd/src/rotation_generic.h", "mdtraj/rmsd/src/center.cpp",
         "mdtraj/rmsd/src/center_generic.h", "mdtraj/core/trajectory.py"]
META = {
    "files": FILES,
    "explanation": "E3 llsym on the scalar (__NO_INTRINSICS) RMSD kernels, compiled -fno-inline so that the numerical root finder DirectSolve is a call that is REPLACED BY ITS "
                   "CONTRACT (returns the largest real root lambda of x^4 + C2 x^2 + C1 x + C0). Everything around it is exact polynomial algebra over symbolic inputs: the inner-product "
                   "matrix and traces handed over by msd_atom_major / msd_axis_major (N = 3..5); C2, C1, C0 are the coefficients of det(K - xI) for the symmetric key matrix K, whose meaning "
                   "is pinned by the identity <Rot(q), M> = q^T K q with Rot(q) Rot(q)^T = |q|^4 I, det = |q|^6 for the rotation the code builds and the way rot_atom_major applies it; the "
                   "returned value is max(0, (Ga + Gb - 2 lambda)/N); the code's quaternion satisfies (K - lambda I) q = (P(lambda), 0, 0, 0)^T, so it is an eigenvector for the returned root and "
                   "the returned rotation attains sum |a Rot - b|^2 = Ga + Gb - 2 lambda; the quartic is invariant under M -> M^T and M -> R M, M R (symmetry, rigid-motion invariance); centring "
                   "and traces; rotation application. Python layer (E2): Trajectory.superpose hands over selected atoms centred on THEIR mean with their traces, the displaced copy shifted by the "
                   "same offset, the reference frame's selection centred, and finally adds the reference offset; the reference is not modified.",
    "trusted_base": ["clang 14 -O2 -fno-inline", "vtlib/llsym.py", "exact rational polynomial arithmetic (vtlib.llsym.Poly)", "z3", "the Rayleigh principle: max over unit q of q^T K q is the largest eigenvalue (mathematics, not code)",
                     "contract of DirectSolve (largest real root) -- its acos/cos/cbrt numerics are NOT verified"],
    "assumptions": ["scalar generic kernels stand for the SSE/NEON variants (same real functions lane-wise)", "N = 3, 4, 5 atoms for the loops (uniform in N)", "floats as reals"],
    "out": ["the quartic solver's numerics and convergence (quartic_equation_solve_exact, solve_cubic_equation)", "float32 cancellation for large offsets from the origin", "the Cython glue _rmsd.pyx (prange, padding, precentered handling)",
            "SIMD variants (theobald_rmsd_sse.h etc.)", "lprmsd / Munkres", "the degenerate branch is decided on diagonal M only; repeated largest eigenvalue: see the known finding (point inversion)"],
}


def obligations():
    H = "harness.c06"
    o = [Obl("C06.msd_algebra", "py", H, "msd_algebra", ["theobald_rmsd.cpp:msdFromMandG (DirectSolve by contract)"], "symbolic M (9), G_a, G_b, lambda",
             "characteristic polynomial, returned msd, eigenvector, proper rotation, attained cross term, transpose / rotation invariance: 53 exact polynomial identities", 600)]
    for n in (3, 4, 5):
        o.append(Obl(f"C06.inner_products.atom_major.n{n}", "py", H, "inner_products", ["theobald_rmsd_generic.h:msd_atom_major"], f"{n} atoms, symbolic coordinates", "M[3r+c] = sum a_ir b_ic; traces, atom count and flags passed through", 120,
                     params={"n_atoms": n, "layout": "atom_major"}))
        o.append(Obl(f"C06.inner_products.axis_major.n{n}", "py", H, "inner_products", ["theobald_rmsd_generic.h:msd_axis_major"], f"{n} atoms (padded to a multiple of 4), symbolic coordinates", "same for the axis-major layout", 120,
                     params={"n_atoms": n, "layout": "axis_major"}))
        o.append(Obl(f"C06.centring.n{n}", "py", H, "centring", ["center_generic.h:inplace_center_and_trace_atom_major"], f"2 frames x {n} atoms", "coordinates minus their mean; trace = sum |x - mean|^2", 120, params={"n_atoms": n}))
    o.append(Obl("C06.rotation_apply", "py", H, "rotation_apply", ["rotation_generic.h:rot_atom_major", "rot_msd_atom_major"], "3 atoms, symbolic rotation entries", "a' = a . Rot; mean squared deviation after rotating", 120, params={"n_atoms": 3}))
    for s in ("all", "same", "different", "explicit_all", "permutation", "self", "self_sel", "traces", "different_unsorted"):
        o.append(Obl(f"C06.superpose.{s}", "py", H, "superpose_wrapper", ["mdtraj.core.trajectory.Trajectory.superpose"], "2 frames x 4 atoms against frame 1 of a 2-frame reference; atom selections / aliasing: " + s + " (explicit_all: an index array naming every atom; self: the reference is the trajectory itself; traces: cached centring traces present)",
                     "centred selections, traces, displaced copy and final offset onto the reference frame's ORIGINAL centroid; reference untouched; cached traces dropped", 300, params={"sel": s}))
    o.append(Obl("C06.degenerate_rotation", "py", H, "degenerate_branch", ["theobald_rmsd.cpp:msdFromMandG (adjugate rows 0..3, identity branch)", "cofactor4"], "diagonal inner-product matrices M = diag(m0, m1, m2), simple largest eigenvalue",
                 "|q|^2 of adjugate row i equals prod_{j != i} (K_jj - lambda)^2 at lambda = K_ii: with a simple largest eigenvalue some row is usable (180-degree rotations included) and the identity branch is not taken", 300, params={"repeated": False}))
    o.append(Obl("C06.degenerate_eigenvalue", "py", H, "degenerate_branch", ["theobald_rmsd.cpp:msdFromMandG (identity branch)"], "M = diag(-1,-1,-1): repeated largest eigenvalue (point inversion)",
                 "the identity rotation is returned only when it is optimal", 300, params={"repeated": True}))
    o.append(Obl("C06.row_selection", "py", H, "row_selection", ["theobald_rmsd.cpp:msdFromMandG (choice among adjugate rows, cutoffs)", "cofactor4"], "symbolic M (9), G_a, G_b, lambda; every path",
                 "row 0 only above a relative cutoff, otherwise the row of largest norm; identity only when every row is relatively small (rounding noise is never normalised into a rotation)", 300))
    for d_ in ("rot40", "rot180"):
        o.append(Obl(f"C06.small_scale.{d_}", "py", H, "small_scale", ["theobald_rmsd.cpp:msdFromMandG (cutoff on |q|^2)"], "M = s D for a perfectly superposable isotropic pair (" + d_ + "), G_a = G_b = lambda = s, every s in [1e-4, 1] nm^2",
                     "the identity branch is infeasible: small structures (a water has s ~ 0.01) get their rotation", 300, params={"direction": d_}))
    TJ = "mdtraj.core.trajectory.Trajectory."
    o.append(Obl("C06.recenter_after_edit", "xh", "harness.c03", "recenter_after_inplace_edit", [TJ + "center_coordinates", "mdtraj._rmsd (real kernel as observer)"],
                 "n<=3 frames; centre, edit any one coordinate in place, centre again (once or twice)",
                 "the trajectory is centred again, the cached traces belong to the current coordinates, md.rmsd(precentered=True) equals the freshly fitted value", 300))
    return o


MANIFEST_INFO = {
    "engine": "llsym",
    "technique": "symbolic interpretation of the scalar RMSD kernels' LLVM IR with the numerical root finder replaced by its contract; exact polynomial identities (normal forms + z3) tie the quartic, the eigenvector, the rotation and the returned value together; symnum for Trajectory.superpose",
    "text": "PARTIAL: given the largest root of the quartic, the kernels return (G_a + G_b - 2 lambda)/N for the characteristic polynomial of the right key matrix, the rotation written out is proper, belongs to that root and attains exactly that deviation when applied the way superpose applies it; transpose and rotation invariance of the quartic; centring, traces, inner products for N = 3..5; superpose's selection / centring / offset plumbing.",
    "note": "The quartic solver's numerics, float32 effects, SIMD variants and the Cython glue are outside; optimality rests on the Rayleigh principle.",
}
