from vtlib.core import Obl

FILES = ["mdtraj/geometry/src/image_molecules.pxi", "mdtraj/core/trajectory.py", "mdtraj/core/topology.py"]
META = {
    "files": FILES,
    "explanation": "image_molecules.pxi exists only as Cython and the installed extension cannot be rebuilt, so the file is LOWERED to Python on every run "
                   "(vtlib/pxilower.py: declarations dropped, typed memoryviews indexed as arrays, out-parameters returned; unknown constructs make the check "
                   "inconclusive) and make_whole / wrap_mols / image_frame run on z3 reals (E2): symbolic positions, concrete catalogue cells with exact "
                   "rationals, roundf/floorf as integer unknowns. z3 decides (linear integer/real arithmetic): each move is an integer combination of the "
                   "cell vectors (IsInt of the exact fractional coordinates), one bond step puts the pair at its compact-image separation whenever one exists "
                   "within 0.49 cell widths, an already whole pair is not moved, wrap_mols applies one common translation and one lattice vector per molecule "
                   "and leaves molecule centres inside the box. These are INDUCTIVE STEPS over arbitrary positions; that the whole walk makes every molecule "
                   "whole then needs the bond list to attach one new atom per step, which is decided for the Python layer's default bond list on every bond "
                   "graph over 4 atoms (CrossHair), together with the inplace / no-sharing / cell-and-time-untouched / argument plumbing of both wrappers.",
    "trusted_base": ["z3", "vtlib/pxilower.py (Cython -> Python reading of the .pxi: C float as real, C int as Python int, memoryview indexing)", "vtlib/symnum.py", "CrossHair"],
    "assumptions": ["cells from the C05 catalogue in mdtraj's standard lower-triangular orientation; positions within +-50 cell lengths",
                    "compactness premise: some lattice image of the molecule has all atoms within 0.49 x smallest cell width of each other in every Cartesian component",
                    "one anchor molecule in image_frame (the multi-anchor ordering uses find_closest_contact, stubbed)"],
    "out": ["the compiled extension actually installed (source-level claim)", "multi-anchor placement order and find_closest_contact", "float32 rounding at exact ties of roundf",
            "guess_anchor_molecules heuristics", "consequence 'minimum-image distances, angles and dihedrals unchanged' follows from lattice moves + C05/C07/C09, not re-proved here"],
}

QUICK_CELLS = ("cubic", "ortho_ratio6", "monoclinic70", "hexagonal120", "trunc_octahedron", "triclinic_a")
MORE_CELLS = ("ortho_1_2_3", "monoclinic110", "monoclinic_alpha70", "monoclinic_gamma70", "hexagonal60", "rhombic_dodeca_sq", "triclinic_b", "triclinic_c")


def obligations():
    H = "harness.c11"
    enc = ["image_molecules.pxi:make_whole (lowered)"]
    o = []
    for c in QUICK_CELLS + MORE_CELLS:
        tiers = ("quick", "thorough") if c in QUICK_CELLS else ("thorough",)
        o.append(Obl(f"C11.make_whole.step.{c}", "py", H, "make_whole", enc, f"cell {c}; two atoms anywhere within +-50 cells", "one bond step: lattice move of the second atom only; compact-image separation; already whole pair not moved", 600,
                     params={"cell": c, "bonds": "pair"}, tiers=tiers))
        o.append(Obl(f"C11.wrap.{c}", "py", H, "wrap", ["image_molecules.pxi:wrap_mols (lowered)", "image_frame"], f"cell {c}; anchor of 2 atoms, molecules of 2 and 1 atoms", "common translation + one lattice vector per molecule; centres inside the box", 300,
                     params={"cell": c, "with_whole": False}, tiers=tiers))
        o.append(Obl(f"C11.image_frame.{c}", "py", H, "wrap", ["image_molecules.pxi:image_frame (lowered)", "make_whole", "wrap_mols"], f"cell {c}; make_whole then wrap", "every atom: lattice vector + the common translation", 300,
                     params={"cell": c, "with_whole": True}, tiers=tiers))
    for b in ("path", "star", "ring", "branch4", "h_first"):
        o.append(Obl(f"C11.make_whole.walk.{b}", "py", H, "make_whole", enc, f"cubic cell; bond list '{b}' in attach-one-atom order", "all bonded pairs at the compact image's separation; roots fixed; lattice moves", 600, params={"cell": "cubic", "bonds": b}))
    o.append(Obl("C11.python.bond_order", "xh", "harness.c11_py", "bond_order", ["mdtraj.core.trajectory.Trajectory.make_molecules_whole", "Trajectory.image_molecules"], "every bond graph on 4 atoms + a lone ion; both entry points",
                 "the default bond list covers every molecule and attaches one not-yet-attached atom per step", 600))
    o.append(Obl("C11.python.wrappers", "xh", "harness.c11_py", "wrappers", ["mdtraj.core.trajectory.Trajectory.make_molecules_whole", "Trajectory.image_molecules"], "inplace x make_whole x explicit/guessed molecules x 3 symbolic bonds",
                 "inplace=False leaves the original untouched and shares nothing; cell and times unchanged; arguments handed to the routine", 600))
    o.append(Obl("C11.python.other_molecules", "xh", "harness.c11_py", "other_molecules_default", ["mdtraj.core.trajectory.Trajectory.image_molecules", "mdtraj.core.topology.Topology.find_molecules"],
                 "bond graph on 4 atoms + ion (4 symbolic edges), multi-atom or single-atom residues, explicit anchor, other molecules left to the library",
                 "every non-anchor connected component is handed over as one molecule (so it is wrapped as a unit)", 600))
    o.append(Obl("C11.python.bond_order_after_edit", "xh", "harness.c11_py", "bond_order_after_edit", ["mdtraj.core.trajectory.Trajectory.make_molecules_whole", "Trajectory._bonds_in_assembly_order", "Trajectory.atom_slice", "Topology.add_bond"],
                 "re-image, then add any of 6 bonds in place or atom_slice(inplace=True), then re-image", "the second call walks the current bond graph (no stale bond list)", 600))
    o.append(Obl("C11.python.explicit_sorted_bonds", "xh", "harness.c11_py", "explicit_sorted_bonds", ["mdtraj.core.trajectory.Trajectory.make_molecules_whole", "image_molecules"], "caller-supplied bond lists in valid assembly orders that are not monotone in the first index (catalogue of 4), both entry points",
                 "the routine receives the caller's rows in the caller's order (the kernel needs (placed atom, atom to place) order; re-sorting breaks it)", 200))
    return o


MANIFEST_INFO = {
    "engine": "symnum",
    "technique": "image_molecules.pxi lowered from Cython to Python on every run and executed on z3 reals (integer unknowns for roundf/floorf); z3 decides lattice integrality, compact-image placement and rigid per-molecule wrapping; CrossHair decides the Python layer's bond ordering and inplace/argument plumbing",
    "text": "Source-level claim: one bond step, the wrap stage and their composition move atoms only by integer combinations of the frame's cell vectors (plus one common translation), place bonded pairs at their compact-image separation and molecules as rigid units; the Python layer hands over a bond list that attaches one atom per step, and never touches the original when inplace=False.",
    "note": "PARTIAL: decided on a Python lowering of the Cython source, not on the installed binary; one anchor molecule; catalogue cells; real arithmetic.",
}
