from vtlib.core import Obl

FILES = ["mdtraj/geometry/src/sasa.cpp", "mdtraj/geometry/src/geometry.cpp", "mdtraj/geometry/src/kernels/distancekernels.h", "mdtraj/geometry/src/kernels/anglekernels.h", "mdtraj/geometry/src/kernels/dihedralkernels.h"]
META = {
    "files": FILES,
    "explanation": "The schedule quantifier is discharged through one lemma per kernel: a frame's output is a function of that frame's input only, for every "
                   "possible content of any memory that outlives a frame. E3 llsym runs the real entry points with n_frames = 2, frame 0 CONCRETE (with a "
                   "different unit cell), frame 1 SYMBOLIC, all scratch memory as the code allocates it (malloc'ed memory reads as fresh symbols), and "
                   "proves for frame 1 exactly the single-frame specification of C05/C07/C13 — which mentions neither frame 0 nor scratch contents. "
                   "If that holds it does not matter which thread processed which frame before.",
    "trusted_base": ["clang 14 -O2 IR", "vtlib/llsym.py", "z3"],
    "assumptions": ["threads share no accumulator in source (read-only inspection): the OpenMP/prange loops hand each frame to one thread with private scratch"],
    "out": ["genuine data races between OpenMP threads / Cython prange (no concurrency model of compiled code here)", "_rmsd.pyx, drid.pyx, neighborlist.cpp, dssp.cpp",
            "bit-for-bit float reproducibility", "Python-level per-frame analyses (vectorised numpy over the frame axis)"],
}


def obligations():
    o = [
        Obl("C08.sasa.frame1", "py", "harness.c13", "check_sasa", ["sasa.cpp:sasa (per-thread wb1, wb2, outframebuffer)"], "frame 0 concrete, frame 1 symbolic; 2 atoms, 2 points",
            "frame 1's areas equal the single-frame specification: no carried state (the calloc'ed accumulator is re-zeroed)", 300, params={"n_atoms": 2, "n_points": 2}),
        Obl("C08.sasa.frame1_4pts", "py", "harness.c13", "check_sasa", ["sasa.cpp:sasa"], "same with 4 points", "same", 600, params={"n_atoms": 2, "n_points": 4}),
    ]
    for k, c, c0 in (("dist", "none", ""), ("dist_mic", "ortho_1_2_3", "cubic"), ("dist_mic_triclinic", "triclinic_a", "hexagonal60"), ("dist_mic_triclinic", "monoclinic70", "triclinic_b")):
        o.append(Obl(f"C08.{k}.{c}.frame1", "py", "harness.c05", "check_kernel", [f"geometry.cpp:{k} (xyz += 3n, box += 9)"], f"2-frame call, frame 0 concrete in cell {c0 or 'none'}, frame 1 symbolic in cell {c}",
                     "frame 1's displacement/distance satisfy the single-frame specification with frame 1's own cell", 600, params={"kernel": k, "cell": c, "second_frame": True, "cell0": c0}))
    for k in ("angle_mic_triclinic", "dihedral_mic"):
        o.append(Obl(f"C08.{k}.frames", "py", "harness.c07", "check_kernel", [f"geometry.cpp:{k}"], "2 frames x 2 index rows", "out[frame,row] is computed from that frame's displacements only", 300, params={"kernel": k}))
    o.append(Obl("C08.sasa.groups_frame1", "py", "harness.c13", "check_sasa", ["sasa.cpp:sasa"], "3 atoms in 2 groups (fewer groups than atoms), 1 point; frame 0 concrete, frame 1 symbolic",
                 "residue mode: every per-atom accumulator is reset between frames, not only the first n_groups", 600, params={"n_atoms": 3, "n_points": 1, "mapping": "residue", "max_paths": 20000}))
    o.append(Obl("C08.python.kernel_choice", "xh", "harness.c05_py", "dispatch", ["mdtraj.geometry.distance.compute_distances_core", "compute_displacements", "compute_distances_t"],
                 "3 frames, each orthorhombic or skewed (symbolic)", "a frame's distances must not depend on the cell SHAPE of the other frames in the call: the diagonal-only kernel is used only if every frame is orthorhombic", 300))
    TJ = "mdtraj.core.trajectory.Trajectory."
    o.append(Obl("C08.rmsd_traces.int", "xh", "harness.c03", "index_int", [TJ + "slice", TJ + "__getitem__", "mdtraj._rmsd"], "n<=3 frames, every int key, after center_coordinates()",
                 "md.rmsd(t[k], ref, precentered=True) equals entry k of the full-trajectory result: the cached traces follow the selected frames", 200))
    o.append(Obl("C08.rmsd_traces.list", "xh", "harness.c03", "index_list", [TJ + "slice", "mdtraj._rmsd"], "index lists of length 1..3 (repeats, reordering)", "same for permuted / repeated frames", 600, quick_pre="n >= 2 and i2 == 0", timeout_thorough=2400))
    for sel in ("self", "self_sel"):
        o.append(Obl(f"C08.superpose.{sel}", "py", "harness.c06", "superpose_wrapper", [TJ + "superpose"], "2 frames x 4 atoms superposed onto frame 1 OF THE SAME trajectory object (" + sel + ")",
                     "every frame lands on the reference frame's ORIGINAL position (the private copy of the reference is taken before anything is centred in place): a frame's result does not depend on being aligned together with its reference", 300, params={"sel": sel}))
    o.append(Obl("C08.ks.python_matrix", "xh", "harness.c15_py", "kabsch_sander_matrix", ["mdtraj.geometry.hbond.kabsch_sander (per-frame CSR assembly)"], "4 residues, 2 frames with different donors / acceptors / slot counts (symbolic)",
                 "each frame's energy matrix holds exactly that frame's slots: nothing is shared between the matrices of different frames", 600))
    return o


MANIFEST_INFO = {
    "engine": "llsym",
    "technique": "symbolic interpretation of the kernels' LLVM IR over two frames (first concrete, second symbolic, scratch memory as fresh symbols): the second frame's output must satisfy the single-frame specification",
    "text": "Partial claim: for SASA, distance, angle and dihedral kernels no state outlives a frame (accumulators, scratch buffers, frame and cell pointer advance), hence results cannot depend on neighbouring frames or on which thread processed what before.",
    "note": "Not covered: true inter-thread data races, Cython prange glue, RMSD/DRID/neighbour list/DSSP kernels, bit-exact float reproducibility.",
}
