from vtlib.core import Obl

FILES = ["mdtraj/core/trajectory.py", "mdtraj/utils/zipped.py", "mdtraj/formats/hdf5.py", "mdtraj/formats/netcdf.py", "mdtraj/formats/amberrst.py",
         "mdtraj/formats/mdcrd.py", "mdtraj/formats/xyzfile.py", "mdtraj/formats/lammpstrj.py", "mdtraj/formats/gro.py", "mdtraj/formats/pdb/pdbfile.py", "mdtraj/formats/lh5.py"]

META = {
    "files": FILES,
    "explanation": "Symbolic execution (CrossHair/z3) of the real mode-'w' constructors of every Python file class, of "
                   "utils.zipped.open_maybe_zipped, md.open, every Trajectory.save_* dispatch and the multi-file restart writers, with "
                   "the file system replaced by a recorder. exists / force_overwrite / extension / per-file existence of the numbered "
                   "restart files are symbolic; the assertion is that when the target exists and force_overwrite is False the call raises "
                   "and NO potentially modifying call (open for write, unlink, Dataset(w), tables.open_file(w)) was issued before, that "
                   "otherwise the open is truncating (never append/update) and on the requested path only, and that the flag given to "
                   "save()/md.open reaches the file class unchanged.",
    "trusted_base": ["CrossHair 0.0.110 + z3 5.1.0", "harness/c20.py FS recorder (os.path.exists, open, gzip/bz2, tables.open_file, netCDF4.Dataset, scipy netcdf_file are stubs that log)",
                     "for save_*: file classes replaced by a recorder honouring the per-class contract proved by the ctor_* obligations"],
    "assumptions": ["an open for write / unlink / Dataset(mode w) are the only ways these code paths can modify a file"],
    "out": ["existence checks inside the Cython classes xtc/trr/dcd/dtr (__cinit__); byte-level content of the replaced file (library behaviour)"],
}


def obligations():
    o = []
    for k, cls in (("h5", "hdf5.HDF5TrajectoryFile"), ("nc", "netcdf.NetCDFTrajectoryFile"), ("mdcrd", "mdcrd.MDCRDTrajectoryFile"),
                   ("xyz", "xyzfile.XYZTrajectoryFile"), ("lammpstrj", "lammpstrj.LAMMPSTrajectoryFile"), ("gro", "gro.GroTrajectoryFile"),
                   ("pdb", "pdb.pdbfile.PDBTrajectoryFile"), ("rst7", "amberrst.AmberRestartFile"), ("ncrst", "amberrst.AmberNetCDFRestartFile"),
                   ("lh5", "lh5.LH5TrajectoryFile")):
        o.append(Obl(f"C20.ctor.{k}", "xh", "harness.c20", f"ctor_{k}", [f"mdtraj.formats.{cls}.__init__"] + (["mdtraj.utils.zipped.open_maybe_zipped"] if k in ("xyz", "pdb") else []),
                     "exists, force_overwrite symbolic" + (", plain and .gz names" if k in ("xyz", "pdb") else ""),
                     "mode 'w': exists and not force -> raises before any modifying call; otherwise one truncating open of that path", 30))
    o += [
        Obl("C20.open_maybe_zipped", "xh", "harness.c20", "open_maybe_zipped_w", ["mdtraj.utils.zipped.open_maybe_zipped"], "exists, force symbolic; plain/.gz/.bz2",
            "existence check precedes the (gzip/bz2/plain) open for write", 30),
        Obl("C20.save.passes_flag", "xh", "harness.c20", "save_passes_flag", ["mdtraj.core.trajectory.Trajectory.save", "mdtraj.core.trajectory.Trajectory.save_*"],
            "all 19 extensions of Trajectory.save x force in {F,T} x 1 or 3 frames",
            "save(path, force_overwrite=f) constructs the format's file class with mode 'w' and exactly that flag, on exactly that path (numbered paths for multi-frame restarts)", 240),
        Obl("C20.save.positional_flag", "xh", "harness.c20", "save_positional_flag", ["mdtraj.core.trajectory.Trajectory.save_<fmt> (14 savers)"], "every saver called as save_<fmt>(name, force) with the flag POSITIONAL",
            "the second positional parameter (third for save_hdf5) is force_overwrite and reaches the file class unchanged", 200),
        Obl("C20.save.restart_numbered", "xh", "harness.c20", "save_restart_no_clobber", ["mdtraj.core.trajectory.Trajectory.save_amberrst7", "mdtraj.core.trajectory.Trajectory.save_netcdfrst"],
            "2-3 frames, each numbered file independently existing or not, force_overwrite=False",
            "no numbered restart file that exists is ever opened for writing; raises iff one exists", 120),
        Obl("C20.md_open.passes_flag", "xh", "harness.c20", "md_open_passes_flag", ["mdtraj.core.trajectory.open"], "all registered extensions x force",
            "md.open(path,'w',force_overwrite=f) passes the flag unchanged", 120),
        Obl("C20.save_gsd", "xh", "harness.c20", "save_gsd_check", ["mdtraj.core.trajectory.Trajectory.save_gsd"], "exists, force symbolic",
            "save_gsd's own existence check precedes write_gsd", 30),
        Obl("C20.read_only", "xh", "harness.c20", "read_ctor_readonly", ["mode-'r' constructors of mdcrd/xyz/lammpstrj/h5/nc", "mdtraj.utils.zipped.open_maybe_zipped('r')"], "6 read entry points",
            "opening for reading issues no modifying call", 60),
    ]
    return o


MANIFEST_INFO = {
    "engine": "xh",
    "technique": "symbolic execution of the real constructors / save dispatch (CrossHair + z3) against a recording file system",
    "text": "Every combination of (target exists, force_overwrite, extension, which numbered restart files exist) is decided by the solver over all paths of the real Python constructors and save functions; the check is on the ORDER of effects (no modifying call before the refusal).",
    "note": "Trusted: CrossHair/z3, the recording stubs. Not covered: Cython constructors of xtc/trr/dcd/dtr, what the I/O libraries do with a truncating open.",
}
