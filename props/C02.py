from vtlib.core import Obl

FILES = ["mdtraj/core/trajectory.py", "mdtraj/formats/hdf5.py", "mdtraj/formats/netcdf.py", "mdtraj/formats/mdcrd.py",
         "mdtraj/formats/xyzfile.py", "mdtraj/formats/lammpstrj.py", "mdtraj/formats/arc.py", "mdtraj/core/topology.py"]

META = {
    "files": FILES,
    "explanation": "Bounded symbolic execution (CrossHair/z3) of the real read/read_as_traj methods, the real iterload generator "
                   "and the real load_<fmt> functions on in-memory files whose frames carry their own index, against "
                   "list(range(total))[skip::stride] and the requested atom subset. The strided chunk read is stated as an "
                   "inductive step (the frames still to come after a chunk are exactly the rest of the strided sequence), so "
                   "the chunk loop is covered for any number of chunks; iterload itself is additionally run end to end "
                   "for total<=5, chunk<=6, stride<=3, every skip.",
    "trusted_base": ["CrossHair 0.0.110 + z3 5.1.0", "vtlib/fakes.py ArrNode (numpy indexing of a real array stands for pytables/netCDF variables)",
                     "harness/textfmt.py in-memory text files (io.StringIO/BytesIO)", "stub: np.inf -> 2**62", "HDF5 stored-topology decoding replaced by a constant topology (C04 covers it)"],
    "assumptions": ["trajectory.open / the file-class constructors are replaced by factories that return the same real class over an in-memory file"],
    "out": ["xtc/trr/dcd/dtr readers (Cython)", "gsd", "files larger than the bounds", "pdb: iterload branch only (PDB parsing is concrete I/O)"],
}

ENC = {
    "h5": ["mdtraj.formats.hdf5.HDF5TrajectoryFile.read", "mdtraj.formats.hdf5.HDF5TrajectoryFile.read_as_traj", "mdtraj.formats.hdf5.load_hdf5"],
    "nc": ["mdtraj.formats.netcdf.NetCDFTrajectoryFile.read", "mdtraj.formats.netcdf.NetCDFTrajectoryFile.read_as_traj", "mdtraj.formats.netcdf.load_netcdf"],
    "mdcrd": ["mdtraj.formats.mdcrd.MDCRDTrajectoryFile.read", "mdtraj.formats.mdcrd.MDCRDTrajectoryFile.read_as_traj", "mdtraj.formats.mdcrd.load_mdcrd"],
    "xyz": ["mdtraj.formats.xyzfile.XYZTrajectoryFile.read", "mdtraj.formats.xyzfile.XYZTrajectoryFile.read_as_traj", "mdtraj.formats.xyzfile.load_xyz"],
    "lammpstrj": ["mdtraj.formats.lammpstrj.LAMMPSTrajectoryFile.read", "mdtraj.formats.lammpstrj.LAMMPSTrajectoryFile.read_as_traj", "mdtraj.formats.lammpstrj.load_lammpstrj"],
    "gro": ["mdtraj.formats.gro.GroTrajectoryFile.read", "mdtraj.formats.gro.GroTrajectoryFile.read_as_traj", "mdtraj.formats.gro.load_gro"],
    "arc": ["mdtraj.formats.arc.ArcTrajectoryFile.read", "mdtraj.formats.arc.ArcTrajectoryFile.read_as_traj", "mdtraj.formats.arc.load_arc"],
}


def obligations():
    o = []
    for fmt in ("h5", "nc", "mdcrd", "xyz", "lammpstrj", "arc"):
        e = ENC[fmt]
        o += [
            Obl(f"C02.{fmt}.read_stride_step", "xh", "harness.c02", f"{fmt}_read_stride_step", e[:1], "total<=6, 0<=pos<=total, n<=4, stride<=4",
                "read(n, stride) from any position returns the next n strided frames and leaves the cursor so that the frames still to come are "
                "exactly the rest of the strided sequence (inductive step of chunked iteration; includes n*stride not dividing anything)", 150,
                quick_pre="total <= 4 and n <= 3 and stride <= 3", timeout_thorough=1200),
            Obl(f"C02.{fmt}.read_all_stride", "xh", "harness.c02", f"{fmt}_read_all_stride", e[:1], "total<=6, stride<=4", "read(stride=s) == ids[pos::s]", 120,
                quick_pre="total <= 5 and stride <= 3", timeout_thorough=600),
            Obl(f"C02.{fmt}.load_stride_atoms", "xh", "harness.c02", f"{fmt}_load_stride", e, "total<=6, stride<=4, every non-empty atom subset",
                "load_<fmt>(stride=, atom_indices=) == full[::stride] restricted to the atoms (coordinates, time, topology)", 150,
                quick_pre="total <= 3 and stride <= 2", timeout_thorough=1800),
        ]
        if fmt != "arc":
            o += [
                Obl(f"C02.{fmt}.iterload", "xh", "harness.c02", f"{fmt}_iterload", e[:2] + ["mdtraj.core.trajectory.iterload"], "total<=5, chunk<=6, stride<=3, 0<=skip<=total",
                    "chunks concatenate to full[skip::stride]; all but the last have exactly `chunk` frames; time and cell follow", 200,
                    quick_pre="total <= 4 and chunk <= 3 and stride <= 2", timeout_thorough=2400),
                Obl(f"C02.{fmt}.iterload_atoms", "xh", "harness.c02", f"{fmt}_iterload_atoms", e[:2] + ["mdtraj.core.trajectory.iterload", "mdtraj.core.topology.Topology.subset"],
                    "total<=3, chunk<=3, stride<=2, every non-empty atom subset", "chunks carry exactly the requested atoms in coordinates and topology", 150,
                    quick_pre="total <= 2 and chunk <= 2 and not b2", timeout_thorough=2400),
            ]
        o.append(Obl(f"C02.{fmt}.load_frame", "xh", "harness.c02", f"{fmt}_load_frame", e, "total<=5, every frame, every non-empty atom subset",
                     "load_<fmt>(frame=i, atom_indices=) is frame i restricted to the atoms", 150,
                     quick_pre="total <= 3", timeout_thorough=1200))
    e = ENC["gro"]
    o += [
        Obl("C02.gro.read_stride_step", "xh", "harness.c02", "gro_read_stride_step", e[:1], "total<=6, 0<=pos<=total, n<=4, stride<=4",
            "read(n, stride) returns the next n strided frames and what is read afterwards is exactly the rest of the strided sequence (the class keeps no frame counter: the cursor is observed through the next read)", 150,
            quick_pre="total <= 4 and n <= 3 and stride <= 3", timeout_thorough=1200),
        Obl("C02.gro.read_all_stride", "xh", "harness.c02", "gro_read_all_stride", e[:1], "total<=6, stride<=4", "read(stride=s) == ids[pos::s]", 120, quick_pre="total <= 5 and stride <= 3", timeout_thorough=600),
        Obl("C02.gro.load_stride_atoms", "xh", "harness.c02", "gro_load_stride", e, "total<=6, stride<=4, every non-empty atom subset", "load_gro(stride=, atom_indices=) == full[::stride] restricted to the atoms (coordinates, time, topology)", 150,
            quick_pre="total <= 3 and stride <= 2", timeout_thorough=1800),
        Obl("C02.gro.iterload", "xh", "harness.c02", "gro_iterload", e[:2] + ["mdtraj.core.trajectory.iterload"], "total<=5, chunk<=6, stride<=3, skip=0 (skip>0 is refused: no seek)",
            "chunks concatenate to full[::stride]; all but the last have exactly `chunk` frames; time and cell follow", 200, quick_pre="total <= 4 and chunk <= 3 and stride <= 2", timeout_thorough=2400),
        Obl("C02.gro.iterload_atoms", "xh", "harness.c02", "gro_iterload_atoms", e[:2] + ["mdtraj.core.trajectory.iterload"], "total<=3, chunk<=3, stride<=2, every non-empty atom subset", "chunks carry exactly the requested atoms", 150,
            quick_pre="total <= 2 and chunk <= 2 and not b2", timeout_thorough=2400),
    ]
    o += [
        Obl("C02.pdb.load_frame", "xh", "harness.c02", "pdb_load_frame", ["mdtraj.formats.pdb.pdbfile.load_pdb"], "total<=5 models, every frame index in [-total, total), stride None or 1..3 (documented: ignored), with / without every non-empty atom subset",
            "load_pdb(frame=i, atom_indices=) is frame i of the full load restricted to the atoms: coordinates, time stamp, cell, topology (PDBTrajectoryFile stubbed by its parsed content)", 300, quick_pre="total <= 4 and stride <= 2 and (not use_atoms or (b0 and not b2))"),
        Obl("C02.pdb.load_stride", "xh", "harness.c02", "pdb_load_stride", ["mdtraj.formats.pdb.pdbfile.load_pdb"], "total<=6, stride None or 1..4, with / without atom subsets",
            "load_pdb(stride=s, atom_indices=) == full[::s] restricted to the atoms, times included", 200),
    ]
    o += [
        Obl("C02.iterload.chunk0", "xh", "harness.c02", "iterload_chunk0", ["mdtraj.core.trajectory.iterload"], "total<=6, stride<=3, every skip, every atom subset of 3 or none",
            "iterload(chunk=0) yields full[skip::stride] with the requested atoms (md.load stubbed by its contract)", 120, quick_pre="total <= 4"),
        Obl("C02.iterload.pdb", "xh", "harness.c02", "iterload_pdb", ["mdtraj.core.trajectory.iterload"], "total<=6, chunk<=4, stride<=3, every skip",
            "the PDB branch of iterload yields chunks of full[skip::stride] (md.load stubbed by its contract)", 150, quick_pre="total <= 4 and chunk <= 3 and stride <= 2"),
    ]
    return o


MANIFEST_INFO = {
    "engine": "xh",
    "technique": "bounded symbolic execution of the real Python readers, iterload and load_<fmt> (CrossHair + z3) over in-memory files; strided chunk read as an inductive step",
    "text": "Within total<=6 frames, stride<=4, chunk<=6, all skips and all atom subsets of 3-4 atoms, the solver explores every path of the real reader code and compares frames, atoms, time and cell with Python slicing of the full load.",
    "note": "Trusted: CrossHair/z3, in-memory back ends. Not covered: Cython readers (xtc/trr/dcd/dtr), gsd, PDB record parsing (load_pdb's frame/stride/atom selection IS covered), multi-file load() (see C03 join), sizes beyond the bounds.",
}
