from vtlib.core import Obl
from harness.c12 import MALFORMED

FILES = ["mdtraj/core/selection.py", "mdtraj/core/topology.py", "mdtraj/core/residue_names.py", "docs/atom_selection.rst"]
META = {
    "files": FILES,
    "explanation": "E4 selz3: for every generated expression the real pyparsing grammar and token classes produce mdtraj's Python AST; the AST is "
                   "translated node by node into a z3 predicate over ONE SYMBOLIC ATOM (name/resname/segment id/element symbol as z3 strings, "
                   "index/resSeq/resid/chainid/n_bonds as ints, mass tied to the symbol through the real element table; derived attributes "
                   "is_protein/is_water/is_backbone/is_sidechain/code are translated from the SOURCE of the real property methods). An "
                   "independent recursive-descent reading of docs/atom_selection.rst gives the reference predicate; z3 decides equivalence "
                   "over all atoms of all valid topologies (strings + LIA + regex). Programs: every keyword and alias, every operator "
                   "spelling, implicit equality, lists, ranges, regexes, parentheses, bare/quoted/numeric literals; boolean nesting depth <=2 "
                   "over representative leaves exhaustively (1600 strings), depth 3 drawn with VERIF_SEED in the thorough tier.",
    "trusted_base": ["z3 5.1.0 sequence/regex theory", "vtlib/selz3.py: AST->z3 translator (Python value semantics of and/or/==/chained comparisons) and the reference parser written from the documentation",
                     "witness atoms are replayed through Topology.select on a real topology built around them"],
    "assumptions": ["well-typed expressions (text fields with text literals under ==/!=, numeric fields with numbers); n_bonds is an uninterpreted attribute in [0,3]",
                    "atom names/residue names up to 4 characters, index <= 8"],
    "out": ["regular expressions outside the translated subset (anchors, escapes, negated classes, counted repeats)", "expressions deeper than the bound",
            "ordering comparisons on text fields", "Topology.select's index ordering (it is a list comprehension over topology.atoms; checked structurally through select_expression)"],
}


def obligations():
    H = "harness.c12"
    enc = ["mdtraj.core.selection.parse_selection", "mdtraj.core.selection.BinaryInfixOperand/UnaryInfixOperand/RangeCondition/InListCondition/RegexInfixOperand/SelectionKeyword/Literal/_RewriteNames",
           "mdtraj.core.topology.Atom.is_backbone/is_sidechain/segment_id", "mdtraj.core.topology.Residue.is_protein/is_water/code"]
    o = []
    for fam, n in (("literals_special", 1), ("parens_deep", 1), ("keywords", 1), ("implicit_eq", 1), ("lists", 1), ("ranges", 1), ("cmp_ops", 1), ("regex", 1), ("bool_depth1", 4), ("bool_depth2", 8)):
        for c in range(n):
            o.append(Obl(f"C12.{fam}" + (f".{c}" if n > 1 else ""), "py", H, "check_family", enc, f"family {fam}" + (f", slice {c}/{n}" if n > 1 else "") + "; one symbolic atom",
                         "mdtraj's AST is equivalent to the documented meaning for every atom; every documented expression parses", 600, params={"family": fam, "chunk": c, "nchunks": n}))
    o.append(Obl("C12.bool_depth3_seeded", "py", H, "check_family", enc, "200 random depth-3 expressions drawn with VERIF_SEED", "same, deeper nesting", 900,
                 params={"family": "deeper", "extra_seed": -2, "n_extra": 200}, tiers=("thorough",)))
    o.append(Obl("C12.select_expression", "py", H, "check_select_expression", ["mdtraj.core.topology.Topology.select_expression", "mdtraj.core.selection.parse_selection"], "~260 expressions of all families",
                 "the returned Python source is `[atom.index for atom in topology.atoms if <p>]` with <p> equivalent to the parsed AST (hence increasing index order)", 300))
    for i, e in enumerate(MALFORMED):
        o.append(Obl(f"C12.malformed.{i}", "py", H, "check_malformed", ["mdtraj.core.selection.parse_selection"], f"string {e!r}", "a malformed expression is rejected with an error", 60, params={"only": i}, twin=True))
    o.append(Obl("C12.n_bonds_after_edit", "xh", "harness.c12_py", "n_bonds_after_edit", ["mdtraj.core.topology.Atom.n_bonds", "Topology.select", "Topology.insert_atom", "Topology.delete_atom_by_index", "Topology.add_bond"],
                 "7-atom topology; selection evaluated before the edit or not; insert at index 0..7 / delete+insert / add_bond / none; threshold 0..3; ==, >=, <",
                 "the bond-count keyword denotes the current bond graph (by atom identity) after any edit", 400))
    return o


MANIFEST_INFO = {
    "engine": "selz3",
    "technique": "selection AST -> z3 predicate over a symbolic atom (strings, ints, regex), equivalence with a reference semantics decided by z3; witness atoms replayed through Topology.select",
    "text": "Programs are enumerated from the documented grammar up to boolean depth 2 (random depth 3 in thorough); for each program the inputs dimension (every atom of every topology) is decided by the solver, so an operator-precedence, alias or comparison error shows up as a concrete witness atom.",
    "note": "Trusted: z3 string/regex theory, the translator and the reference parser. Well-typed expressions only; regex subset; bounded string lengths.",
}
