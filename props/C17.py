from vtlib.core import Obl

FILES = ["mdtraj/utils/unitcell.py", "mdtraj/core/trajectory.py", "mdtraj/utils/validation.py"]
U, TJ = "mdtraj.utils.unitcell.", "mdtraj.core.trajectory.Trajectory."
META = {
    "files": FILES,
    "explanation": "E2 symnum: the real lengths_and_angles_to_box_vectors / box_vectors_to_lengths_and_angles / Trajectory.unitcell_vectors "
                   "getter+setter / unitcell_volumes run UNMODIFIED on z3 reals through a numpy facade (object arrays of symbolic scalars); "
                   "cos/sin/acos/sqrt of a term are named reals with their defining axioms (cos^2+sin^2=1, s>=0 & s^2=x). The negation of each "
                   "identity is given to z3 (QF_NRA), with cvc5 as a second solver when z3 answers unknown, and small algebraic lemmas "
                   "(radicand*sin^2(gamma) = c^2*Gram, det = a*b*sin(gamma)*c_z) are themselves proved first and then used. Symbolic: "
                   "lengths in [0.1,100] nm, angles in [20,160] degrees (through their cosines/sines), Gram determinant >= 0.01; rotations "
                   "from a catalogue of 6 exact rational matrices; 2 frames for per-frame claims.",
    "trusted_base": ["z3 5.1.0 (nlsat), cvc5 1.0.3 binary as fallback", "vtlib/symnum.py facade", "floats modelled as reals",
                     "trig axioms: cos^2+sin^2=1, sin t >= sin 20deg and |cos t| <= cos 20deg on [20,160] deg, acos(cos t)=t on [0,pi]",
                     "the |x|<1e-6 -> 0 clean-up is treated as a separate step: identities hold for the values before it and every clean-up is proved to move its component by <= 1e-6"],
    "assumptions": ["physically valid cells only (positive Gram determinant bounded away from 0); angles within [20,160] degrees"],
    "out": ["float32 rounding", "near-degenerate cells (Gram < 0.01), angles outside [20,160] degrees", "rotations outside the catalogue", "save/load of cells (C01)"],
}


def obligations():
    H = "harness.c17"
    o = [
        Obl("C17.forward", "py", H, "forward", [U + "lengths_and_angles_to_box_vectors"], "symbolic lengths/angles (see explanation)",
            "|a|,|b|,|c| are the lengths; b.c=|b||c|cos(alpha), c.a=..cos(beta), a.b=..cos(gamma) (each angle with ITS pair); a along x, b in the xy-plane, c_z>0; sqrt argument>=0 and divisor!=0 follow from validity", 400),
        Obl("C17.forward.needle_5_5_5", "py", H, "forward_concrete", [U + "lengths_and_angles_to_box_vectors"], "angles 5/5/5 degrees (all below 2 pi: the 'radians?' warning branch), symbolic lengths", "same identities", 120, params={"alpha": 5.0, "beta": 5.0, "gamma": 5.0}),
        Obl("C17.forward.needle_6_5_4", "py", H, "forward_concrete", [U + "lengths_and_angles_to_box_vectors"], "angles 6/5/4 degrees, symbolic lengths", "same identities", 120, params={"alpha": 6.0, "beta": 5.0, "gamma": 4.0}),
        Obl("C17.forward.concrete_80_100_70", "py", H, "forward_concrete", [U + "lengths_and_angles_to_box_vectors"], "angles 80/100/70, symbolic lengths", "same identities", 120, params={"alpha": 80.0, "beta": 100.0, "gamma": 70.0}),
        Obl("C17.volume", "py", H, "volume", [TJ + "unitcell_volumes", TJ + "unitcell_vectors (getter)", U + "lengths_and_angles_to_box_vectors"], "2 frames with independent cells",
            "per frame: volume^2 = (abc)^2 * Gram, volume > 0, row k of unitcell_vectors has length k", 400),
        Obl("C17.zero_vectors", "py", H, "zero_vectors_mean_no_cell", [TJ + "unitcell_vectors (setter)"], "arbitrary 3x3 symbolic vectors",
            "lengths and angles are both set or both None; None iff all entries are (numerically) zero; None clears", 120),
    ]
    TJ2 = "mdtraj.core.trajectory.Trajectory."
    o += [
        Obl("C17.ops.cell_presence", "xh", "harness.c03", "cell_presence_ops", [TJ2 + "slice", TJ2 + "join", TJ2 + "atom_slice", TJ2 + "stack", TJ2 + "_have_unitcell", TJ2 + "unitcell_volumes"],
            "n<=3 frames; op in {t[a:], t[::-1], join, atom_slice, stack}; with/without cell", "the result has a complete per-frame cell exactly when the input had one; volumes and vectors then have one entry per frame", 300),
        Obl("C17.ops.stack_cells", "xh", "harness.c03", "stack_cell_presence", [TJ2 + "stack"], "left/right operand with/without cell (4 combinations), n<=3",
            "stack never produces half a cell: lengths AND angles are the left operand's, or both absent", 120),
        Obl("C17.ops.stack_values", "xh", "harness.c03", "stack_two", [TJ2 + "stack"], "operands with DIFFERENT cells", "lengths and angles of the stacked trajectory both come from the same (left) operand", 300),
        Obl("C17.ops.join_values", "xh", "harness.c03", "join_two", [TJ2 + "join"], "operands with different cells", "joined cells are the concatenation, lengths and angles alike", 400),
    ]
    for r in range(6):
        o.append(Obl(f"C17.roundtrip.rot{r}", "py", H, "roundtrip", [TJ + "unitcell_vectors (setter)", U + "box_vectors_to_lengths_and_angles", U + "lengths_and_angles_to_box_vectors", TJ + "unitcell_lengths", TJ + "unitcell_angles"],
                     f"rotation #{r} of the catalogue applied to the standard description of a symbolic cell",
                     "reading back gives exactly the cell's lengths and, for each angle, (180/pi)*acos(x) with x equal to the cosine of the original angle of the right pair",
                     500, params={"rot": r}, tiers=("quick", "thorough") if r in (0, 2, 4) else ("thorough",)))
    return o


MANIFEST_INFO = {
    "engine": "symnum",
    "technique": "symbolic execution of the real numpy code on z3 reals (numpy facade), identities discharged by z3/cvc5 in QF_NRA with solver-proved lemmas",
    "text": "The cell conversions and Trajectory cell accessors are proved equal to the textbook identities for all valid cells in the stated ranges (exact real arithmetic), including which angle belongs to which vector pair and the standard orientation; counterexamples are replayed in floating point before being reported.",
    "note": "Real-arithmetic model of floats; catalogue of rotations; cells bounded away from degeneracy. None-ness bookkeeping under slicing/joining is covered in C03.",
}
