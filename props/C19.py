from vtlib.core import Obl

FILES = ["mdtraj/formats/hdf5.py", "mdtraj/formats/netcdf.py", "mdtraj/formats/mdcrd.py", "mdtraj/formats/xyzfile.py", "mdtraj/formats/lammpstrj.py"]

META = {
    "files": FILES,
    "explanation": "Symbolic execution (CrossHair/z3) of the real write() methods on recording back ends. ONE write call from an ARBITRARY "
                   "valid writer state (k<=3 frames already stored, with/without time, with/without cell, mode w or a): a call that is "
                   "consistent with the stored fields appends exactly its frames to every stored array and advances the position; an "
                   "inconsistent one (time or cell added/dropped, one of lengths/angles missing, different atom count) raises and leaves "
                   "EVERY stored array at its previous length and the position unchanged (atomic refusal). Because the post-state is "
                   "again a valid state the step covers every partition of a trajectory into write calls; text writers are additionally "
                   "compared byte-for-byte between every 3-piece partition of n<=4 frames and the one-shot write.",
    "trusted_base": ["CrossHair 0.0.110 + z3 5.1.0", "harness/c19.py WH5/WNode (pytables EArray.append shape check), WNC/WVar (netCDF record variables share the unlimited dimension)"],
    "assumptions": ["pytables EArray.append and netCDF variable assignment raise on a trailing-shape mismatch before storing anything"],
    "out": ["durability after flush when the process is killed (libhdf5/libnetcdf/OS page cache behind FFI: no encoding within this technique)",
            "xtc/trr/dcd/dtr writers (Cython)", "gro/pdb multi-model writers (topology-dependent text; covered only through C01 field encoders)", "reporters (need OpenMM)"],
}


def obligations():
    h5 = ["mdtraj.formats.hdf5.HDF5TrajectoryFile.write", "mdtraj.formats.hdf5.HDF5TrajectoryFile._initialize_headers"]
    nc = ["mdtraj.formats.netcdf.NetCDFTrajectoryFile.write", "mdtraj.formats.netcdf.NetCDFTrajectoryFile._initialize_headers"]
    return [
        Obl("C19.h5.write_step", "xh", "harness.c19", "h5_write_step", h5, "k<=3 stored frames, m<=3 new, all 2^7 field/mode combinations",
            "one write from any valid state: append exactly, or refuse atomically", 240, quick_pre="k <= 2 and m <= 2", timeout_thorough=1500),
        Obl("C19.h5.refuse_then_continue", "xh", "harness.c19", "h5_refuse_then_continue", h5, "k<=2, m<=2, every inconsistent field combination",
            "after a refused ragged write a consistent write still works and all arrays have equal length", 120),
        Obl("C19.nc.write_step", "xh", "harness.c19", "nc_write_step", nc, "k<=3 stored frames, m<=3 new, all 2^6 field combinations",
            "one write from any valid state: append exactly, or refuse atomically (the unlimited dimension must not grow)", 240, quick_pre="k <= 2 and m <= 2", timeout_thorough=1500),
        Obl("C19.mdcrd.partition", "xh", "harness.c19", "mdcrd_partition", ["mdtraj.formats.mdcrd.MDCRDTrajectoryFile.write"], "n<=4 frames, every split 0<=a<=b<=n, with/without box",
            "three successive writes produce byte-identical output to one write", 180),
        Obl("C19.xyz.partition", "xh", "harness.c19", "xyz_partition", ["mdtraj.formats.xyzfile.XYZTrajectoryFile.write"], "n<=4, every split", "same, xyz", 180),
        Obl("C19.pdb.refusal_atomic", "xh", "harness.c19", "pdb_refusal_atomic", ["mdtraj.formats.pdb.pdbfile.PDBTrajectoryFile.write"], "k<=2 models already written; refusal for wrong atom count / NaN / infinity / b-factor range; with / without cell",
            "a refused write leaves the text unchanged and the file continues as if it had not happened (no stray MODEL record)", 300),
        Obl("C19.gro_pdb.partition", "xh", "harness.c19", "gro_pdb_partition", ["mdtraj.formats.gro.GroTrajectoryFile.write", "mdtraj.formats.pdb.pdbfile.PDBTrajectoryFile.write"], "n<=4 frames, every split, with/without cell; gro and pdb",
            "text written in pieces is byte-identical to the one-shot text; one title / MODEL per frame, one CRYST1", 300),
        Obl("C19.lammpstrj.partition", "xh", "harness.c19", "lammpstrj_partition", ["mdtraj.formats.lammpstrj.LAMMPSTrajectoryFile.write", "mdtraj.formats.lammpstrj.LAMMPSTrajectoryFile.write_box"],
            "n<=4, every split", "same modulo the per-call TIMESTEP counter, lammpstrj", 180),
        Obl("C19.mdcrd.ragged_box", "xh", "harness.c19", "mdcrd_ragged_box", ["mdtraj.formats.mdcrd.MDCRDTrajectoryFile.write"], "k<=2, m<=2", "adding/dropping box lines is refused and nothing is written", 60),
    ]


MANIFEST_INFO = {
    "engine": "xh",
    "technique": "symbolic execution of the real write() methods (CrossHair + z3), one write from an arbitrary valid writer state, recording back ends",
    "text": "Partition equivalence and atomic ragged refusal for the Python streaming writers (HDF5 w/a, NetCDF, mdcrd, xyz, lammpstrj), decided over all paths within k,m<=3. The crash-durability clause is NOT claimed.",
    "note": "Partial claim. Trusted: CrossHair/z3, recording back ends modelling pytables/netCDF append semantics. Not covered: crash durability (FFI/OS), Cython writers, gro/pdb model writers.",
}
