from vtlib.core import Obl

FILES = ["mdtraj/core/trajectory.py", "mdtraj/core/topology.py", "mdtraj/rmsd/_rmsd.pyx"]
TJ = "mdtraj.core.trajectory.Trajectory."
META = {
    "files": FILES,
    "explanation": "CrossHair/z3 over the real Trajectory methods: ONE operation from an ARBITRARY valid state (n<=3 frames x 3 atoms; with/without "
                   "unit cell; plain, or centred with the trace cache filled by the real kernel) with symbolic keys, sizes and flags. The result "
                   "is compared with numpy's own indexing/concatenation of the source arrays, the representation invariant (all per-frame "
                   "fields n_frames long, cell complete or absent, cached traces None or equal to sum|xyz|^2 of centred coordinates) must hold "
                   "for every result, memory sharing is checked with np.shares_memory / object identity, the source must be unchanged unless "
                   "the operation is documented in-place, and on centred results md.rmsd(precentered=True) is compared with "
                   "md.rmsd(precentered=False) through the real compiled kernel. The invariant is inductive, so the single step covers "
                   "operation sequences of any length.",
    "trusted_base": ["CrossHair 0.0.110 + z3 5.1.0", "numpy indexing/concatenation as the oracle for field movement", "the installed _rmsd extension (centring kernel, rmsd) is executed concretely"],
    "assumptions": ["coordinates are concrete (field movement does not depend on their values); keys, sizes, flags and which-atoms are symbolic",
                    "md.rmsd centres its input in place (documented), so the observer works on clones"],
    "out": ["smooth(), openmm conversions, image_molecules (C11)", "trajectories larger than 3 frames x 3 atoms (per-frame/per-atom loops are uniform)"],
}


def obligations():
    H = "harness.c03"
    sl = [TJ + "slice", TJ + "__getitem__", TJ + "__init__"]
    return [
        Obl("C03.index.int", "xh", H, "index_int", sl, "n<=3, every int key in [-n, n), copy in {T,F}, cell/centred flags", "t[i] / slice(i, copy) == numpy indexing on all fields; Inv; no sharing when copy", 200),
        Obl("C03.index.slice", "xh", H, "index_slice", sl, "n<=3, slice(a,b,c) with a,b in [-4,4], c in [-3,3]\\{0}", "incl. reversed and empty slices", 900, quick_pre="n == 3 and -3 <= a <= 3 and -3 <= b <= 3 and -2 <= c <= 2 and copy", timeout_thorough=2400),
        Obl("C03.index.slice_open", "xh", H, "index_slice_open", sl, "t[a:], t[:a], t[::-1], t[:]", "open-ended slices", 200),
        Obl("C03.index.list", "xh", H, "index_list", sl, "index lists/arrays of length 1..3 with entries in [-n, n) (repeats allowed)", "fancy indexing", 600, quick_pre="n >= 2 and i2 == 0", timeout_thorough=2400),
        Obl("C03.index.key_types", "xh", H, "index_key_types", sl, "numpy integer scalars (int64, intp, int32) and a Python LIST of bools as keys; slice(copy=True) and t[key]", "same as numpy indexing; an extracted frame shares no memory with its source", 300),
        Obl("C03.index.mask", "xh", H, "index_mask", sl, "every boolean mask", "boolean mask indexing", 200),
        Obl("C03.join.two", "xh", H, "join_two", [TJ + "join", TJ + "__add__"], "n1<=3, n2<=2, all flag combinations", "join == concatenation of every field; operands unchanged; nothing shared", 400),
        Obl("C03.join.three", "xh", H, "join_three_plus", [TJ + "join", "mdtraj.core.trajectory.join"], "three operands of 1..2 frames, md.join(list) or a+b+c", "same", 400),
        Obl("C03.join.mixed_cell", "xh", H, "join_mixed_cell_refused", [TJ + "join"], "one operand with, one without cell", "refused with ValueError", 60),
        Obl("C03.join.discard_overlap", "xh", H, "join_discard_overlap", [TJ + "join"], "with/without an overlapping boundary frame", "discard_overlapping_frames drops exactly the duplicated frame from every field", 200),
        Obl("C03.join.md_join_boundary", "xh", H, "md_join_coinciding_boundary", ["mdtraj.core.trajectory.join"], "two pieces whose boundary frames coincide; md.join with default / explicit flags, list or iterator",
            "all frames kept unless discard_overlapping_frames=True is requested", 200),
        Obl("C03.recenter_after_edit", "xh", H, "recenter_after_inplace_edit", [TJ + "center_coordinates"], "n<=3; centre, in-place coordinate edit, centre again", "no stale trace cache after the documented remedy", 300),
        Obl("C03.stack", "xh", H, "stack_two", [TJ + "stack"], "n<=3, flags", "stack == hstack of coordinates, other fields from self; coordinates not shared", 300),
        Obl("C03.atom_slice", "xh", H, "atom_slice_op", [TJ + "atom_slice"], "every non-empty atom subset, inplace in {F,T}", "xyz[:, idx] and topology subset; inplace resets the trace cache; not-inplace shares nothing", 400),
        Obl("C03.remove_solvent", "xh", H, "remove_solvent_op", [TJ + "remove_solvent", TJ + "atom_slice"], "inplace in {F,T}", "same through remove_solvent", 200),
        Obl("C03.modifiers", "xh", H, "modifiers", [TJ + "center_coordinates", TJ + "superpose", TJ + "xyz (setter)", TJ + "time (setter)", TJ + "unitcell_lengths/angles (setters)"],
            "7 in-place modifiers from every state", "every in-place modifier re-establishes the invariant (cache reset or recomputed)", 300),
        Obl("C03.analysis_pure", "xh", H, "analysis_leaves_input", ["md.compute_displacements", "md.compute_distances", "md.compute_rg", "md.compute_angles", "md.compute_center_of_mass", "md.compute_neighbors"],
            "6 analysis calls from every state", "analysis functions leave every field of their input bit-identical", 300),
    ]


MANIFEST_INFO = {
    "engine": "xh",
    "technique": "symbolic execution of the real Trajectory methods (CrossHair + z3): one operation from an arbitrary valid state, inductive representation invariant for the hidden RMSD-trace cache, real kernel as observer",
    "text": "All keys (ints, slices incl. negative steps, index lists, masks), operand sizes and flags within n<=3 frames are explored by the solver; field movement is compared with numpy itself and the cache invariant is inductive, so arbitrary operation sequences are covered.",
    "note": "Coordinates are concrete, keys/sizes/flags symbolic. Trusted: CrossHair/z3, numpy as oracle, the installed _rmsd extension. Not covered: smooth(), openmm conversions, save functions (C01/C20), and the input-unchanged clause for the compiled md.rmsd / md.rmsf wrappers (Cython, cannot be rebuilt; they centre float32 inputs in place when atom_indices is None — recorded in DESIGN.md under 'Observed outside the reach').",
}
