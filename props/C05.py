from vtlib.core import Obl
from harness.c05 import CELLS, ORTHO

FILES = ["mdtraj/geometry/src/geometry.cpp", "mdtraj/geometry/src/kernels/distancekernels.h", "mdtraj/geometry/include/vectorize_generic.h", "mdtraj/geometry/distance.py"]
META = {
    "files": FILES,
    "explanation": "E3 llsym: clang 14 -O2 (scalar fvec4, no vectorisation/unrolling) compiles the real geometry.cpp to LLVM IR on every run; the IR of each "
                   "distance kernel is interpreted with CONCRETE integers/pointers/cell and SYMBOLIC coordinates (polynomials over named reals; round() "
                   "introduces integer unknowns k with |x-k|<=1/2; the 27-image search becomes a guarded polynomial with one leaf per candidate). "
                   "Per leaf: the lattice-shift clause is decided exactly on the polynomial (integer coefficients of integer unknowns w.r.t. the INPUT "
                   "cell vectors), distance^2 == v.v is an exact polynomial identity, and minimality against every lattice vector with coefficients in "
                   "[-2,2]^3 (thorough: [-3,3]^3) is one z3 query in QF_LIRA after naming each non-linear monomial as a fresh real (sound "
                   "over-approximation); for skewed cells the premise 'some image is shorter than half the smallest cell width' enters through linear "
                   "cutting planes on the hypothetical shorter image, refined lazily. Coordinates range over +-50 cell lengths.",
    "trusted_base": ["clang 14 front end + -O2 pipeline", "vtlib/llsym.py interpreter", "z3 5.1.0", "floats as reals; ties of round() excluded by a 1e-6 margin",
                     "scalar vectorize_generic.h stands for the SSE/NEON fvec4 (same lane-wise real functions)"],
    "assumptions": ["cells come from a catalogue of %d concrete cells (exact rationals): cubic, orthorhombic up to ratio 6, monoclinic 70/110, hexagonal 60/120, truncated octahedron, rhombic-dodecahedron-like, three general triclinic, three unreduced descriptions" % len(CELLS),
                    "images beyond +-M cells of the reported one are excluded by the bound (norm argument: they are longer than (M-1) cell widths)"],
    "out": ["symbolic cells (cell x coordinate products are non-linear with integers)", "float32 cancellation for atoms hundreds of cells apart", "the Cython glue _geometry.pyx", "find_closest_contact"],
}


def obligations():
    H = "harness.c05"
    o = [Obl("C05.dist.nocell", "py", H, "check_kernel", ["geometry.cpp:dist"], "symbolic coordinates", "non-periodic: displacement is x2-x1 and distance its norm", 120, params={"kernel": "dist", "cell": "none"}),
         Obl("C05.dist_t.nocell", "py", H, "check_kernel", ["geometry.cpp:dist_t"], "two frames, time pair (0,1)", "time-pair variant: atom 1 at t0, atom 2 at t1", 120, params={"kernel": "dist_t", "cell": "none"})]
    for c in sorted(CELLS):
        quick = c in ("cubic", "ortho_ratio6", "monoclinic70", "monoclinic_alpha70", "hexagonal120", "trunc_octahedron", "triclinic_a", "triclinic_b", "triclinic_a_unreduced", "hexagonal60_unreduced")
        tiers = ("quick", "thorough") if quick else ("thorough",)
        if c in ORTHO:
            o.append(Obl(f"C05.dist_mic.{c}", "py", H, "check_kernel", ["geometry.cpp:dist_mic (distancekernels.h)"], f"cell {c}; coordinates within +-50 cells; images within +-2",
                         "orthorhombic kernel: lattice shift, minimum image unconditionally, distance = |v|", 300, params={"kernel": "dist_mic", "cell": c}, tiers=tiers))
            o.append(Obl(f"C05.dist_mic_t.{c}", "py", H, "check_kernel", ["geometry.cpp:dist_mic_t"], f"cell {c}; time pair (0,1)", "same for the time-pair variant (cell of the first time index)", 300,
                         params={"kernel": "dist_mic_t", "cell": c}, tiers=("thorough",)))
        o.append(Obl(f"C05.dist_mic_triclinic.{c}", "py", H, "check_kernel", ["geometry.cpp:dist_mic_triclinic"], f"cell {c}; coordinates within +-50 cells; images within +-2",
                     "triclinic kernel: lattice shift by the INPUT vectors, minimum image (below half the cell width for skewed cells), distance = |v|", 600, params={"kernel": "dist_mic_triclinic", "cell": c}, tiers=tiers))
        o.append(Obl(f"C05.dist_mic_triclinic_t.{c}", "py", H, "check_kernel", ["geometry.cpp:dist_mic_triclinic_t"], f"cell {c}; time pair (0,1)", "time-pair variant", 600,
                     params={"kernel": "dist_mic_triclinic_t", "cell": c}, tiers=("quick", "thorough") if c in ("triclinic_a", "cubic") else ("thorough",)))
        o.append(Obl(f"C05.dist_mic_triclinic.M3.{c}", "py", H, "check_kernel", ["geometry.cpp:dist_mic_triclinic"], f"cell {c}; images within +-3", "same with M=3", 1200,
                     params={"kernel": "dist_mic_triclinic", "cell": c, "M": 3}, tiers=("thorough",)))
    # per-frame cells (NPT): frame 1 of a 2-frame call uses ITS OWN cell (frame 0 concrete, in a different cell)
    for k, c, c0 in (("dist_mic", "ortho_ratio6", "cubic"), ("dist_mic", "ortho_1_2_3", "ortho_ratio6"), ("dist_mic_triclinic", "triclinic_a", "monoclinic70")):
        o.append(Obl(f"C05.{k}.frame1.{c}", "py", H, "check_kernel", [f"geometry.cpp:{k}"], f"2-frame call: frame 0 concrete in cell {c0}, frame 1 symbolic in cell {c}",
                     "frame 1 is wrapped with frame 1's cell: lattice shift, minimum image, distance = |v|", 600, params={"kernel": k, "cell": c, "second_frame": True, "cell0": c0}))
    for k, c, c0 in (("dist_mic_t", "ortho_ratio6", "cubic"), ("dist_mic_t", "cubic", "ortho_1_2_3"), ("dist_mic_triclinic_t", "triclinic_a", "monoclinic70")):
        o.append(Obl(f"C05.{k}.cells_differ.{c}", "py", H, "check_kernel", [f"geometry.cpp:{k}"], f"time pair (0, 1); frame 0 in cell {c}, frame 1 in cell {c0}",
                     "the displacement from atom 1 at t0 to atom 2 at t1 is wrapped with the cell of the FIRST time index (documented; the reference path and the other kernel agree)", 600, params={"kernel": k, "cell": c, "cell0": c0}))
    for fn in ("distance", "distance_t", "displacement"):
        for pr in ("self", "distinct"):
            o.append(Obl(f"C05.reference.{fn}.{pr}", "py", "harness.c05_ref", "reference_mic", [f"mdtraj.geometry.distance._{fn if fn != 'distance_t' else 'distance_mic_t'}" if fn == "distance_t" else f"mdtraj.geometry.distance._{fn}_mic"],
                         "numpy reference path (opt=False), orthorhombic cells 2x3x4 and 3x2.5x5 (per frame), symbolic coordinates in +-20; pair: " + pr + " (self = the same atom twice)",
                         "the vector handed to norm() is the per-axis minimum image of the plain difference in the documented frame's cell (time pairs: atom c at t1 minus atom d at t2, also for c == d)", 300, params={"fn": fn, "pair": pr}))
    o.append(Obl("C05.python.dispatch", "xh", "harness.c05_py", "dispatch", ["mdtraj.geometry.distance.compute_distances", "compute_distances_core", "compute_displacements", "compute_distances_t"],
                 "3 frames, each orthorhombic or skewed (symbolic), opt, periodic, cell present (symbolic)", "the orthorhombic kernel is chosen only if EVERY frame is orthorhombic; per-frame transposed box, coordinates and pairs unchanged; plain kernels otherwise", 300))
    return o


MANIFEST_INFO = {
    "engine": "llsym",
    "technique": "symbolic interpretation of the kernels' LLVM IR (clang -O2) with symbolic coordinates and concrete cells; guarded polynomials + monomial naming -> z3 QF_LIRA",
    "text": "For each kernel and catalogue cell the solver proves, for ALL coordinates within +-50 cells, that the reported displacement is the plain difference plus an integer combination of the input cell vectors, that no image within +-2 (thorough: +-3) cells is shorter, and that the distance is its norm.",
    "note": "Real-arithmetic model of float32; concrete cells only; SIMD variants assumed equivalent to the scalar fvec4; the numpy reference path (opt=False) is only checked for dispatch, not arithmetic.",
}
