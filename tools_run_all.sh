#!/bin/bash
# usage: tools_run_all.sh [quick|thorough] [props...]   — full runs of the registered checks (evidence is rewritten)
cd "$(dirname "$0")"
tier="${1:-quick}"; shift
props="$@"; [ -z "$props" ] && props=$(python3 -c "import json; print(' '.join(c['property_id'] for c in json.load(open('MANIFEST.json'))['checks']))")
for p in $props; do
  s=$(date +%s); out=$(./vt check $p --tier $tier 2>&1); rc=$?
  echo "$p rc=$rc $(( $(date +%s)-s ))s :: $(echo "$out" | tail -1)"
  [ $rc -ne 0 ] && echo "$out" | grep -E "VIOLATION|INCONCLUSIVE|KNOWN" | cut -c1-300 | head -8
done
