#!/usr/bin/env python3
"""Regenerates MANIFEST.json from props/*.py (MANIFEST_INFO in each) + NOT_APPLICABLE below."""
import importlib, json, os, sys
sys.path.insert(0, os.path.dirname(os.path.abspath(__file__)))
ALL = [f"C{i:02d}" for i in range(1, 21)]
NOT_APPLICABLE = json.load(open("not_applicable.json"))
checks = []
for p in ALL:
    if not os.path.exists(f"props/{p}.py"):
        continue
    m = importlib.import_module(f"props.{p}")
    info = m.MANIFEST_INFO
    checks.append({
        "property_id": p,
        "quick_cmd": f"./vt check {p} --tier quick",
        "thorough_cmd": f"./vt check {p} --tier thorough",
        "evidence_file": f"/verif/evidence/{p}.json",
        "replay_cmd_template": "./vt replay {path}",
        "engine": info["engine"],
        "level_claimed": {"category": "model_checking", "text": info["text"], "design_ref": info.get("design_ref", "DESIGN.md §5 " + p)},
        "level_note": info["note"],
        "technique": info["technique"],
    })
claimed = {c["property_id"] for c in checks}
na = [{"property_id": p, "reason": NOT_APPLICABLE.get(p, "no check built yet in this round; see DESIGN.md §5")} for p in ALL if p not in claimed]
man = {
    "version": 1,
    "setup_cmd": "./vt setup",
    "hooks": {"guard": "MDTRAJ_VERIF", "enable": "no source hooks are needed: harnesses re-bind module globals of the real functions in their own process (MDTRAJ_VERIF=1 is exported by ./vt but nothing in /repo reads it)",
              "baseline_off_cmd": "cd /repo && /venv/bin/python -m pytest -ra -q -p no:cacheprovider --timeout=900 --continue-on-collection-errors",
              "source_commits": [], "add_only": True},
    "engines": [
        {"name": "xh", "path": "vtlib/core.py + vtlib/xhfix.py + vtlib/fakes.py + harness/*.py", "serves_properties": sorted(c["property_id"] for c in checks if c["engine"] == "xh"), "kind_free_text": "CrossHair symbolic execution of real Python bytecode with z3, fake I/O back ends"},
        {"name": "symnum", "path": "vtlib/symnum.py", "serves_properties": sorted(c["property_id"] for c in checks if c["engine"] == "symnum"), "kind_free_text": "real numpy code executed on z3 reals through a numpy facade; z3 + cvc5 discharge the identities"},
        {"name": "llsym", "path": "vtlib/llsym.py", "serves_properties": sorted(c["property_id"] for c in checks if c["engine"] == "llsym"), "kind_free_text": "symbolic interpreter for the LLVM IR clang emits for the C/C++ kernels"},
        {"name": "selz3", "path": "vtlib/selz3.py", "serves_properties": sorted(c["property_id"] for c in checks if c["engine"] == "selz3"), "kind_free_text": "selection AST -> z3 predicate over a symbolic atom"},
    ],
    "checks": checks,
    "not_applicable": na,
    "notes": "Exit 0 = every obligation discharged by the solver (or matched a committed known finding); 1 = a counterexample that reproduced on the real code; 2 = inconclusive / harness error (never reported as success). Fixed defects are listed in known_findings.json.",
}
json.dump(man, open("MANIFEST.json", "w"), indent=1)
print("claimed", sorted(claimed), "n/a", [x["property_id"] for x in na])
