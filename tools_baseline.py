#!/usr/bin/env python3
"""Run the repository's pinned baseline suite and compare with /root/.vp/BASELINE.json stable_pass.
usage: tools_baseline.py [pytest args...]   (default: whole suite, -n not available)"""
import json, subprocess, sys, tempfile, os, xml.etree.ElementTree as ET
b = json.load(open('/root/.vp/BASELINE.json'))
out = tempfile.mktemp(suffix='.xml')
cmd = b['cmd'].replace('<file>', out)
extra = ' '.join(sys.argv[1:])
r = subprocess.run(cmd + (' ' + extra if extra else ''), shell=True, capture_output=True, text=True)
passed = set()
for tc in ET.parse(out).getroot().iter('testcase'):
    if not any(c.tag in ('failure', 'error', 'skipped') for c in tc):
        passed.add(f"{tc.get('classname')}::{tc.get('name')}")
os.unlink(out)
missing = [t for t in b['stable_pass'] if t not in passed]
print(f"stable_pass={len(b['stable_pass'])} passed_now={len(passed)} missing={len(missing)}")
for t in missing[:50]:
    print("  MISSING", t)
sys.exit(1 if missing and not extra else 0)
