"""NOT a registered check (concrete sweep, no solver): partial loading against slicing of the full load through the real files, for the formats whose
readers are Cython and therefore outside the checks' reach.  usage: /venv/bin/python tools_observed_c02_sweep.py <ext>   (xtc trr dcd dtr nc h5 ...)
Used once to record the observations listed in DESIGN.md (C02, 'observed outside the reach of the technique')."""
import sys, signal, numpy as np, mdtraj as md, tempfile, os, itertools, warnings
warnings.simplefilter("ignore")
from mdtraj.core import element as el
class TO(Exception): pass
def h(*a): raise TO()
signal.signal(signal.SIGALRM, h)
ext = sys.argv[1]
top = md.Topology(); ch = top.add_chain(); r = top.add_residue("ALA", ch)
for i in range(12): top.add_atom("C%d"%i, el.carbon, r)
rng = np.random.RandomState(0)
t = md.Trajectory((rng.rand(7,12,3)*2).astype(np.float32), top, time=np.arange(7)*1.5+3)
t.unitcell_lengths = np.array([[3+0.1*f,3.2,3.4] for f in range(7)]); t.unitcell_angles = np.ones((7,3))*90
d = tempfile.mkdtemp()
p = os.path.join(d, "o."+ext)
t.save(p)
kw = {} if ext in ("h5","gro","pdb") else {"top": top}
full = md.load(p, **kw)
bad = []
def guard(tag, fn):
    signal.alarm(0)
    try: fn()
    except TO: bad.append(tag + ("HANG",))
    except Exception as e: bad.append(tag + (type(e).__name__, str(e)[:60]))
    finally: signal.alarm(0)
for stride, ai in itertools.product((None,1,2,3,5), (None,[0,5,11],[3])):
    def f():
        x = md.load(p, stride=stride, atom_indices=ai, **kw)
        want = full[::stride]
        if ai is not None: want = want.atom_slice(ai)
        if not (x.xyz.shape == want.xyz.shape and np.allclose(x.xyz, want.xyz, atol=1e-3) and np.allclose(x.time, want.time, atol=1e-3) and (want.unitcell_lengths is None or np.allclose(x.unitcell_lengths, want.unitcell_lengths, atol=1e-3))):
            bad.append(("load", stride, ai, x.time.tolist(), want.time.tolist()))
    guard(("load", stride, ai), f)
for frame, ai in itertools.product((0,3,6), (None,[0,5,11])):
    def f():
        x = md.load(p, frame=frame, atom_indices=ai, **kw)
        want = full[frame]
        if ai is not None: want = want.atom_slice(ai)
        if not (x.xyz.shape == want.xyz.shape and np.allclose(x.xyz, want.xyz, atol=1e-3) and np.allclose(x.time, want.time, atol=1e-3)):
            bad.append(("frame", frame, ai, x.time.tolist(), want.time.tolist()))
    guard(("frame", frame, ai), f)
for chunk, stride, skip in itertools.product((1,2,3,4,10), (1,2,3), (0,1,5,7)):
    def f():
        cs = list(itertools.islice(md.iterload(p, chunk=chunk, stride=stride, skip=skip, **kw), 40))
        if len(cs) >= 40: raise RuntimeError('iterload does not terminate (40+ chunks)')
        want = full[skip::stride]
        xs = np.concatenate([c.xyz for c in cs]) if cs else np.zeros((0,12,3)); ts = np.concatenate([c.time for c in cs]) if cs else np.zeros(0)
        sizes = [c.n_frames for c in cs]
        if not (xs.shape == want.xyz.shape and np.allclose(xs, want.xyz, atol=1e-3) and np.allclose(ts, want.time, atol=1e-3) and all(s == chunk for s in sizes[:-1])):
            bad.append(("iterload", chunk, stride, skip, sizes, ts.tolist(), want.time.tolist()))
    guard(("iterload", chunk, stride, skip), f)
print(ext, len(bad)); [print("   ", b) for b in bad[:8]]
