"""./vt check <Cxx> [--tier quick|thorough] | ./vt replay <path> | ./vt list"""
import argparse
import importlib
import os
import subprocess
import sys

from . import core


def main(argv=None):
    ap = argparse.ArgumentParser(prog="vt")
    sub = ap.add_subparsers(dest="cmd", required=True)
    c = sub.add_parser("check")
    c.add_argument("prop")
    c.add_argument("--tier", default=os.environ.get("VERIF_TIER") or "quick", choices=["quick", "thorough"])
    c.add_argument("--only", default=None, help="substring filter on obligation ids (debugging; evidence still written)")
    r = sub.add_parser("replay")
    r.add_argument("path")
    sub.add_parser("list")
    a = ap.parse_args(argv)
    if a.cmd == "check":
        m = importlib.import_module(f"props.{a.prop}")
        obls = m.obligations()
        if a.only:
            obls = [o for o in obls if a.only in o.id]
            # partial (debugging) runs never overwrite the evidence of a full run
            os.environ.setdefault("VT_EVIDENCE_DIR", "/tmp/vt_partial_evidence")
        return core.run_property(a.prop, obls, a.tier, m.META)
    if a.cmd == "replay":
        return subprocess.call([core.PY, a.path], env=core._env())
    if a.cmd == "list":
        for f in sorted(os.listdir(core.VERIF / "props")):
            if f.startswith("C") and f.endswith(".py"):
                m = importlib.import_module("props." + f[:-3])
                for o in m.obligations():
                    print(o.id, o.kind, o.tiers, o.desc)
        return 0


if __name__ == "__main__":
    sys.exit(main())
