"""E3 `llsym` — symbolic interpreter for the LLVM IR that clang 14 emits for mdtraj's C/C++ kernels.

Integers, pointers, sizes and indices are CONCRETE; float/double values are SYMBOLIC: exact rationals, polynomials with
rational coefficients over named variables (`Poly`, kept expanded) or z3 terms (after a `select`).  Floats are modelled as
mathematical reals.  When a polynomial is handed to z3 every non-linear monomial becomes ONE fresh real per distinct
monomial (`Interp.emit`, a sound over-approximation: unsat stands), which turns the periodic-image arithmetic into
QF_LIRA.  A conditional branch on a symbolic condition forks (re-execution with a decision trail + feasibility query).

Memory: object -> {byte offset -> (value, size)}; a load whose size differs from the store that wrote the cell is an
encoder error.  calloc/memset(0) regions read as 0; malloc/operator new regions read as FRESH SYMBOLS (uninitialised /
stale memory); reading an integer or pointer from such a region is an encoder error.
"""
from __future__ import annotations

import hashlib
import operator as _o
import os
import re
import struct
import subprocess
import tempfile
import time
from fractions import Fraction

import z3

CLANG_FLAGS = ["-O2", "-fno-vectorize", "-fno-slp-vectorize", "-fno-unroll-loops", "-D__NO_INTRINSICS", "-S", "-emit-llvm"]


class EncoderError(Exception):
    pass


class Infeasible(Exception):
    pass


# ---------------------------------------------------------------- compile

def compile_ir(src, includes, workdir, extra=()):
    out = os.path.join(workdir, os.path.basename(src) + ".ll")
    cmd = ["clang++"] + CLANG_FLAGS + list(extra) + [f"-I{i}" for i in includes] + [src, "-o", out]
    p = subprocess.run(cmd, capture_output=True, text=True)
    if p.returncode != 0:
        raise EncoderError("clang failed: " + p.stderr[-800:])
    return out


def compile_native(srcs, includes, workdir, name="kernel", extra=()):
    """the same sources as a shared object with the repository's flags, for concrete replay through ctypes"""
    out = os.path.join(workdir, f"lib{name}.so")
    cmd = ["g++", "-O2", "-shared", "-fPIC", "-std=c++11"] + list(extra) + [f"-I{i}" for i in includes] + list(srcs) + ["-o", out]
    p = subprocess.run(cmd, capture_output=True, text=True)
    if p.returncode != 0:
        raise EncoderError("g++ failed: " + p.stderr[-800:])
    return out


# ---------------------------------------------------------------- types

class T:
    def __init__(s, kind, **kw):
        s.kind = kind
        s.__dict__.update(kw)

    def __repr__(s):
        return f"T({s.kind})"


_NAME = r'%(?:"[^"]+"|[\w.$-]+)'


class TypeParser:
    def __init__(s, named):
        s.named = named

    def parse(s, txt):
        return s._p(txt.strip())

    def _p(s, x):
        x = x.lstrip()
        if x.startswith("["):
            m = re.match(r"\[\s*(\d+)\s+x\s+", x)
            el, rest = s._p(x[m.end():])
            rest = rest.lstrip()
            t, rest = T("array", n=int(m.group(1)), el=el), rest[1:]
        elif x.startswith("<{") or x.startswith("{"):
            packed = x.startswith("<{")
            rest = x[2:] if packed else x[1:]
            els = []
            while True:
                rest = rest.lstrip()
                if rest[0] == "}":
                    rest = rest[1:]
                    break
                e, rest = s._p(rest)
                els.append(e)
                rest = rest.lstrip()
                if rest[0] == ",":
                    rest = rest[1:]
            if packed:
                rest = rest.lstrip()[1:]
            t = T("struct", els=els, packed=packed)
        elif x.startswith("<"):
            m = re.match(r"<\s*(\d+)\s+x\s+", x)
            el, rest = s._p(x[m.end():])
            rest = rest.lstrip()
            t, rest = T("vector", n=int(m.group(1)), el=el), rest[1:]
        else:
            m = re.match(r"(float|double|void|i\d+|label|metadata|%s)" % _NAME, x)
            if not m:
                raise EncoderError("type? " + x[:60])
            w, rest = m.group(1), x[m.end():]
            if w in ("float", "double"):
                t = T(w)
            elif w in ("void", "label", "metadata"):
                t = T(w)
            elif w[0] == "i":
                t = T("int", bits=int(w[1:]))
            else:
                t = s.named.get(w)
                if t is None:
                    t = s.named[w] = T("struct", els=[], opaque=True, packed=False)
        while True:
            r2 = rest.lstrip()
            if r2.startswith("*"):
                t, rest = T("ptr", to=t), r2[1:]
            elif r2.startswith("("):
                depth = 0
                for i, ch in enumerate(r2):
                    depth += ch == "("
                    if ch == ")":
                        depth -= 1
                        if depth == 0:
                            break
                t, rest = T("func"), r2[i + 1:]
            else:
                break
        return t, rest


def sizeof(t):
    k = t.kind
    if k == "float":
        return 4
    if k == "double":
        return 8
    if k == "int":
        return max(1, (t.bits + 7) // 8)
    if k == "ptr":
        return 8
    if k in ("array", "vector"):
        return t.n * sizeof(t.el)
    if k == "struct":
        off = 0
        for e in t.els:
            a = 1 if t.packed else alignof(e)
            off = (off + a - 1) // a * a + sizeof(e)
        a = 1 if t.packed else alignof(t)
        return (off + a - 1) // a * a
    raise EncoderError("sizeof " + k)


def alignof(t):
    k = t.kind
    if k == "array":
        return alignof(t.el)
    if k == "vector":
        return sizeof(t)
    if k == "struct":
        return max([alignof(e) for e in t.els] or [1])
    return sizeof(t)


def struct_off(t, i):
    off = 0
    for j, e in enumerate(t.els):
        a = 1 if t.packed else alignof(e)
        off = (off + a - 1) // a * a
        if j == i:
            return off
        off += sizeof(e)
    raise EncoderError("struct index")


# ---------------------------------------------------------------- module

class Func:
    pass


def split_top(s):
    out, depth, cur, q = [], 0, "", False
    for ch in s:
        if ch == '"':
            q = not q
        if not q:
            if ch in "([{<":
                depth += 1
            if ch in ")]}>":
                depth -= 1
            if ch == "," and depth == 0:
                out.append(cur.strip())
                cur = ""
                continue
        cur += ch
    if cur.strip():
        out.append(cur.strip())
    return out


_ATTR = re.compile(r"\b(noundef|nonnull|nocapture|immarg|readonly|writeonly|readnone|noalias|signext|zeroext|returned|inreg|nofree|nest|"
                   r"dereferenceable(_or_null)?\(\d+\)|align \d+|sret\([^)]*\)|byval\([^)]*\))\s*")


class Module:
    def __init__(s, path):
        s.path = path
        txt = open(path).read().split("\n")
        s.named, s.funcs, s.globals = {}, {}, {}
        s.tp = TypeParser(s.named)
        for l in txt:
            m = re.match(r"(%s) = type (.*)$" % _NAME, l)
            if m and m.group(1) not in s.named:
                s.named[m.group(1)] = T("struct", els=[], packed=False)
        for l in txt:
            m = re.match(r"(%s) = type (.*)$" % _NAME, l)
            if m and m.group(2).strip() != "opaque":
                t, _ = s.tp.parse(m.group(2))
                s.named[m.group(1)].els, s.named[m.group(1)].packed = t.els, t.packed
        i = 0
        while i < len(txt):
            l = txt[i]
            mg = re.match(r"@([\w.$]+) = .*?(?:constant|global) (.*)$", l)
            if mg:
                s.globals[mg.group(1)] = ("external " if re.match(r"@[\w.$]+ = external ", l) else "") + mg.group(2)
            if l.startswith("define"):
                m = re.search(r"@([\w.$]+)\(", l)
                depth, j = 1, m.end()
                while depth:
                    depth += l[j] == "("
                    depth -= l[j] == ")"
                    j += 1
                f = Func()
                f.name, f.params = m.group(1), []
                for a in split_top(l[m.end():j - 1]):
                    a = _ATTR.sub("", a)
                    t, rest = s.tp.parse(a)
                    f.params.append((t, rest.split()[-1]))
                f.blocks, f.order = {}, []
                cur = "%entry0"
                f.blocks[cur] = []
                f.order.append(cur)
                f.entry = cur
                i += 1
                while txt[i] != "}":
                    l = txt[i]
                    m = re.match(r"^([\w.$-]+):", l)
                    if m:
                        cur = "%" + m.group(1)
                        f.blocks[cur] = []
                        f.order.append(cur)
                    elif l.strip() and not l.strip().startswith(";"):
                        ins = l.strip()
                        while ins.startswith("switch") and not ins.rstrip().endswith("]"):
                            i += 1
                            ins += " " + txt[i].strip()
                        while (" invoke " in ins or ins.startswith("invoke")) and " unwind label" not in ins:
                            i += 1
                            ins += " " + txt[i].strip()
                        if ins.startswith("landingpad") or " = landingpad" in ins:
                            while i + 1 < len(txt) and re.match(r"^\s+(cleanup|catch|filter)", txt[i + 1]):
                                i += 1
                        f.blocks[cur].append(ins)
                    i += 1
                s.funcs[f.name] = f
            i += 1
        s.ninsns = sum(len(b) for f in s.funcs.values() for b in f.blocks.values())


# ---------------------------------------------------------------- value domain

class Ptr:
    __slots__ = ("obj", "off")

    def __init__(s, obj, off):
        s.obj, s.off = obj, off

    def __repr__(s):
        return f"Ptr({s.obj},{s.off})"


NULL = Ptr(None, 0)


class PInt:
    """result of ptrtoint: supports the address arithmetic std::vector does (end - begin, p + n)"""
    __slots__ = ("obj", "off")

    def __init__(s, obj, off):
        s.obj, s.off = obj, off


class Poly:
    __slots__ = ("t",)

    def __init__(s, terms=None):
        s.t = {k: v for k, v in (terms or {}).items() if v != 0}

    @staticmethod
    def var(n):
        return Poly({(n,): Fraction(1)})

    @staticmethod
    def const(c):
        return Poly({(): Fraction(c)})

    def __add__(s, o):
        o = P(o)
        r = dict(s.t)
        for k, v in o.t.items():
            r[k] = r.get(k, 0) + v
        return Poly(r)

    __radd__ = __add__

    def __neg__(s):
        return Poly({k: -v for k, v in s.t.items()})

    def __sub__(s, o):
        return s + (-P(o))

    def __rsub__(s, o):
        return P(o) - s

    def __mul__(s, o):
        o = P(o)
        r = {}
        for k1, v1 in s.t.items():
            for k2, v2 in o.t.items():
                k = tuple(sorted(k1 + k2))
                r[k] = r.get(k, 0) + v1 * v2
        return Poly(r)

    __rmul__ = __mul__

    def is_const(s):
        return all(k == () for k in s.t)

    def cval(s):
        return s.t.get((), Fraction(0))

    def degree(s):
        return max((len(k) for k in s.t), default=0)

    def __repr__(s):
        return "Poly(" + " + ".join(f"{v}*{'*'.join(k) or '1'}" for k, v in list(s.t.items())[:6]) + ")"

    def key(s):
        return tuple(sorted(s.t.items()))


class NaNVal:
    """the IEEE NaN as a VALUE (mdtraj pre-fills energy arrays with NaN and tests them with isnan)"""

    def __repr__(s):
        return "NaN"


NAN = NaNVal()


class GP:
    """guarded polynomial: the value is polys[i] under guards[i]; guards are z3 Bools, mutually exclusive and exhaustive
    by construction (they come from `select` instructions).  Leaves are NOT merged, so the components of a vector that
    went through the same selects keep the same case split."""
    __slots__ = ("guards", "polys")

    def __init__(s, guards, polys):
        s.guards, s.polys = list(guards), list(polys)

    @staticmethod
    def select(c, a, b):
        ga, pa = (a.guards, a.polys) if isinstance(a, GP) else ([z3.BoolVal(True)], [P(a)])
        gb, pb = (b.guards, b.polys) if isinstance(b, GP) else ([z3.BoolVal(True)], [P(b)])
        guards = [z3.simplify(z3.And(c, g)) for g in ga] + [z3.simplify(z3.And(z3.Not(c), g)) for g in gb]
        polys = list(pa) + list(pb)
        keep = [i for i, g in enumerate(guards) if not z3.is_false(g)]
        guards, polys = [guards[i] for i in keep], [polys[i] for i in keep]
        return GP(guards, polys) if len(polys) > 1 else polys[0]

    def map2(s, o, f):
        if isinstance(o, GP):
            if len(o.guards) == len(s.guards) and all(a.eq(b) for a, b in zip(s.guards, o.guards)):
                return GP(s.guards, [f(x, y) for x, y in zip(s.polys, o.polys)])      # same case split: zip
            gs, ps = [], []
            for g1, p1 in zip(s.guards, s.polys):
                for g2, p2 in zip(o.guards, o.polys):
                    gs.append(z3.And(g1, g2))
                    ps.append(f(p1, p2))
            if len(ps) > 4096:
                raise EncoderError("guarded-polynomial blow-up")
            return GP(gs, ps)
        return GP(s.guards, [f(x, P(o)) for x in s.polys])

    def __add__(s, o): return s.map2(o, lambda a, b: a + b)
    def __radd__(s, o): return s.map2(o, lambda a, b: b + a)
    def __sub__(s, o): return s.map2(o, lambda a, b: a - b)
    def __rsub__(s, o): return s.map2(o, lambda a, b: b - a)
    def __mul__(s, o): return s.map2(o, lambda a, b: a * b)
    def __rmul__(s, o): return s.map2(o, lambda a, b: b * a)
    def __neg__(s): return GP(s.guards, [-p for p in s.polys])


def P(x):
    if isinstance(x, (Poly, GP)):
        return x
    if x is NAN:
        raise EncoderError("arithmetic on NaN")
    return Poly.const(x)


def is_symf(x):
    return isinstance(x, (z3.ExprRef, GP)) or (isinstance(x, Poly) and not x.is_const())


def conc(x):
    """concrete Fraction of a constant value, else None"""
    if isinstance(x, Poly):
        return x.cval() if x.is_const() else None
    if isinstance(x, (int, Fraction)):
        return Fraction(x)
    return None


def rv(c):
    c = Fraction(c)
    return z3.RealVal(f"{c.numerator}/{c.denominator}")


# ---------------------------------------------------------------- interpreter

class Interp:
    def __init__(s, mod: Module, timeout_ms=20000, exact=False):
        s.mod, s.tp = mod, mod.tp
        s.timeout_ms = timeout_ms
        s.exact = exact                 # True: monomials are emitted as real products (refinement of `sat` answers)
        s.reset([])
        s.queries, s.solver_s = 0, 0.0

    def reset(s, trail):
        s.mem, s.regions, s.nobj = {}, {}, 0
        s.side, s.path = [], []
        s.mono, s.ints = {}, set()
        s.nfresh, s.steps = 0, 0
        s.fnapps = []                   # (fname, result var Poly, [args]) for sqrt/acos/atan2/cos/sin...
        s.trail, s.pos, s.new_alts = list(trail), 0, []
        s.freed = set()
        s.heap = []                     # (allocator, object id, size) in allocation order
        s.trace = []                    # (callee, args, return value) of calls to functions defined in the module
        s.calls = {}
        s.stubs = getattr(s, "stubs", {})      # callee name -> python function(I, args): compositional contracts

    # ----- symbols / emission
    def fresh(s, p, integer=False):
        s.nfresh += 1
        n = f"{p}!{s.nfresh}"
        if integer:
            s.ints.add(n)
        return Poly.var(n)

    def var(s, n):
        return Poly.var(n)

    def zvar(s, n):
        return z3.ToReal(z3.Int(n)) if n in s.ints else z3.Real(n)

    def emit(s, x):
        if isinstance(x, z3.ExprRef):
            return x
        if isinstance(x, GP):
            e = s.emit(x.polys[-1])
            for g, p in zip(reversed(x.guards[:-1]), reversed(x.polys[:-1])):
                e = z3.If(g, s.emit(p), e)
            return e
        if not isinstance(x, Poly):
            return rv(x)
        acc = []
        for k, c in x.t.items():
            if len(k) == 0:
                acc.append(rv(c))
            elif len(k) == 1:
                acc.append(rv(c) * s.zvar(k[0]))
            elif s.exact:
                prod = s.zvar(k[0])
                for n in k[1:]:
                    prod = prod * s.zvar(n)
                acc.append(rv(c) * prod)
            else:
                if k not in s.mono:
                    s.mono[k] = z3.Real("m_" + "*".join(k))
                acc.append(rv(c) * s.mono[k])
        return z3.Sum(acc) if len(acc) > 1 else (acc[0] if acc else rv(0))

    def mono_defs(s):
        """defining equations of the named monomials (adding them turns the linear abstraction into the exact non-linear query)"""
        out = []
        for k, m in s.mono.items():
            prod = s.zvar(k[0])
            for n in k[1:]:
                prod = prod * s.zvar(n)
            out.append(m == prod)
        # square roots are fresh non-negative symbols during exploration: their defining equation belongs to the exact query too
        for kind, v, args in s.fnapps:
            if kind == "sqrt":
                ve, xe = s.emit(v), s.emit(args[0])
                out.append(ve * ve == xe)
        return out

    def check(s, *extra, timeout_ms=None):
        sol = z3.Solver()
        sol.set("timeout", timeout_ms or s.timeout_ms)
        sol.add(*s.side, *s.path, *extra)
        t = time.time()
        r = sol.check()
        s.solver_s += time.time() - t
        s.queries += 1
        return r, sol

    # ----- memory
    def alloc(s, size, fill="none"):
        """fill: 'none' (reads are errors), 'zero', 'fresh' (floats read as fresh symbols)"""
        s.nobj += 1
        s.mem[s.nobj] = {}
        s.regions[s.nobj] = {"size": size, "fill": fill}
        return Ptr(s.nobj, 0)

    def store(s, p, t, v):
        if t.kind in ("vector", "array"):
            es = sizeof(t.el)
            for i in range(t.n):
                s.store(Ptr(p.obj, p.off + i * es), t.el, v[i])
        elif t.kind == "struct":
            for i, e in enumerate(t.els):
                s.store(Ptr(p.obj, p.off + struct_off(t, i)), e, v[i])
        else:
            if p.obj is None or p.obj in s.freed:
                raise EncoderError(f"store through null/freed pointer {p}")
            s.mem[p.obj][p.off] = (v, sizeof(t))

    def load(s, p, t):
        if t.kind in ("vector", "array"):
            es = sizeof(t.el)
            return [s.load(Ptr(p.obj, p.off + i * es), t.el) for i in range(t.n)]
        if t.kind == "struct":
            return [s.load(Ptr(p.obj, p.off + struct_off(t, i)), e) for i, e in enumerate(t.els)]
        if p.obj is None or p.obj in s.freed:
            raise EncoderError(f"load through null/freed pointer {p}")
        cell = s.mem[p.obj].get(p.off)
        if cell is None:
            fill = s.regions[p.obj]["fill"]
            sz = s.regions[p.obj]["size"]
            if sz is not None and not (0 <= p.off and p.off + sizeof(t) <= sz):
                raise EncoderError(f"out-of-bounds load {p} size {sizeof(t)} of object of {sz} bytes")
            if fill == "zero":
                return NULL if t.kind == "ptr" else (Fraction(0) if t.kind in ("float", "double") else 0)
            if fill == "fresh" and t.kind in ("float", "double"):
                v = s.fresh(f"stale_o{p.obj}_{p.off}")
                s.mem[p.obj][p.off] = (v, sizeof(t))
                return v
            raise EncoderError(f"uninitialised load {p} {t}")
        v, sz = cell
        if sz != sizeof(t):
            raise EncoderError(f"type-punned load {p} {t} vs stored size {sz}")
        return v

    def put_floats(s, p, vals, ty="float"):
        t = T(ty)
        for i, v in enumerate(vals):
            s.store(Ptr(p.obj, p.off + i * sizeof(t)), t, v)

    def put_ints(s, p, vals, bits=32):
        t = T("int", bits=bits)
        for i, v in enumerate(vals):
            s.store(Ptr(p.obj, p.off + i * sizeof(t)), t, int(v))

    def get_floats(s, p, n, ty="float"):
        t = T(ty)
        return [s.load(Ptr(p.obj, p.off + i * sizeof(t)), t) for i in range(n)]

    def get_ints(s, p, n, bits=32):
        t = T("int", bits=bits)
        return [s.load(Ptr(p.obj, p.off + i * sizeof(t)), t) for i in range(n)]

    def new_floats(s, vals, ty="float"):
        p = s.alloc(len(vals) * (4 if ty == "float" else 8))
        s.put_floats(p, vals, ty)
        return p

    def new_ints(s, vals, bits=32):
        p = s.alloc(len(vals) * bits // 8)
        s.put_ints(p, vals, bits)
        return p

    # ----- operands
    def val(s, env, t, tok):
        tok = tok.strip()
        if tok.startswith("%"):
            return env[tok]
        if tok == "null":
            return NULL
        if tok in ("undef", "poison", "zeroinitializer"):
            if t.kind in ("vector", "array"):
                return [s.val(env, t.el, tok) for _ in range(t.n)]
            if t.kind == "struct":
                return [s.val(env, e, tok) for e in t.els]
            if t.kind == "ptr":
                return NULL
            return Fraction(0) if t.kind in ("float", "double") else 0
        if tok in ("true", "false"):
            return 1 if tok == "true" else 0
        if t.kind in ("float", "double"):
            if tok.startswith("0x"):
                return Fraction(struct.unpack(">d", bytes.fromhex(tok[2:].rjust(16, "0")))[0])
            return Fraction(float(tok))
        if t.kind == "int":
            return int(tok)
        if t.kind == "vector" and tok.startswith("<"):
            out = []
            for p_ in split_top(tok[1:-1]):
                et, rest = s.tp.parse(p_)
                out.append(s.val(env, et, rest))
            return out
        if t.kind == "ptr" and tok.startswith("@"):
            return s.global_ptr(tok[1:])
        if t.kind == "ptr" and (tok.startswith("getelementptr") or tok.startswith("bitcast")):
            m = re.search(r"@([\w.$]+)", tok)
            return s.global_ptr(m.group(1))      # only used for printf format strings
        raise EncoderError(f"operand? {t} {tok[:60]}")

    def global_ptr(s, name):
        key = "@" + name
        if key not in s.calls:
            # an EXTERNAL global (stderr, stdout ...) is opaque: reading a pointer out of it gives NULL, which the output stubs ignore
            s.calls[key] = s.alloc(None, "zero" if s.mod.globals.get(name, "").startswith("external ") else "none")
        return s.calls[key]

    def typed(s, env, txt):
        txt = _ATTR.sub("", txt.strip())
        t, rest = s.tp.parse(txt)
        return t, s.val(env, t, rest)

    # ----- float ops
    def fbin(s, a, b, op, ty="float"):
        if isinstance(a, z3.ExprRef) or isinstance(b, z3.ExprRef):
            a, b = s.emit(a), s.emit(b)
            return {"add": a + b, "sub": a - b, "mul": a * b, "div": a / b}[op]
        if op == "div":
            cb = conc(b)
            if cb is None and (isinstance(a, GP) or isinstance(b, GP)):
                raise EncoderError("division involving a guarded polynomial")
            if cb is None:
                q = s.fresh("quot")
                s.side.append(s.emit(q * P(b)) == s.emit(P(a)))
                s.fnapps.append(("div", q, [a, b]))
                return q
            return P(a) * Poly.const(1 / cb)
        return {"add": _o.add, "sub": _o.sub, "mul": _o.mul}[op](P(a), P(b))

    def fround(s, x):
        c = conc(x)
        if c is not None:
            if (2 * c).denominator == 1 and (2 * c).numerator % 2 == 1:
                # an exact tie of a CONCRETE value: in float32 rounding noise decides; outside the real-arithmetic model
                raise EncoderError(f"exact tie in a concrete round({c}): choose a catalogue value off the tie")
            return P(Fraction(int(c + Fraction(1, 2)) if c >= 0 else -int(-c + Fraction(1, 2))))
        k = s.fresh("rnd", integer=True)
        e, ke = s.emit(x), s.emit(k)
        s.side += [ke - e <= rv(Fraction(1, 2)), e - ke <= rv(Fraction(1, 2))]
        s.fnapps.append(("round", k, [x]))
        return k

    def ffloor(s, x):
        c = conc(x)
        if c is not None:
            return P(Fraction(c.numerator // c.denominator))
        k = s.fresh("flr", integer=True)
        e, ke = s.emit(x), s.emit(k)
        s.side += [ke <= e, e - ke < 1]
        s.fnapps.append(("floor", k, [x]))
        return k

    def fsqrt(s, x, ty="float"):
        c = conc(x)
        if c is not None and c >= 0:
            import math
            r = Fraction(c)
            q = Fraction(math.isqrt(r.numerator), 1) / Fraction(math.isqrt(r.denominator), 1) if r.denominator else 0
            if q * q == r:
                return P(q)
            return P(Fraction(math.sqrt(float(c))))      # numeric evaluation of a CONSTANT (cut, stated)
        v = s.fresh("sqrt")
        s.side.append(s.emit(v) >= 0)
        s.fnapps.append(("sqrt", v, [x]))
        return v

    def fnamed(s, name, args):
        v = s.fresh(name)
        s.fnapps.append((name, v, list(args)))
        return v

    # ----- control
    def decide(s, c):
        """fork on a symbolic i1"""
        if s.pos < len(s.trail):
            v = s.trail[s.pos]
        else:
            rt, _ = s.check(c)
            rf, _ = s.check(z3.Not(c))
            if z3.unknown in (rt, rf):
                raise EncoderError("branch feasibility unknown")
            if rt == z3.unsat and rf == z3.unsat:
                raise Infeasible()
            if rt == z3.sat and rf == z3.sat:
                v = True
                s.new_alts.append(s.trail[:s.pos] + [False])
            else:
                v = rt == z3.sat
            s.trail = s.trail[:s.pos] + [v]
        s.pos += 1
        s.path.append(c if v else z3.Not(c))
        return v

    def call(s, name, args, depth=0):
        f = s.mod.funcs[name]
        env = {nm: a for (t, nm), a in zip(f.params, args)}
        blk, prev = f.entry, None
        while True:
            insns = f.blocks[blk]
            newvals, idx = {}, 0
            while idx < len(insns) and " = phi " in insns[idx]:
                m = re.match(r"(%[\w.$-]+) = phi (.*)$", insns[idx])
                t, rest = s.tp.parse(m.group(2))
                for mm in re.finditer(r"\[\s*([^\[\]]+?),\s*(%[\w.$-]+)\s*\]", rest):
                    if mm.group(2) == prev or (prev == f.entry and mm.group(2) == "%" + str(len(f.params))):
                        newvals[m.group(1)] = s.val(env, t, mm.group(1))
                        break
                else:
                    raise EncoderError(f"phi without matching predecessor {prev}: {insns[idx][:80]}")
                idx += 1
            env.update(newvals)
            for ins in insns[idx:]:
                s.steps += 1
                if s.steps > 5_000_000:
                    raise EncoderError("step budget exceeded")
                r = s.step(f, env, ins, depth)
                if r is None:
                    continue
                if r[0] == "br":
                    prev, blk = blk, r[1]
                    break
                if r[0] == "ret":
                    return r[1]
                if r[0] == "stop":
                    raise Infeasible()
            else:
                raise EncoderError("fell off block " + blk)

    def step(s, f, env, ins, depth):
        ins = re.sub(r",\s*!\w+ !\d+", "", ins)
        ins = re.sub(r",\s*align \d+", "", ins)
        ins = re.sub(r"\s+#\d+(?=\s|$)", "", ins)
        m = re.match(r"(%[\w.$-]+) = (.*)$", ins)
        dst = None
        if m:
            dst, ins = m.group(1), m.group(2)
        op, _, rest = ins.partition(" ")
        if op in ("tail", "musttail", "notail"):
            op, _, rest = rest.partition(" ")

        def setv(v):
            if dst is not None:
                env[dst] = v
        if op == "alloca":
            t, r2 = s.tp.parse(rest)
            n = 1
            mm = re.match(r"\s*,\s*i\d+\s+(\d+)", r2)
            if mm:
                n = int(mm.group(1))
            setv(s.alloc(sizeof(t) * n, "fresh"))      # uninitialised stack floats read as arbitrary (fresh) values
        elif op == "bitcast":
            a, b = rest.rsplit(" to ", 1)
            setv(s.typed(env, a)[1])
        elif op == "getelementptr":
            rest = rest.replace("inbounds ", "")
            parts = split_top(rest)
            bt, _ = s.tp.parse(parts[0])
            pt, p = s.typed(env, parts[1])
            off, cur = p.off, bt
            for k, ip in enumerate(parts[2:]):
                it, iv = s.typed(env, ip)
                if not isinstance(iv, int):
                    raise EncoderError("non-concrete index")
                if k == 0:
                    off += iv * sizeof(bt)
                elif cur.kind in ("array", "vector"):
                    off += iv * sizeof(cur.el)
                    cur = cur.el
                elif cur.kind == "struct":
                    off += struct_off(cur, iv)
                    cur = cur.els[iv]
                else:
                    raise EncoderError("gep into " + cur.kind)
            setv(Ptr(p.obj, off))
        elif op == "load":
            parts = split_top(rest.replace("volatile ", ""))
            t, _ = s.tp.parse(parts[0])
            pt, p = s.typed(env, parts[1])
            setv(s.load(p, t))
        elif op == "store":
            parts = split_top(rest.replace("volatile ", ""))
            t, v = s.typed(env, parts[0])
            pt, p = s.typed(env, parts[1])
            s.store(p, t, v)
        elif op in ("fadd", "fsub", "fmul", "fdiv"):
            rest = re.sub(r"^((fast|nnan|ninf|nsz|arcp|contract|reassoc|afn)\s+)+", "", rest)
            t, r2 = s.tp.parse(rest)
            a, b = [s.val(env, t, x) for x in split_top(r2)]
            if t.kind == "vector":
                setv([s.fbin(x, y, op[1:], t.el.kind) for x, y in zip(a, b)])
            else:
                setv(s.fbin(a, b, op[1:], t.kind))
        elif op == "fneg":
            rest = re.sub(r"^((fast|nnan|ninf|nsz|arcp|contract|reassoc|afn)\s+)+", "", rest)
            t, r2 = s.tp.parse(rest)
            a = s.val(env, t, r2)
            neg = lambda x: -x if isinstance(x, z3.ExprRef) else -P(x)
            setv([neg(x) for x in a] if t.kind == "vector" else neg(a))
        elif op in ("add", "sub", "mul", "shl", "or", "and", "xor", "ashr", "lshr", "sdiv", "srem", "udiv", "urem"):
            rest = re.sub(r"^((nuw|nsw|exact)\s+)+", "", rest)
            t, r2 = s.tp.parse(rest)
            a, b = [s.val(env, t, x) for x in split_top(r2)]
            if isinstance(a, PInt) or isinstance(b, PInt):
                if op == "sub" and isinstance(a, PInt) and isinstance(b, PInt) and a.obj == b.obj:
                    setv(a.off - b.off)
                elif op == "add" and isinstance(a, PInt) and isinstance(b, int):
                    setv(PInt(a.obj, a.off + b))
                elif op == "sub" and isinstance(a, PInt) and isinstance(b, int):
                    setv(PInt(a.obj, a.off - b))
                else:
                    raise EncoderError("pointer arithmetic " + op)
                return None
            if t.kind == "int" and t.bits == 1 and (isinstance(a, z3.ExprRef) or isinstance(b, z3.ExprRef)) and op in ("or", "and", "xor"):
                za = a if isinstance(a, z3.ExprRef) else z3.BoolVal(bool(a))
                zb = b if isinstance(b, z3.ExprRef) else z3.BoolVal(bool(b))
                setv(z3.simplify({"or": z3.Or, "and": z3.And, "xor": z3.Xor}[op](za, zb)))
                return None
            if not (isinstance(a, int) and isinstance(b, int)):
                raise EncoderError("symbolic integer arithmetic")
            bits = t.bits
            ua, ub = a & ((1 << bits) - 1), b & ((1 << bits) - 1)
            F = {"add": _o.add, "sub": _o.sub, "mul": _o.mul, "shl": _o.lshift, "or": _o.or_, "and": _o.and_, "xor": _o.xor, "ashr": _o.rshift,
                 "sdiv": lambda x, y: int(Fraction(x, y)) if y else 0, "srem": lambda x, y: x - y * int(Fraction(x, y)) if y else 0}
            if op == "lshr":
                v = ua >> b
            elif op == "udiv":
                v = ua // ub
            elif op == "urem":
                v = ua % ub
            else:
                v = F[op](a, b)
            v &= (1 << bits) - 1
            if v >= 1 << (bits - 1) and bits > 1:
                v -= 1 << bits
            setv(v)
        elif op in ("sext", "zext", "trunc"):
            a, b = rest.rsplit(" to ", 1)
            t, v = s.typed(env, a)
            t2, _ = s.tp.parse(b)
            if isinstance(v, z3.ExprRef):      # zext i1 of a symbolic comparison
                setv(v)
                return None
            if op == "zext" and v < 0:
                v += 1 << t.bits
            if op == "trunc":
                v &= (1 << t2.bits) - 1
                if v >= 1 << (t2.bits - 1) and t2.bits > 1:
                    v -= 1 << t2.bits
            setv(v)
        elif op in ("sitofp", "uitofp"):
            a, b = rest.rsplit(" to ", 1)
            t, v = s.typed(env, a)
            setv(P(Fraction(v)))      # exact for the small integers that occur
        elif op in ("fptosi", "fptoui"):
            a, b = rest.rsplit(" to ", 1)
            t, v = s.typed(env, a)
            c = conc(v)
            if c is None:
                raise EncoderError("fptosi of a symbolic float")
            setv(int(c))
        elif op in ("fpext", "fptrunc"):
            a, b = rest.rsplit(" to ", 1)
            setv(s.typed(env, a)[1])
        elif op == "ptrtoint":
            a, b = rest.rsplit(" to ", 1)
            t, v = s.typed(env, a)
            setv(PInt(v.obj, v.off))
        elif op == "inttoptr":
            a, b = rest.rsplit(" to ", 1)
            t, v = s.typed(env, a)
            setv(Ptr(v.obj, v.off) if isinstance(v, PInt) else NULL)
        elif op == "icmp":
            pred, _, r2 = rest.partition(" ")
            t, r3 = s.tp.parse(r2)
            a, b = [s.val(env, t, x) for x in split_top(r3)]
            if isinstance(a, (Ptr, PInt)) or isinstance(b, (Ptr, PInt)):
                ka = (a.obj, a.off) if isinstance(a, (Ptr, PInt)) else (None, a)
                kb = (b.obj, b.off) if isinstance(b, (Ptr, PInt)) else (None, b)
                if pred in ("eq", "ne"):
                    setv(int((ka == kb) == (pred == "eq")))
                elif ka[0] == kb[0]:
                    setv(int({"gt": ka[1] > kb[1], "ge": ka[1] >= kb[1], "lt": ka[1] < kb[1], "le": ka[1] <= kb[1]}[pred[1:]]))
                else:
                    raise EncoderError("ordering of unrelated pointers")
                return None
            if isinstance(a, z3.ExprRef) or isinstance(b, z3.ExprRef):
                raise EncoderError("icmp on symbolic value")
            if pred in ("eq", "ne"):
                v = (a == b) == (pred == "eq")
            else:
                if pred[0] == "u":
                    a, b = [x + (1 << t.bits) if x < 0 else x for x in (a, b)]
                v = {"gt": a > b, "ge": a >= b, "lt": a < b, "le": a <= b}[pred[1:]]
            setv(int(v))
        elif op == "fcmp":
            rest = re.sub(r"^((fast|nnan|ninf|nsz|arcp|contract|reassoc|afn)\s+)+", "", rest)
            pred, _, r2 = rest.partition(" ")
            t, r3 = s.tp.parse(r2)
            a, b = [s.val(env, t, x) for x in split_top(r3)]
            if a is NAN or b is NAN:
                if t.kind == "vector":
                    raise EncoderError("NaN inside a vector compare")
                setv(int(pred == "uno" or (pred[0] == "u" and pred != "uno" and pred != "une") or pred == "une"))
                return None
            if pred in ("ord", "uno"):
                setv(int(pred == "ord"))
                return None
            F = {"gt": _o.gt, "ge": _o.ge, "lt": _o.lt, "le": _o.le, "eq": _o.eq, "ne": _o.ne}[pred[1:]]
            one = lambda x, y: F(s.emit(x), s.emit(y)) if (is_symf(x) or is_symf(y)) else int(F(conc(x), conc(y)))
            setv([one(x, y) for x, y in zip(a, b)] if t.kind == "vector" else one(a, b))
        elif op == "select":
            parts = split_top(rest)
            ct, c = s.typed(env, parts[0])
            t, a = s.typed(env, parts[1])
            _, b = s.typed(env, parts[2])

            def sel1(c1, x, y):
                if not isinstance(c1, z3.ExprRef):
                    return x if c1 else y
                if x is NAN or y is NAN:
                    return x if s.decide(c1) else y
                if t.kind not in ("float", "double", "vector") or (t.kind == "vector" and t.el.kind not in ("float", "double")):
                    return x if s.decide(c1) else y
                if isinstance(x, z3.ExprRef) or isinstance(y, z3.ExprRef):
                    return z3.If(c1, s.emit(x), s.emit(y))
                return GP.select(c1, P(x), P(y))
            if t.kind == "vector":
                cs = c if isinstance(c, list) else [c] * t.n
                setv([sel1(ci, x, y) for ci, x, y in zip(cs, a, b)])
            else:
                setv(sel1(c, a, b))
        elif op == "extractelement":
            parts = split_top(rest)
            t, v = s.typed(env, parts[0])
            it, i = s.typed(env, parts[1])
            setv(v[i])
        elif op == "insertelement":
            parts = split_top(rest)
            t, v = s.typed(env, parts[0])
            et, e = s.typed(env, parts[1])
            it, i = s.typed(env, parts[2])
            v = list(v)
            v[i] = e
            setv(v)
        elif op == "shufflevector":
            parts = split_top(rest)
            t, a = s.typed(env, parts[0])
            _, b = s.typed(env, parts[1])
            mt, mrest = s.tp.parse(parts[2])
            mask = s.val(env, mt, mrest)
            both = list(a) + list(b)
            setv([both[i] for i in mask])
        elif op == "extractvalue":
            parts = split_top(rest)
            t, v = s.typed(env, parts[0])
            for ix in parts[1:]:
                v = v[int(ix)]
            setv(v)
        elif op == "insertvalue":
            parts = split_top(rest)
            t, v = s.typed(env, parts[0])
            et, e = s.typed(env, parts[1])
            v = list(v)
            v[int(parts[2])] = e
            setv(v)
        elif op == "br":
            if rest.startswith("label"):
                return ("br", rest.split()[1])
            m = re.match(r"i1 ([^,]+), label (%[\w.$-]+), label (%[\w.$-]+)", rest)
            c = s.val(env, T("int", bits=1), m.group(1))
            if isinstance(c, z3.ExprRef):
                c = s.decide(c)
            return ("br", m.group(2) if c else m.group(3))
        elif op == "switch":
            m = re.match(r"(.*?), label (%[\w.$-]+) \[(.*)\]", rest)
            t, v = s.typed(env, m.group(1))
            for mm in re.finditer(r"i\d+ (-?\d+), label (%[\w.$-]+)", m.group(3)):
                if int(mm.group(1)) == v:
                    return ("br", mm.group(2))
            return ("br", m.group(2))
        elif op == "ret":
            if rest.strip() == "void":
                return ("ret", None)
            return ("ret", s.typed(env, rest)[1])
        elif op == "unreachable":
            return ("stop",)
        elif op == "resume":
            raise EncoderError("exception path reached (resume)")
        elif op in ("call", "invoke"):
            m = re.match(r"(.*?)@([\w.$]+)\((.*)\)(.*)$", rest)
            head = _ATTR.sub("", re.sub(r"\b(fastcc|ccc|fast|nnan|ninf|nsz|arcp|contract|reassoc|afn)\b\s*", "", m.group(1)))
            fn = m.group(2)
            argtxt, tail = m.group(3), m.group(4)
            # the greedy match may have swallowed ") to label ... unwind label ..." of an invoke
            if op == "invoke":
                mi = re.match(r"(.*?)@([\w.$]+)\((.*)\)\s+to label (%[\w.$-]+) unwind label (%[\w.$-]+)", rest)
                fn, argtxt, normal = mi.group(2), mi.group(3), mi.group(4)
            args = [s.typed(env, a)[1] for a in split_top(argtxt)] if argtxt.strip() else []
            r = s.extern(fn, args, depth)
            if r is not _NOTSET:
                setv(r)
            if op == "invoke":
                return ("br", normal)
        elif op in ("landingpad", "cleanupret", "catchret"):
            raise EncoderError("exception path reached (" + op + ")")
        elif op == "fence":
            return None
        else:
            raise EncoderError("unhandled instruction: " + op + " " + rest[:80])
        return None

    # ----- externs and intrinsics
    def extern(s, fn, a, depth):
        if fn.startswith("llvm.lifetime") or fn.startswith("llvm.dbg") or fn in ("llvm.assume", "llvm.experimental.noalias.scope.decl"):
            return _NOTSET
        if fn in ("llvm.round.f32", "roundf", "llvm.round.f64", "round"):
            return s.fround(a[0])
        if fn in ("llvm.floor.f32", "floorf", "llvm.floor.f64", "floor"):
            return s.ffloor(a[0])
        if fn in ("sqrtf", "llvm.sqrt.f32", "sqrt", "llvm.sqrt.f64"):
            return s.fsqrt(a[0], "float" if fn in ("sqrtf", "llvm.sqrt.f32") else "double")
        if fn in ("llvm.fabs.f32", "llvm.fabs.f64", "fabsf", "fabs"):
            c = conc(a[0])
            if c is not None:
                return P(abs(c))
            e = s.emit(a[0])
            return z3.If(e >= 0, e, -e)
        if fn in ("llvm.fmuladd.f32", "llvm.fmuladd.f64", "llvm.fma.f32", "llvm.fma.f64"):
            ty = "float" if fn.endswith("f32") else "double"
            return s.fbin(s.fbin(a[0], a[1], "mul", ty), a[2], "add", ty)
        if fn in ("acosf", "acos", "atan2f", "atan2", "cos", "sin", "cosf", "sinf", "cbrt", "cbrtf", "exp", "expf", "log", "logf"):
            if all(conc(x) is not None for x in a):
                import math
                f = {"acosf": math.acos, "acos": math.acos, "atan2f": math.atan2, "atan2": math.atan2, "cos": math.cos, "sin": math.sin, "cosf": math.cos,
                     "sinf": math.sin, "cbrt": lambda v: math.copysign(abs(v) ** (1 / 3), v), "cbrtf": lambda v: math.copysign(abs(v) ** (1 / 3), v),
                     "exp": math.exp, "expf": math.exp, "log": math.log, "logf": math.log}[fn]
                return P(Fraction(f(*[float(conc(x)) for x in a])))      # numeric evaluation of a CONSTANT (cut, stated)
            return s.fnamed(fn.rstrip("f") if fn not in ("cbrtf",) else "cbrt", a)
        if fn in ("llvm.minnum.f32", "llvm.maxnum.f32", "fminf", "fmaxf", "llvm.minnum.f64", "llvm.maxnum.f64"):
            x, y = s.emit(a[0]), s.emit(a[1])
            return z3.If(x <= y, x, y) if "min" in fn else z3.If(x >= y, x, y)
        if fn.startswith("llvm.ctlz.") or fn.startswith("llvm.cttz."):
            bits = int(fn.rsplit(".i", 1)[1])
            v = a[0] & ((1 << bits) - 1)
            if v == 0:
                return bits
            return (bits - v.bit_length()) if "ctlz" in fn else ((v & -v).bit_length() - 1)
        if fn.startswith(("llvm.smax.", "llvm.smin.", "llvm.umax.", "llvm.umin.")) and all(isinstance(x, int) for x in a[:2]):
            return max(a[0], a[1]) if "max" in fn else min(a[0], a[1])
        if fn.startswith("llvm.abs.") and isinstance(a[0], int):
            return abs(a[0])
        if fn in ("malloc", "_Znwm", "_Znam"):
            p = s.alloc(a[0], "fresh")
            s.heap.append((fn, p.obj, a[0]))
            return p
        if fn == "calloc":
            p = s.alloc(a[0] * a[1], "zero")
            s.heap.append((fn, p.obj, a[0] * a[1]))
            return p
        if fn in ("free", "_ZdlPv", "_ZdaPv"):
            if a[0].obj is not None:
                s.freed.add(a[0].obj)
            return _NOTSET
        if fn.startswith("llvm.memset"):
            p, byte, n = a[0], a[1], a[2]
            if byte != 0:
                raise EncoderError("memset with a non-zero byte")
            cells = s.mem[p.obj]
            for off in [o for o in cells if p.off <= o < p.off + n]:
                del cells[off]
            if s.regions[p.obj]["fill"] != "zero":
                # per-range zero fill: materialise 4-byte zero cells lazily through a sub-region marker
                z = s.regions[p.obj].setdefault("zeroed", [])
                z.append((p.off, p.off + n))
                s._patch_zero_reads()
            return _NOTSET
        if fn.startswith("llvm.memcpy") or fn.startswith("llvm.memmove"):
            d, src, n = a[0], a[1], a[2]
            items = [(o, c) for o, c in s.mem[src.obj].items() if src.off <= o < src.off + n]
            for o in [o for o in s.mem[d.obj] if d.off <= o < d.off + n]:
                del s.mem[d.obj][o]
            for o, c in items:
                s.mem[d.obj][d.off + (o - src.off)] = c
            return _NOTSET
        if fn in ("printf", "puts", "fprintf", "putchar"):
            return 0
        if fn in ("exit", "abort", "_ZSt20__throw_length_errorPKc", "_ZSt17__throw_bad_allocv", "__cxa_throw"):
            raise Infeasible()       # error exits end the path (stated cut)
        if fn in s.stubs:
            return s.stubs[fn](s, a)
        if fn in s.mod.funcs:
            if depth > 50:
                raise EncoderError("call depth")
            r = s.call(fn, a, depth + 1)
            s.trace.append((fn, list(a), r))
            return r
        raise EncoderError("extern " + fn)

    def _patch_zero_reads(s):
        if getattr(s, "_patched", False):
            return
        s._patched = True
        base_load = s.load

        def load(p, t):
            if t.kind in ("int", "float", "double", "ptr") and p.obj is not None and p.obj in s.mem and p.off not in s.mem[p.obj]:
                for lo, hi in s.regions[p.obj].get("zeroed", []):
                    if lo <= p.off and p.off + sizeof(t) <= hi:
                        return NULL if t.kind == "ptr" else (Fraction(0) if t.kind in ("float", "double") else 0)
            return base_load(p, t)
        s.load = load


_NOTSET = object()


def explore(mod, fname, setup, timeout_ms=20000, max_paths=512, exact=False):
    """setup(I) -> (args, ctx).  Yields (I, ctx, ret) for every feasible path; I is valid until the next iteration."""
    work = [[]]
    n = 0
    tot_q = tot_s = 0.0
    while work:
        trail = work.pop()
        I = Interp(mod, timeout_ms, exact)
        I.reset(trail)
        args, ctx = setup(I)
        try:
            ret = I.call(fname, args)
        except Infeasible:
            work.extend(I.new_alts)
            continue
        work.extend(I.new_alts)
        n += 1
        if n > max_paths:
            raise EncoderError("path budget exceeded")
        yield I, ctx, ret


def src_hash(path):
    return hashlib.sha256(open(path, "rb").read()).hexdigest()[:16]
