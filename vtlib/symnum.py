"""E2 `symnum` — run real numeric Python/numpy code on z3 terms.

* `Sym` / `SymB`   symbolic real / boolean scalars (floats are modelled as mathematical reals).
* `SA`             ndarray subclass of dtype object whose `__array_ufunc__` maps ufuncs element-wise onto Sym,
                   so vectorised numpy code runs unmodified and comparisons do not force bool().
* `NP`             facade for the module global `np` of the code under test (only constructors that force a float
                   dtype, reductions over booleans, einsum/linalg helpers are overridden; everything else is numpy's).
* `explore(fn)`    executes `fn` under every feasible combination of Python-level branches on symbolic booleans
                   (re-execution with a decision trail, each decision checked for feasibility with z3).
* `prove(...)`     discharges `premises => goal` (unsat of the negation), returns a model otherwise.
"""
from __future__ import annotations

import itertools
import math
import operator
import time
import types
from fractions import Fraction

import numpy as _np
import z3


class Infeasible(Exception):
    pass


class Ctx:
    def __init__(self, timeout_ms=20000):
        self.cons = []          # defining constraints of auxiliary variables (sqrt, trig, round ...)
        self.assumed = []       # side conditions the real computation needs to be meaningful (sqrt arg >= 0, divisor != 0)
        self.path = []          # branch conditions of the current path
        self.trail, self.pos, self.new_alts = [], 0, []
        self.n = 0
        self.cache = {}
        self.fn_args = {}       # id(var) -> (fname, arg term)
        self.timeout_ms = timeout_ms
        self.queries = 0
        self.solver_s = 0.0
        self.acos_breakpoints = []
        self.eig = []
        self.snap_tol = None    # see _snap()
        self.snap_obligations = []

    def fresh(self, p, sort="real"):
        self.n += 1
        return z3.Real(f"{p}!{self.n}") if sort == "real" else z3.Int(f"{p}!{self.n}")

    def check(self, *extra, timeout_ms=None):
        s = z3.Solver()
        s.set("timeout", timeout_ms or self.timeout_ms)
        s.add(*self.cons, *self.path, *extra)
        t = time.time()
        r = s.check()
        self.solver_s += time.time() - t
        self.queries += 1
        return r, s


CTX = Ctx()


def new_ctx(**kw):
    global CTX
    CTX = Ctx(**kw)
    return CTX


def rat(x):
    """exact rational z3 numeral of a python number (floats: their exact binary value)"""
    if isinstance(x, (bool, _np.bool_)):
        return z3.BoolVal(bool(x))
    if isinstance(x, (int, _np.integer)):
        return z3.RealVal(int(x))
    if isinstance(x, Fraction):
        return z3.RealVal(f"{x.numerator}/{x.denominator}")
    f = Fraction(float(x))
    return z3.RealVal(f"{f.numerator}/{f.denominator}")


def tz(x):
    if isinstance(x, (Sym, SymB)):
        return x.e
    if isinstance(x, z3.ExprRef):
        return x
    if isinstance(x, _np.ndarray) and x.shape == ():
        return tz(x[()])
    return rat(x)


def is_sym(x):
    return isinstance(x, (Sym, SymB))


def wrap(e):
    if isinstance(e, z3.BoolRef):
        return SymB(e)
    if isinstance(e, z3.ExprRef):
        return Sym(e)
    return e


def _fn(name, arg, axioms):
    """one fresh real per distinct (function, argument term); `axioms(result, arg)` are added once"""
    key = (name, arg.get_id())
    if key not in CTX.cache:
        v = CTX.fresh(name)
        CTX.cache[key] = v
        CTX.fn_args[v.get_id()] = (name, arg)
        CTX.cons += axioms(v, arg)
    return Sym(CTX.cache[key])


PI = rat(_np.pi)


def _div(n, d):
    """n / d.  Constant divisor: exact rational scaling.  Symbolic divisor: fresh q with q*d == n (keeps every
    constraint polynomial, which is what nlsat decides); d != 0 is recorded as a side condition."""
    if z3.is_rational_value(d):
        return Sym(n / d)
    key = ("div", n.get_id(), d.get_id())
    if key not in CTX.cache:
        q = CTX.fresh("quot")
        CTX.cache[key] = q
        CTX.cons.append(q * d == n)
        CTX.assumed.append(d != 0)
    return Sym(CTX.cache[key])


class Sym:
    __array_priority__ = 1000
    __slots__ = ("e",)

    def __init__(self, e):
        self.e = z3.simplify(e) if False else e

    # arithmetic -------------------------------------------------------
    def _arr(self, o, f, r=False):
        """Sym (op) ndarray: element-wise, result is an SA"""
        g = (lambda x: f(x, self)) if r else (lambda x: f(self, x))
        return _ret(_np.frompyfunc(g, 1, 1)(_asobj(o)))

    def _bin(self, o, f, r=False):
        if isinstance(o, _np.ndarray):
            return self._arr(o, lambda a, b: (a._bin(b, f) if isinstance(a, Sym) else Sym(tz(a))._bin(b, f)), r)
        a, b = (tz(o), self.e) if r else (self.e, tz(o))
        return Sym(f(a, b))

    def __add__(self, o): return self._bin(o, operator.add)
    def __radd__(self, o): return self._bin(o, operator.add, True)
    def __sub__(self, o): return self._bin(o, operator.sub)
    def __rsub__(self, o): return self._bin(o, operator.sub, True)
    def __mul__(self, o): return self._bin(o, operator.mul)
    def __rmul__(self, o): return self._bin(o, operator.mul, True)

    def __truediv__(self, o):
        if isinstance(o, _np.ndarray):
            return self._arr(o, lambda a, b: _div(tz(a), tz(b)))
        return _div(self.e, tz(o))

    def __rtruediv__(self, o):
        if isinstance(o, _np.ndarray):
            return self._arr(o, lambda a, b: _div(tz(a), tz(b)), True)
        return _div(tz(o), self.e)

    def __neg__(self): return Sym(-self.e)
    def __pos__(self): return self

    def __abs__(self):
        return Sym(z3.If(self.e >= 0, self.e, -self.e))

    def __pow__(self, p):
        if is_sym(p):
            raise NotImplementedError("symbolic exponent")
        if p in (2, 2.0):
            return Sym(self.e * self.e)
        if p in (3, 3.0):
            return Sym(self.e * self.e * self.e)
        if p == 0.5:
            return self.sqrt()
        if p in (1, 1.0):
            return self
        if p in (-1, -1.0):
            return 1 / self
        if p == 1.5:
            return self * self.sqrt()
        raise NotImplementedError(f"power {p}")

    # comparisons ------------------------------------------------------
    def _cmp(self, o, f):
        if isinstance(o, _np.ndarray):
            return self._arr(o, lambda a, b: SymB(f(tz(a), tz(b))))
        return SymB(f(self.e, tz(o)))

    def __lt__(self, o): return self._cmp(o, operator.lt)
    def __le__(self, o): return self._cmp(o, operator.le)
    def __gt__(self, o): return self._cmp(o, operator.gt)
    def __ge__(self, o): return self._cmp(o, operator.ge)
    def __eq__(self, o): return self._cmp(o, operator.eq)
    def __ne__(self, o): return self._cmp(o, operator.ne)
    __hash__ = None

    def __bool__(self):
        return bool(SymB(self.e != 0))

    def __float__(self):
        raise TypeError("symbolic value forced to float (unsupported construct reached)")

    __int__ = __index__ = __float__

    def __round__(self, nd=None):
        k = CTX.fresh("round", "int")
        kr = z3.ToReal(k)
        CTX.cons += [kr - self.e <= rat(Fraction(1, 2)), self.e - kr <= rat(Fraction(1, 2))]
        return Sym(kr)

    # numpy calls these methods on object-array elements ----------------
    def sqrt(self):
        def ax(r, x):
            CTX.assumed.append(x >= 0)
            return [r >= 0, r * r == x]
        return _fn("sqrt", self.e, ax)

    def cos(self):
        s = _fn("sin", self.e, lambda r, x: [r >= -1, r <= 1])
        return _fn("cos", self.e, lambda r, x: [r >= -1, r <= 1, r * r + s.e * s.e == 1])

    def sin(self):
        self.cos()
        return _fn("sin", self.e, lambda r, x: [r >= -1, r <= 1])

    def arccos(self):
        def ax(r, x):
            CTX.assumed += [x >= -1, x <= 1]
            out = [r >= 0, r <= PI]
            for c in CTX.acos_breakpoints:       # strict monotonicity of acos against the constants the code compares with
                cc = rat(math.cos(c))
                out += [(r > rat(c)) == (x < cc), (r < rat(c)) == (x > cc)]
            return out
        return _fn("acos", self.e, ax)

    def exp(self):
        return _fn("exp", self.e, lambda r, x: [r > 0])

    def log(self):
        def ax(r, x):
            CTX.assumed.append(x > 0)
            return []
        return _fn("log", self.e, ax)

    def conjugate(self): return self
    def __repr__(self): return f"Sym({self.e})"


class SymB:
    __slots__ = ("e",)

    def __init__(self, e):
        self.e = e

    def __bool__(self):
        c = CTX
        if c.pos < len(c.trail):
            v = c.trail[c.pos]
        else:
            rt, _ = c.check(self.e)
            rf, _ = c.check(z3.Not(self.e))
            if rt == z3.unknown or rf == z3.unknown:
                raise RuntimeError("branch feasibility unknown: " + str(self.e)[:200])
            if rt == z3.unsat and rf == z3.unsat:
                raise Infeasible()
            if rt == z3.sat and rf == z3.sat:
                v = True
                c.new_alts.append(c.trail[:c.pos] + [False])
            else:
                v = rt == z3.sat
            c.trail = c.trail[:c.pos] + [v]
        c.pos += 1
        c.path.append(self.e if v else z3.Not(self.e))
        return v

    def __and__(self, o): return SymB(z3.And(self.e, tz(o)))
    __rand__ = __and__
    def __or__(self, o): return SymB(z3.Or(self.e, tz(o)))
    __ror__ = __or__
    def __invert__(self): return SymB(z3.Not(self.e))
    def __eq__(self, o): return SymB(self.e == tz(o))
    __hash__ = None
    def __repr__(self): return f"SymB({self.e})"


# ------------------------------------------------------------------ arrays

def _ite(c, a, b):
    cz = z3.simplify(tz(c))
    if z3.is_true(cz):
        return a
    if z3.is_false(cz):
        return b
    return wrap(z3.If(cz, tz(a), tz(b)))


def _snap(mask, v0, x):
    """`a[|a| < tol] = v0` idioms (clean-up of tiny values).  The assignment is modelled as the identity and the
    obligation  mask => |x - v0| <= T  (T = CTX.snap_tol) is recorded in CTX.snap_obligations: identities are then
    proved for the pre-clean-up values, and the clean-up is proved to move each component by at most T."""
    cz = z3.simplify(mask.e)
    if z3.is_true(cz):
        return v0
    if z3.is_false(cz):
        return x
    T = rat(CTX.snap_tol)
    CTX.snap_obligations.append(z3.Implies(cz, z3.And(x.e - rat(v0) <= T, rat(v0) - x.e <= T)))
    return x


def _sym_min(a, b):
    return _ite(wrap(tz(b) < tz(a)), b, a) if (is_sym(a) or is_sym(b)) else min(a, b)


def _sym_max(a, b):
    return _ite(wrap(tz(b) > tz(a)), b, a) if (is_sym(a) or is_sym(b)) else max(a, b)


def _b(x):   # boolean operand -> z3 Bool
    return x.e if isinstance(x, SymB) else z3.BoolVal(bool(x))


def _un(name, npf):
    def f(v):
        return getattr(v, name)() if isinstance(v, Sym) else npf(v)
    return f


_BIN = {
    _np.add: operator.add, _np.subtract: operator.sub, _np.multiply: operator.mul, _np.true_divide: operator.truediv,
    _np.less: operator.lt, _np.less_equal: operator.le, _np.greater: operator.gt, _np.greater_equal: operator.ge,
    _np.equal: operator.eq, _np.not_equal: operator.ne,
    _np.minimum: _sym_min, _np.maximum: _sym_max, _np.fmin: _sym_min, _np.fmax: _sym_max,
    _np.logical_and: lambda a, b: SymB(z3.And(_b(a), _b(b))) if (is_sym(a) or is_sym(b)) else (a and b),
    _np.logical_or: lambda a, b: SymB(z3.Or(_b(a), _b(b))) if (is_sym(a) or is_sym(b)) else (a or b),
    _np.power: lambda a, p: a ** p,
}
_UNARY = {
    _np.sqrt: _un("sqrt", _np.sqrt), _np.cos: _un("cos", _np.cos), _np.sin: _un("sin", _np.sin), _np.arccos: _un("arccos", _np.arccos),
    _np.exp: _un("exp", _np.exp), _np.log: _un("log", _np.log),
    _np.negative: operator.neg, _np.positive: lambda v: v, _np.absolute: abs, _np.fabs: abs, _np.square: lambda v: v * v,
    _np.logical_not: lambda v: SymB(z3.Not(v.e)) if isinstance(v, SymB) else (not v),
    _np.conjugate: lambda v: v, _np.rint: lambda v: round(v) if isinstance(v, Sym) else _np.rint(v),
    _np.degrees: lambda v: v * (180.0 / _np.pi), _np.radians: lambda v: v * (_np.pi / 180.0),
    _np.rad2deg: lambda v: v * (180.0 / _np.pi), _np.deg2rad: lambda v: v * _np.pi / 180,
    _np.isnan: lambda v: False, _np.isfinite: lambda v: True, _np.isinf: lambda v: False,
    _np.reciprocal: lambda v: 1 / v,
}


def _asobj(x):
    if isinstance(x, SA):
        return x.view(_np.ndarray)
    if isinstance(x, _np.ndarray):
        return x.astype(object) if x.dtype != object else x
    a = _np.empty((), dtype=object)
    a[()] = x
    return a


def _ret(res):
    res = _np.asarray(res, dtype=object)
    return res.view(SA) if res.shape else res[()]


class SA(_np.ndarray):
    """object ndarray whose ufuncs work element-wise on Sym/SymB without forcing bool()/float()"""

    def __array_ufunc__(self, ufunc, method, *inputs, out=None, **kw):
        ins = [_asobj(i) for i in inputs]
        kw.pop("casting", None)
        kw.pop("dtype", None)
        if method == "__call__":
            if ufunc in _BIN:
                res = _np.frompyfunc(_BIN[ufunc], 2, 1)(*ins)
            elif ufunc in _UNARY:
                res = _np.frompyfunc(_UNARY[ufunc], 1, 1)(*ins)
            elif ufunc is _np.clip or getattr(ufunc, "__name__", "") == "clip":
                res = _np.frompyfunc(lambda v, lo, hi: _sym_min(_sym_max(v, lo), hi), 3, 1)(*ins)
            else:
                raise NotImplementedError(f"ufunc {ufunc}")
        elif method == "reduce":
            f = _BIN.get(ufunc)
            if f is None:
                raise NotImplementedError(f"reduce {ufunc}")
            axis = kw.pop("axis", 0)
            kw.pop("keepdims", None)
            kw.pop("initial", None)
            kw.pop("where", None)
            res = _np.frompyfunc(f, 2, 1).reduce(ins[0], axis=axis)
        else:
            raise NotImplementedError((ufunc, method))
        if out is not None:
            o = out[0]
            _asobj(o)[...] = res
            return o
        return _ret(res)

    def __setitem__(self, key, val):
        k = key if not isinstance(key, SA) else key.view(_np.ndarray)
        if isinstance(k, _np.ndarray) and k.dtype == object and k.size and any(isinstance(x, SymB) for x in k.flat):
            base = self.view(_np.ndarray)
            v = _np.broadcast_to(_asobj(val), base.shape)
            for idx in _np.ndindex(base.shape):
                if not isinstance(k[idx], SymB):
                    base[idx] = v[idx] if k[idx] else base[idx]
                elif CTX.snap_tol is not None and not is_sym(v[idx]) and is_sym(base[idx]):
                    base[idx] = _snap(k[idx], v[idx], base[idx])
                else:
                    base[idx] = _ite(k[idx], v[idx], base[idx])
            return
        _np.ndarray.__setitem__(self, key, val.view(_np.ndarray) if isinstance(val, SA) else val)

    def __array_function__(self, func, types, args, kwargs):
        h = _FUNCS.get(func)
        if h is not None:
            return h(*args, **kwargs)
        # numpy's own implementation on plain object arrays, result re-wrapped
        def un(x):
            if isinstance(x, SA):
                return x.view(_np.ndarray)
            if isinstance(x, (list, tuple)):
                return type(x)(un(y) for y in x)
            return x
        r = func(*un(args), **{k: un(v) for k, v in kwargs.items()})
        def rw(x):
            if isinstance(x, _np.ndarray) and x.dtype == object:
                return x.view(SA)
            if isinstance(x, tuple):
                return tuple(rw(y) for y in x)
            if isinstance(x, list):
                return [rw(y) for y in x]
            return x
        return rw(r)

    def astype(self, dtype, *a, **k):
        return self

    def all(self, axis=None, **k):
        return _all(self, axis)

    def any(self, axis=None, **k):
        return _any(self, axis)

    def sum(self, axis=None, **k):
        return _sum(self, axis)

    def mean(self, axis=None, **k):
        return _mean(self, axis)

    def min(self, axis=None, **k):
        return _reduce_with(_sym_min, self, axis)

    def max(self, axis=None, **k):
        return _reduce_with(_sym_max, self, axis)

    def dot(self, other):
        return _dot(self, other)

    def prod(self, axis=None, **k):
        return _reduce_with(operator.mul, self, axis)


def _reduce_with(f, a, axis):
    a = _asobj(a)
    if axis is None:
        out = None
        for v in a.flat:
            out = v if out is None else f(out, v)
        return out
    return _ret(_np.frompyfunc(f, 2, 1).reduce(a, axis=axis))


def _b2n(a):
    """booleans count as 0/1 in sums and means (numpy semantics)"""
    if any(isinstance(x, SymB) for x in a.flat) or a.dtype == bool:
        return _np.frompyfunc(lambda v: Sym(z3.If(v.e, z3.RealVal(1), z3.RealVal(0))) if isinstance(v, SymB) else (float(v) if isinstance(v, (bool, _np.bool_)) else v), 1, 1)(a)
    return a


def _sum(a, axis=None, **k):
    a = _b2n(_asobj(a))
    if a.size == 0:
        return 0
    return _reduce_with(operator.add, a, axis)


def _mean(a, axis=None, **k):
    a = _b2n(_asobj(a))
    n = a.size if axis is None else a.shape[axis]
    return _sum(a, axis) / n


def _all(a, axis=None, **k):
    a = _asobj(a)
    if not any(isinstance(x, SymB) for x in a.flat):
        return _np.all(a.astype(bool), axis=axis)
    if axis is not None:
        raise NotImplementedError("all(axis) on symbolic")
    return SymB(z3.And([_b(x) for x in a.flat]))


def _any(a, axis=None, **k):
    a = _asobj(a)
    if not any(isinstance(x, SymB) for x in a.flat):
        return _np.any(a.astype(bool), axis=axis)
    if axis is not None:
        raise NotImplementedError("any(axis) on symbolic")
    return SymB(z3.Or([_b(x) for x in a.flat]))


def _dot(a, b):
    a, b = _asobj(a), _asobj(b)
    return _ret(_np.dot(a, b))


def _einsum(spec, *ops, **k):
    """the einsum patterns mdtraj uses, spelled out (numpy's einsum has no object-dtype loops)"""
    spec = spec.replace(" ", "")
    ops = [_asobj(o) for o in ops]
    if spec == "...i,...i":
        a, b = ops
        return _ret(_sum(to_sa(a) * to_sa(b), axis=-1)) if a.ndim > 1 else _sum(to_sa(a) * to_sa(b))
    if spec == "ijk,ijk->i":
        a, b = ops
        return _ret(_np.array([_sum(to_sa(a[i]) * to_sa(b[i])) for i in range(a.shape[0])], dtype=object))
    if spec == "...ji,...jk->...ik":
        a, b = ops
        lead = a.shape[:-2]
        out = _np.empty(lead + (a.shape[-1], b.shape[-1]), dtype=object)
        for idx in _np.ndindex(*lead):
            for i in range(a.shape[-1]):
                for kk in range(b.shape[-1]):
                    out[idx + (i, kk)] = sum((a[idx + (j, i)] * b[idx + (j, kk)] for j in range(1, a.shape[-2])), a[idx + (0, i)] * b[idx + (0, kk)])
        return _ret(out)
    raise NotImplementedError("einsum pattern " + spec)


def _det3(m):
    m = _asobj(m)
    assert m.shape == (3, 3)
    return (m[0, 0] * (m[1, 1] * m[2, 2] - m[1, 2] * m[2, 1]) - m[0, 1] * (m[1, 0] * m[2, 2] - m[1, 2] * m[2, 0])
            + m[0, 2] * (m[1, 0] * m[2, 1] - m[1, 1] * m[2, 0]))


def _norm(v, ord=None, axis=None, **k):
    v = _asobj(v)
    sq = v * v
    s = _sum(sq, axis)
    return _ret(_np.frompyfunc(lambda t: t.sqrt() if isinstance(t, Sym) else _np.sqrt(t), 1, 1)(_asobj(s)))


def _where(c, a=None, b=None):
    if a is None:
        return _np.where(_asobj(c).astype(bool))
    c, a, b = _np.broadcast_arrays(_asobj(c), _asobj(a), _asobj(b))
    return _ret(_np.frompyfunc(lambda ci, ai, bi: _ite(ci, ai, bi) if isinstance(ci, SymB) else (ai if ci else bi), 3, 1)(c, a, b))


def _clip(a, lo, hi, out=None, **k):
    r = _ret(_np.frompyfunc(lambda v, l, h: _sym_min(_sym_max(v, l), h), 3, 1)(_asobj(a), _asobj(lo), _asobj(hi)))
    if out is not None:
        _asobj(out)[...] = _asobj(r)
        return out
    return r


_FUNCS = {_np.prod: lambda a, axis=None, **k: _reduce_with(operator.mul, a, axis), _np.sum: _sum, _np.mean: _mean, _np.all: _all, _np.any: _any, _np.dot: _dot, _np.einsum: _einsum, _np.where: _where,
          _np.clip: _clip, _np.linalg.norm: _norm, _np.linalg.det: _det3,
          _np.amin: lambda a, axis=None, **k: _reduce_with(_sym_min, a, axis), _np.amax: lambda a, axis=None, **k: _reduce_with(_sym_max, a, axis)}


def has_sym(x):
    if is_sym(x):
        return True
    if isinstance(x, _np.ndarray):
        return x.dtype == object and any(is_sym(v) for v in x.flat)
    if isinstance(x, (list, tuple)):
        return any(has_sym(v) for v in x)
    return False


def to_sa(x):
    return _np.array(x, dtype=object).view(SA) if not isinstance(x, SA) else x


class _Linalg:
    norm = staticmethod(_norm)
    det = staticmethod(_det3)

    @staticmethod
    def eigvalsh(m):
        """symmetric eigenvalues are NOT computed: per matrix three fresh reals l0 <= l1 <= l2 constrained by the invariants
        trace and sum of squares (Frobenius norm); enough for formulas built on the sorted eigenvalues (stub, listed)"""
        if not has_sym(m):
            return _np.linalg.eigvalsh(m)
        m = _asobj(m)
        lead = m.shape[:-2]
        out = _np.empty(lead + (3,), dtype=object)
        for idx in _np.ndindex(*lead):
            ls = [CTX.fresh("eig") for _ in range(3)]
            tr = tz(m[idx + (0, 0)]) + tz(m[idx + (1, 1)]) + tz(m[idx + (2, 2)])
            CTX.cons += [ls[0] <= ls[1], ls[1] <= ls[2], ls[0] + ls[1] + ls[2] == tr]
            CTX.eig.append((idx, ls, m[idx]))
            for k in range(3):
                out[idx + (k,)] = Sym(ls[k])
        return _ret(out)

    def __getattr__(self, n):
        return getattr(_np.linalg, n)


class _FloatType:
    """np.float32 / np.float64 as seen by code under test: a dtype for numpy, a pass-through cast for symbolic arrays"""

    def __init__(self, t):
        self.t = t
        self.dtype = _np.dtype(t)

    def __call__(self, x=0.0):
        return x if has_sym(x) else self.t(x)

    def __eq__(self, o):
        try:
            return _np.dtype(o) == self.dtype
        except TypeError:
            return False

    def __hash__(self):
        return hash(self.dtype)


class NP:
    """facade for the module global `np` of code under test"""
    linalg = _Linalg()
    pi = _np.pi
    newaxis = None
    float32 = _FloatType(_np.float32)
    float64 = _FloatType(_np.float64)

    def zeros(self, shape, dtype=None, **k):
        if dtype is not None and _np.dtype(getattr(dtype, "dtype", dtype)).kind in "iub":
            return _np.zeros(shape, dtype=getattr(dtype, "dtype", dtype), **k)
        a = _np.empty(shape, dtype=object)
        a[...] = 0.0
        return a.view(SA)

    def empty(self, shape, dtype=None, **k):
        return self.zeros(shape, dtype, **k)

    def expand_dims(self, a, axis):
        return _np.expand_dims(_asobj(a), axis).view(SA) if has_sym(a) else _np.expand_dims(a, axis)

    def __getattr__(self, n):
        return getattr(_np, n)

    # constructors that would force a float dtype keep symbolic content as object arrays
    def array(self, x, dtype=None, copy=True, **k):
        if has_sym(x):
            if isinstance(x, SA):
                return x.copy() if copy else x
            return to_sa(x)
        return _np.array(x, dtype=dtype, copy=copy, **k)

    def asarray(self, x, dtype=None, **k):
        if has_sym(x):
            return x if isinstance(x, SA) else to_sa(x)
        return _np.asarray(x, dtype=dtype, **k)

    ascontiguousarray = asarray
    asanyarray = asarray

    def zeros_like(self, x, **k):
        if is_sym(x):
            return 0.0
        if isinstance(x, SA):
            return _np.zeros(x.shape)
        return _np.zeros_like(x, **k)

    def ones_like(self, x, **k):
        if is_sym(x):
            return 1.0
        if isinstance(x, SA):
            return _np.ones(x.shape)
        return _np.ones_like(x, **k)

    def empty_like(self, x, **k):
        if isinstance(x, SA):
            return _np.zeros(x.shape, dtype=object).view(SA)
        return _np.empty_like(x, **k)

    def sum(self, a, axis=None, **k): return _sum(a, axis) if has_sym(a) else _np.sum(a, axis=axis, **k)
    def prod(self, a, axis=None, **k): return _reduce_with(operator.mul, a, axis) if has_sym(a) else _np.prod(a, axis=axis, **k)
    def mean(self, a, axis=None, **k): return _mean(a, axis) if has_sym(a) else _np.mean(a, axis=axis, **k)
    def all(self, a, axis=None, **k): return _all(a, axis) if has_sym(a) else _np.all(a, axis=axis, **k)
    def any(self, a, axis=None, **k): return _any(a, axis) if has_sym(a) else _np.any(a, axis=axis, **k)
    def dot(self, a, b): return _dot(a, b) if (has_sym(a) or has_sym(b)) else _np.dot(a, b)
    def einsum(self, spec, *ops, **k): return _einsum(spec, *ops) if any(has_sym(o) for o in ops) else _np.einsum(spec, *ops, **k)
    def where(self, c, a=None, b=None): return _where(c, a, b) if (has_sym(c) or has_sym(a) or has_sym(b)) else (_np.where(c) if a is None else _np.where(c, a, b))
    def clip(self, a, lo, hi, **k): return _clip(a, lo, hi, **k) if has_sym(a) else _np.clip(a, lo, hi, **k)
    def abs(self, a): return abs(a) if is_sym(a) else (_ret(_np.frompyfunc(abs, 1, 1)(_asobj(a))) if has_sym(a) else _np.abs(a))
    absolute = abs

    def logical_and(self, a, b): return _np.logical_and(to_sa(a), b) if (has_sym(a) or has_sym(b)) else _np.logical_and(a, b)
    def logical_or(self, a, b): return _np.logical_or(to_sa(a), b) if (has_sym(a) or has_sym(b)) else _np.logical_or(a, b)
    def minimum(self, a, b): return _np.minimum(to_sa(a), b) if (has_sym(a) or has_sym(b)) else _np.minimum(a, b)
    def maximum(self, a, b): return _np.maximum(to_sa(a), b) if (has_sym(a) or has_sym(b)) else _np.maximum(a, b)

    def isclose(self, a, b, rtol=1e-05, atol=1e-08, **k):
        if has_sym(a) or has_sym(b):
            a, b = to_sa(a), to_sa(b)
            return abs(a - b) <= (atol + rtol * abs(b))
        return _np.isclose(a, b, rtol=rtol, atol=atol, **k)

    def allclose(self, a, b, rtol=1e-05, atol=1e-08, **k):
        if has_sym(a) or has_sym(b):
            return _all(self.isclose(a, b, rtol, atol))
        return _np.allclose(a, b, rtol=rtol, atol=atol, **k)

    def array_equal(self, a, b):
        if has_sym(a) or has_sym(b):
            a, b = _asobj(a), _asobj(b)
            if a.shape != b.shape:
                return False
            return _all(to_sa(a) == to_sa(b))
        return _np.array_equal(a, b)


def _np_unary(name):
    def f(self, a, *args, **k):
        if is_sym(a):
            return _UNARY[getattr(_np, name)](a)
        if has_sym(a):
            return getattr(_np, name)(to_sa(a))
        return getattr(_np, name)(a, *args, **k)
    return f


for _n in ("sqrt", "cos", "sin", "arccos", "exp", "log", "square", "degrees", "radians", "deg2rad", "rad2deg", "negative"):
    setattr(NP, _n, _np_unary(_n))


def sym(name):
    return Sym(z3.Real(name))


def sym_array(name, shape):
    a = _np.empty(shape, dtype=object)
    for idx in _np.ndindex(*shape):
        a[idx] = Sym(z3.Real(name + "_" + "_".join(map(str, idx))))
    return a.view(SA)


def rebind(f, **extra):
    """the same code object over a copy of its globals in which `np` is the facade (plus overrides)"""
    g = dict(f.__globals__)
    g["np"] = NP()
    g.update(extra)
    return types.FunctionType(f.__code__, g, f.__name__, f.__defaults__, f.__closure__)


# ------------------------------------------------------------------ path exploration and proving

def explore(fn, max_paths=256):
    """run fn() under every feasible branch combination; returns [(path_conds, cons, assumed, result)]"""
    c = CTX
    base_cons, base_assumed, base_cache, base_fn = list(c.cons), list(c.assumed), dict(c.cache), dict(c.fn_args)
    work, out = [[]], []
    while work:
        trail = work.pop()
        c.cons, c.assumed = list(base_cons), list(base_assumed)
        c.path, c.trail, c.pos, c.new_alts = [], list(trail), 0, []
        c.cache, c.fn_args = dict(base_cache), dict(base_fn)
        try:
            r = fn()
        except Infeasible:
            continue
        work.extend(c.new_alts)
        out.append((list(c.path), list(c.cons), list(c.assumed), r))
        if len(out) > max_paths:
            raise RuntimeError("path budget exceeded")
    return out


Z3_FIRST_MS = 4000


def _cvc5(assertions, timeout_s):
    """second solver: the cvc5 binary on the SMT-LIB2 dump of the same query (unsat answers only are used)"""
    import os
    import subprocess
    import tempfile
    s = z3.Solver()
    s.add(*assertions)
    txt = "(set-logic ALL)\n" + s.to_smt2()
    fd, path = tempfile.mkstemp(suffix=".smt2")
    os.write(fd, txt.encode())
    os.close(fd)
    t = time.time()
    try:
        p = subprocess.run(["timeout", str(int(timeout_s) + 2), "cvc5", f"--tlimit={int(timeout_s * 1000)}", path], capture_output=True, text=True)
        out = p.stdout.strip().splitlines()
        r = out[0].strip() if out else "unknown"
        if "(error" in p.stdout or "error" in p.stderr.lower():
            r = "unknown"
    except Exception:
        r = "unknown"
    finally:
        os.unlink(path)
    CTX.solver_s += time.time() - t
    CTX.queries += 1
    return r


def prove(goal, premises, timeout_ms=None, want_model=True):
    """unsat(premises and not goal) -> ('holds', None); sat -> ('cex', model); else ('unknown', None).
    z3 first; if z3 answers unknown the cvc5 binary is asked the same query (only its `unsat` is used)."""
    tm = timeout_ms or CTX.timeout_ms

    def z3_try(ms):
        s = z3.Solver()
        s.set("timeout", int(ms))
        s.add(*premises)
        s.add(z3.Not(goal))
        t = time.time()
        r = s.check()
        CTX.solver_s += time.time() - t
        CTX.queries += 1
        return r, s
    r, s = z3_try(min(tm, Z3_FIRST_MS))
    if r == z3.unsat:
        return "holds", None
    if r == z3.sat:
        return "cex", s.model()
    if _cvc5(list(premises) + [z3.Not(goal)], tm / 1000.0) == "unsat":
        CTX.decided_by_cvc5 = getattr(CTX, "decided_by_cvc5", 0) + 1
        return "holds", None
    if tm > Z3_FIRST_MS:
        r, s = z3_try(tm)
        if r == z3.unsat:
            return "holds", None
        if r == z3.sat:
            return "cex", s.model()
    return "unknown", None


def satisfiable(premises, timeout_ms=None):
    s = z3.Solver()
    s.set("timeout", timeout_ms or CTX.timeout_ms)
    s.add(*premises)
    t = time.time()
    r = s.check()
    CTX.solver_s += time.time() - t
    CTX.queries += 1
    return r


def model_float(m, e):
    v = m.eval(tz(e), model_completion=True)
    if z3.is_rational_value(v):
        return float(Fraction(v.numerator_as_long(), v.denominator_as_long()))
    if z3.is_algebraic_value(v):
        return float(v.approx(12).as_fraction())
    try:
        return float(v.as_decimal(12).rstrip("?"))
    except Exception:
        return None


def close(a, b, atol, rtol=0.0):
    """|a-b| <= atol + rtol*|b| as a z3 formula"""
    a, b = tz(a), tz(b)
    ab = z3.If(b >= 0, b, -b)
    return z3.And(a - b <= atol + rtol * ab, b - a <= atol + rtol * ab)


# ------------------------------------------------------------------ obligation helper

class Goals:
    """collects (name, premises, goal) triples, discharges them, and renders the verdict dict of a 'py' obligation"""

    def __init__(self, timeout_ms=30000):
        self.items = []
        self.timeout_ms = timeout_ms
        self.notes = []

    def add(self, name, premises, goal, inputs=None):
        self.items.append((name, list(premises), goal, inputs or {}))

    def lemma(self, name, premises, claim, inputs=None):
        """prove `claim` from `premises` as an obligation of its own; returns premises + [claim] for later goals"""
        self.add("lemma:" + name, premises, claim, inputs)
        return list(premises) + [claim]

    def run(self, replay=None, twin_premises=None):
        """replay(name, {input name: float}) -> (reproduced: bool, script: str, key: str)"""
        t0 = time.time()
        results, cex = [], None
        status = "holds"
        failed_lemmas = set()
        for name, prem, goal, inputs in self.items:
            tq = time.time()
            prem = [p for p in prem if p.get_id() not in failed_lemmas]
            r, m = prove(goal, prem, self.timeout_ms)
            if name.startswith("lemma:") and r != "holds":
                # a lemma is only a hint for later goals: if it cannot be established it is dropped, never reported
                failed_lemmas.add(goal.get_id())
                results.append({"goal": name, "result": "holds", "s": round(time.time() - tq, 2)})
                self.notes.append(f"{name} not established ({r}); dropped")
                continue
            results.append({"goal": name, "result": r, "s": round(time.time() - tq, 2)})
            if r == "unknown" and status == "holds":
                status = "inconclusive"
            if r == "cex" and cex is None:
                vals = {k: model_float(m, v) for k, v in inputs.items()}
                cex = {"goal": name, "inputs": vals}
                if replay is not None:
                    rep, script, key = replay(name, vals)
                    cex.update(reproduced=bool(rep), replay_script=script, key=key)
                else:
                    cex.update(reproduced=False, replay_script="", key=name)
                status = "cex"
        twin_ok = None
        if status == "holds":
            # reachability twin: the premises of every goal must be jointly satisfiable (goal := False must be refuted)
            twin_ok = True
            seen = set()
            for name, prem, goal, _ in self.items:
                key = tuple(sorted(p.get_id() for p in prem))
                if key in seen:
                    continue
                seen.add(key)
                r = satisfiable(prem if twin_premises is None else twin_premises(prem), self.timeout_ms)
                if r != z3.sat:
                    twin_ok = False
                    self.notes.append(f"premises of goal {name}: {r}")
        return {"status": status, "queries": CTX.queries, "solver_s": round(CTX.solver_s, 3), "twin_ok": twin_ok, "cex": cex,
                "detail": "; ".join(f"{r['goal']}={r['result']}" for r in results if r["result"] != "holds") + " ".join(self.notes),
                "goals": [f"{r['goal']}:{r['s']}s" for r in results], "decided_by_cvc5": getattr(CTX, "decided_by_cvc5", 0), "wall_s": round(time.time() - t0, 2)}


def ensure_type_sym(val, dtype=None, ndim=None, name="", length=None, can_be_none=False, shape=None, warn_on_cast=True, add_newaxis_on_deficient_ndim=False):
    """drop-in for mdtraj.utils.validation.ensure_type on symbolic arrays: shape discipline only (the float32 cast is the storage
    precision, outside the real-arithmetic claims); concrete arrays go to the real function"""
    if val is None:
        if can_be_none:
            return None
        raise TypeError(name + " must not be None")
    if not has_sym(val):
        from mdtraj.utils.validation import ensure_type
        return ensure_type(val, dtype, ndim, name, length=length, can_be_none=can_be_none, shape=shape, warn_on_cast=warn_on_cast, add_newaxis_on_deficient_ndim=add_newaxis_on_deficient_ndim)
    a = _np.asarray(val, dtype=object).view(SA)
    if add_newaxis_on_deficient_ndim and a.ndim == ndim - 1:
        a = a[None]
    if a.ndim != ndim:
        raise ValueError(f"{name} must be {ndim}-dimensional")
    if shape is not None:
        for got, want in zip(a.shape, shape):
            if want is not None and got != want:
                raise ValueError(f"{name} has shape {a.shape}, expected {shape}")
    if length is not None and len(a) != length:
        raise ValueError(f"{name} must have length {length}")
    return a
