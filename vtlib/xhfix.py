"""Imported by every CrossHair harness.

1. Disables CrossHair's probabilistic *short-circuiting* of contract-carrying callees (it replaces e.g.
   builtin hash() by an uninterpreted symbolic int with probability 0.3; a user-level __hash__ that
   forwards it then trips "proxy intolerance" and the path is abandoned as UNKNOWN, so an otherwise
   exhaustible condition is never confirmed).  Always calling into the callee is the precise semantics;
   nothing is assumed by this.
2. Warms mdtraj's unit caches outside tracing (Unit.__hash__ memoises hash(name) on the singleton units).
"""
import crosshair.core as _cc

_orig = _cc.consider_shortcircuit


def _no_shortcircuit(fn, sig, bound, subconditions, allow_interpretation):
    if allow_interpretation:
        return None
    return _orig(fn, sig, bound, subconditions, allow_interpretation)


_cc.consider_shortcircuit = _no_shortcircuit

try:
    from mdtraj.utils.unit import in_units_of as _iu
    for _u in ("nanometers", "angstroms", "picoseconds", "degrees", "kilojoules_per_mole", "kelvin", "dimensionless", "radians"):
        _iu(1.0, _u, _u)
    _iu(1.0, "angstroms", "nanometers")
    _iu(1.0, "nanometers", "angstroms")
    _iu(1.0, "nanometers/picosecond", "nanometers/picosecond")
    _iu(1.0, "degrees", "radians")
except Exception:   # pragma: no cover
    pass


def conc(x, lo=0, hi=12):
    """Concretise a small symbolic int by explicit binary branching (x == v); unlike crosshair.realize this
    gives decision nodes that CrossHair can exhaust.  Values outside [lo, hi] raise (harness bound error)."""
    for v in range(lo, hi + 1):
        if x == v:
            return v
    raise AssertionError("conc: value outside the harness range")
