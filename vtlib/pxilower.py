"""Source-level lowering of a small, loop-and-arithmetic Cython include file (.pxi) to plain Python, regenerated from the repository's
current source on every run.  Only the constructs that occur in mdtraj/geometry/src/image_molecules.pxi are understood; anything else
raises LowerError (the check then ends inconclusive -- never silently passes).

What the lowering does (and therefore what is TRUSTED about Cython's semantics):
  * `cimport`, `from libc...`, and `cdef extern from ...:` blocks are dropped;
  * `cdef void f(T a, T[:,::1] b, ...) nogil:`  ->  `def f(a, b, ...):`   (typed memoryviews index like 2-D arrays);
  * `cdef T a, b, c` declarations are dropped; `cdef T x[3]` becomes `x = UNINIT(3)` (reads before a write are reported by the
    value UNINIT hands out); `cdef T x = e` / `cdef T[:,:] x = e` become `x = e`;
  * `&a[0,0]` / `&a[0]` (address of the first element) becomes `a`; a call `g(..., &o1, &o2, &o3)` whose trailing arguments are
    addresses of scalars becomes `o1, o2, o3 = g(...)`  (out-parameters);
  * C float arithmetic is read as real arithmetic, C int as Python int, `roundf` / `floorf` are supplied by the caller."""
import re


class LowerError(Exception):
    pass


_TYPES = r"(?:unsigned\s+)?(?:int32_t|int64_t|int|float|double|long|bint|size_t)"
_MV = r"(?:\[[:,\s1]*\])?"


def _strip_arg(a):
    a = a.strip()
    m = re.match(rf"^{_TYPES}\s*{_MV}\s*(\w+)$", a)
    if m:
        return m.group(1)
    if re.match(r"^\w+$", a):
        return a
    raise LowerError(f"unsupported parameter declaration: {a!r}")


def lower(src: str) -> str:
    out = []
    lines = src.split("\n")
    i = 0
    while i < len(lines):
        ln = lines[i]
        s = ln.strip()
        ind = ln[: len(ln) - len(ln.lstrip())]
        # multi-line def headers / calls: join until parentheses balance
        if (s.startswith("cdef ") or s.startswith("def ") or "(" in s) and s.count("(") > s.count(")"):
            j = i
            while ln.count("(") > ln.count(")"):
                j += 1
                if j >= len(lines):
                    raise LowerError("unbalanced parentheses")
                ln = ln.rstrip() + " " + lines[j].strip()
            i = j
            s = ln.strip()
        i += 1
        if not s or s.startswith("#"):
            out.append(ln)
            continue
        if s.startswith("cimport ") or re.match(r"^from\s+\S+\s+cimport\s", s):
            continue
        if s.startswith("cdef extern"):
            # drop the indented block
            while i < len(lines) and (not lines[i].strip() or lines[i].startswith((" ", "\t"))):
                i += 1
            continue
        m = re.match(r"^cdef\s+(?:inline\s+)?\w+\s+(\w+)\s*\((.*)\)\s*(?:nogil)?\s*(?:except\s*\S+)?\s*:\s*$", s)
        if m:
            args = [_strip_arg(a) for a in _split_args(m.group(2)) if a.strip()]
            out.append(f"{ind}def {m.group(1)}({', '.join(args)}):")
            continue
        m = re.match(rf"^cdef\s+{_TYPES}\s+(\w+)\s*\[\s*(\d+)\s*\]\s*$", s)
        if m:
            out.append(f"{ind}{m.group(1)} = UNINIT({m.group(2)})")
            continue
        m = re.match(rf"^cdef\s+{_TYPES}\s*{_MV}\s*(\w+)\s*=\s*(.+)$", s)
        if m:
            out.append(f"{ind}{m.group(1)} = {m.group(2)}")
            continue
        if re.match(rf"^cdef\s+{_TYPES}\s*{_MV}\s*\w+(\s*,\s*\w+)*\s*$", s):
            continue
        if s.startswith("cdef "):
            raise LowerError(f"unsupported cdef statement: {s!r}")
        # out-parameter calls
        m = re.match(r"^(\w+)\((.*)\)\s*$", s)
        if m and "&" in m.group(2):
            args = [a.strip() for a in _split_args(m.group(2))]
            outs, ins = [], []
            for a in args:
                ma = re.match(r"^&(\w+)\s*\[\s*0\s*(,\s*0\s*)*\]$", a)
                if ma:
                    ins.append(ma.group(1))
                elif re.match(r"^&\w+$", a):
                    outs.append(a[1:])
                elif "&" in a:
                    raise LowerError(f"unsupported address-of expression: {a!r}")
                else:
                    if outs:
                        raise LowerError("input argument after an out-parameter")
                    ins.append(a)
            lhs = ", ".join(outs)
            out.append(f"{ind}{lhs + ' = ' if outs else ''}{m.group(1)}({', '.join(ins)})")
            continue
        if "&" in s and not re.search(r"\band\b|&&", s):
            raise LowerError(f"unsupported use of '&': {s!r}")
        out.append(ln)
    return "\n".join(out)


def _split_args(s):
    parts, depth, cur = [], 0, ""
    for ch in s:
        if ch in "([":
            depth += 1
        elif ch in ")]":
            depth -= 1
        if ch == "," and depth == 0:
            parts.append(cur)
            cur = ""
        else:
            cur += ch
    if cur.strip():
        parts.append(cur)
    return parts
