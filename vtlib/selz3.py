"""E4 `selz3` — the atom selection language against a reference semantics, decided by z3 over a SYMBOLIC atom.

* `to_z3(astnode)`       translates the Python AST that mdtraj's parse_selection emits into a z3 predicate over one
                         symbolic atom.  Derived attributes (is_protein, is_water, is_backbone, is_sidechain, code,
                         segment_id) are obtained by translating the SOURCE of the real property methods.
* `Ref(expr).pred()`     an independent recursive-descent reading of the documented language (docs/atom_selection.rst):
                         comparison operators bind tighter than `not`, `not` tighter than `and`, `and` tighter than `or`;
                         word / C / FORTRAN spellings are synonyms; range = low <= field <= high; list = membership.
* `equivalent(p, q)`     unsat(p != q) over all atoms of all valid topologies, else a witness atom.
"""
from __future__ import annotations

import ast
import inspect
import re
import textwrap
import time

import z3

from mdtraj.core import element as _elem
from mdtraj.core import residue_names as _rn
from mdtraj.core import topology as _T

S = z3.StringVal
NONE = S("\x00<None>")          # value standing for Python's None where a string-valued attribute may be None


class Unsupported(Exception):
    pass


class Atom:
    """the symbolic atom and the constraints every atom of a real topology satisfies"""

    def __init__(self, tag=""):
        self.name, self.resname, self.segid, self.symbol = (z3.String(n + tag) for n in ("name", "resname", "segment_id", "symbol"))
        self.index, self.resSeq, self.resid, self.chainid, self.n_bonds = (z3.Int(n + tag) for n in ("index", "resSeq", "resid", "chainid", "n_bonds"))
        self.mass = z3.Real("mass" + tag)
        self.prims = {("name",): self.name, ("index",): self.index, ("n_bonds",): self.n_bonds, ("residue", "name"): self.resname,
                      ("residue", "resSeq"): self.resSeq, ("residue", "index"): self.resid, ("residue", "segment_id"): self.segid,
                      ("residue", "chain", "index"): self.chainid, ("element", "symbol"): self.symbol, ("element", "mass"): self.mass}
        els = sorted({(e.symbol, e.mass) for e in _elem.Element._elements_by_symbol.values()})
        self.elements = els
        self.valid = [self.chainid >= 0, self.resid >= self.chainid, self.index >= self.resid, self.index <= 8, self.n_bonds >= 0, self.n_bonds <= 3,
                      self.resSeq >= -20, self.resSeq <= 2000,
                      z3.Or([z3.And(self.symbol == S(s), self.mass == z3.RealVal(repr(float(m)))) for s, m in els]),
                      z3.Length(self.name) <= 4, z3.Length(self.resname) <= 4, z3.Length(self.segid) <= 2]


# ------------------------------------------------------------------ translating real property methods

_CLS = {(): _T.Atom, ("residue",): _T.Residue, ("residue", "chain"): _T.Chain, ("element",): _elem.Element}


def _prop_source(cls, name):
    p = getattr(cls, name, None)
    if not isinstance(p, property):
        raise Unsupported(f"{cls.__name__}.{name} is not a property")
    src = textwrap.dedent(inspect.getsource(p.fget))
    fn = ast.parse(src).body[0]
    body = [st for st in fn.body if not (isinstance(st, ast.Expr) and isinstance(getattr(st, "value", None), ast.Constant))]
    return body, p.fget.__globals__


class Tr:
    def __init__(self, atom: Atom):
        self.a = atom
        self.memo = {}

    # ---- attribute chains
    def attr(self, chain):
        chain = tuple(chain)
        if chain in self.a.prims:
            return self.a.prims[chain]
        if chain in self.memo:
            return self.memo[chain]
        owner, name = chain[:-1], chain[-1]
        if owner not in _CLS:
            raise Unsupported("attribute chain " + ".".join(chain))
        body, glob = _prop_source(_CLS[owner], name)
        val = self.stmts(body, owner, glob)
        self.memo[chain] = val
        return val

    def stmts(self, body, owner, glob):
        st = body[0]
        if isinstance(st, ast.Return):
            return self.expr(st.value, owner, glob)
        if isinstance(st, ast.If):
            c = self.expr(st.test, owner, glob)
            a = self.stmts(st.body, owner, glob)
            b = self.stmts(st.orelse or body[1:], owner, glob)
            return z3.If(c, a, b)
        raise Unsupported("statement " + ast.dump(st)[:80])

    def chain_of(self, n, root):
        out = []
        while isinstance(n, ast.Attribute):
            out.append(n.attr)
            n = n.value
        if not (isinstance(n, ast.Name) and n.id == root):
            raise Unsupported("attribute base " + ast.dump(n)[:60])
        return tuple(reversed(out))

    # ---- expressions inside property bodies (`self` is the object at `owner`)
    def expr(self, n, owner, glob):
        if isinstance(n, ast.BoolOp):
            vs = [self.expr(v, owner, glob) for v in n.values]
            return z3.And(vs) if isinstance(n.op, ast.And) else z3.Or(vs)
        if isinstance(n, ast.UnaryOp) and isinstance(n.op, ast.Not):
            return z3.Not(self.expr(n.operand, owner, glob))
        if isinstance(n, ast.Attribute):
            return self.attr(owner + self.chain_of(n, "self"))
        if isinstance(n, ast.Constant):
            return self.const(n.value)
        if isinstance(n, ast.Compare) and len(n.ops) == 1 and isinstance(n.ops[0], (ast.In, ast.NotIn)):
            left = self.expr(n.left, owner, glob)
            r = z3.Or([left == S(x) for x in sorted(self.container(n.comparators[0], glob))])
            return r if isinstance(n.ops[0], ast.In) else z3.Not(r)
        if isinstance(n, ast.Subscript) and isinstance(n.value, ast.Name):
            table = glob[n.value.id]
            key = self.expr(n.slice, owner, glob)
            out = NONE
            for k, v in sorted(table.items()):
                out = z3.If(key == S(k), self.const(v), out)
            return out
        raise Unsupported("property expression " + ast.dump(n)[:80])

    def container(self, n, glob):
        if isinstance(n, (ast.Set, ast.List, ast.Tuple)):
            return [e.value for e in n.elts]
        if isinstance(n, ast.Name):
            return list(glob[n.id])
        raise Unsupported("container " + ast.dump(n)[:60])

    def const(self, v, like=None):
        if v is None:
            return NONE
        if isinstance(v, bool):
            return z3.BoolVal(v)
        if isinstance(v, str):
            return S(v)
        if isinstance(v, int):
            if like is not None and like.sort() == z3.RealSort():
                return z3.RealVal(v)
            return z3.IntVal(v)
        if isinstance(v, float):
            return z3.RealVal(repr(v))
        raise Unsupported(f"constant {v!r}")

    # ---- the selection AST (root name: atom)
    def sel(self, n):
        if isinstance(n, ast.BoolOp):
            vals = [self.sel(v) for v in n.values]
            if all(z3.is_bool(v) for v in vals):
                return z3.And(vals) if isinstance(n.op, ast.And) else z3.Or(vals)
            # Python's and/or return one of their OPERANDS: `(a and 7) == 7` is True when a is truthy
            res = vals[-1]
            for v in reversed(vals[:-1]):
                a, b = self.unify(v, res)
                res = z3.If(self.truth(v), b, a) if isinstance(n.op, ast.And) else z3.If(self.truth(v), a, b)
            return res
        if isinstance(n, ast.UnaryOp) and isinstance(n.op, ast.Not):
            return z3.Not(self.truth(self.sel(n.operand)))
        if isinstance(n, ast.Attribute):
            return self.attr(self.chain_of(n, "atom"))
        if isinstance(n, ast.Constant):
            return self.const(n.value)
        if isinstance(n, ast.Compare):
            return self.compare(n)
        raise Unsupported("selection node " + ast.dump(n)[:80])

    def unify(self, a, b):
        if a.sort() == b.sort():
            return a, b
        if z3.is_string(a) or z3.is_string(b):
            raise Unsupported("and/or mixing text and numbers as values")
        a, b = self.num(a), self.num(b)
        if z3.is_int(a) and z3.is_real(b):
            a = z3.ToReal(a)
        if z3.is_real(a) and z3.is_int(b):
            b = z3.ToReal(b)
        return a, b

    def truth(self, e):
        """Python truthiness of a translated value"""
        if z3.is_bool(e):
            return e
        if z3.is_int(e) or z3.is_real(e):
            return e != 0
        if z3.is_string(e):
            return z3.And(e != S(""), e != NONE)
        raise Unsupported("truth of " + str(e.sort()))

    def operand(self, n, like=None):
        if isinstance(n, ast.Constant):
            return self.const(n.value, like)
        return self.sel(n)

    def compare(self, n):
        terms = [n.left] + list(n.comparators)
        res = []
        for a, op, b in zip(terms, n.ops, terms[1:]):
            if isinstance(op, (ast.Is, ast.IsNot)):
                if not (isinstance(a, ast.Call) and isinstance(b, ast.Constant) and b.value is None):
                    raise Unsupported("is / is not")
                m = self.re_match(a)
                res.append(m if isinstance(op, ast.IsNot) else z3.Not(m))
                continue
            if isinstance(op, (ast.In, ast.NotIn)):
                l = self.operand(a)
                if not isinstance(b, (ast.List, ast.Tuple, ast.Set)):
                    raise Unsupported("in <non-literal>")
                r = z3.Or([self.eq(l, self.operand(e, l)) for e in b.elts])
                res.append(r if isinstance(op, ast.In) else z3.Not(r))
                continue
            ref = next((self.sel(t) for t in (a, b) if not isinstance(t, ast.Constant)), None)
            l, r = self.operand(a, ref), self.operand(b, ref)
            if isinstance(op, ast.Eq):
                res.append(self.eq(l, r))
            elif isinstance(op, ast.NotEq):
                res.append(z3.Not(self.eq(l, r)))
            else:
                l, r = self.num(l), self.num(r)
                res.append({ast.Lt: l < r, ast.LtE: l <= r, ast.Gt: l > r, ast.GtE: l >= r}[type(op)])
        return z3.And(res) if len(res) > 1 else res[0]

    def num(self, e):
        if z3.is_bool(e):
            return z3.If(e, z3.IntVal(1), z3.IntVal(0))     # Python: True == 1
        if z3.is_int(e) or z3.is_real(e):
            return e
        raise Unsupported("ordering comparison on a non-number (Python raises TypeError here)")

    def eq(self, l, r):
        """Python == across the value kinds that occur (str, int, float, bool, None)"""
        if z3.is_string(l) != z3.is_string(r):
            return z3.BoolVal(False)             # 'CA' == 5 is False in Python
        if z3.is_string(l):
            return l == r
        return self.num(l) == self.num(r)

    def re_match(self, call):
        f = call.func
        if not (isinstance(f, ast.Attribute) and f.attr == "match" and len(call.args) == 2 and isinstance(call.args[0], ast.Constant)
                and isinstance(call.args[0].value, str)):
            raise Unsupported("call " + ast.dump(call)[:80])
        s = self.sel(call.args[1])
        return z3.And(s != NONE, z3.InRe(s, z3.Concat(regex_to_z3(call.args[0].value), z3.Full(z3.ReSort(z3.StringSort())))))


# ------------------------------------------------------------------ regex subset -> z3 Re  (re.match: anchored at the start only)

def regex_to_z3(pat):
    pos = 0

    def peek():
        return pat[pos] if pos < len(pat) else None

    def alt():
        nonlocal pos
        parts = [seq()]
        while peek() == "|":
            pos += 1
            parts.append(seq())
        return parts[0] if len(parts) == 1 else z3.Union(*parts)

    def seq():
        items = []
        while peek() is not None and peek() not in "|)":
            items.append(rep())
        if not items:
            return z3.Re(S(""))
        return items[0] if len(items) == 1 else z3.Concat(*items)

    def rep():
        nonlocal pos
        a = atom()
        while peek() in ("*", "+", "?"):
            c = peek()
            pos += 1
            a = {"*": z3.Star, "+": z3.Plus, "?": z3.Option}[c](a)
        return a

    def atom():
        nonlocal pos
        c = peek()
        pos += 1
        if c == "(":
            r = alt()
            if peek() != ")":
                raise Unsupported("regex: unbalanced group")
            pos += 1
            return r
        if c == ".":
            return z3.AllChar(z3.ReSort(z3.StringSort()))
        if c == "[":
            neg = peek() == "^"
            if neg:
                raise Unsupported("regex: negated class")
            alts = []
            while peek() != "]":
                lo = pat[pos]
                pos += 1
                if peek() == "-" and pos + 1 < len(pat) and pat[pos + 1] != "]":
                    hi = pat[pos + 1]
                    pos += 2
                    alts.append(z3.Range(lo, hi))
                else:
                    alts.append(z3.Re(S(lo)))
            pos += 1
            return alts[0] if len(alts) == 1 else z3.Union(*alts)
        if c in "\\^$*+?{}":
            raise Unsupported("regex construct " + c)
        return z3.Re(S(c))
    r = alt()
    if pos != len(pat):
        raise Unsupported("regex: trailing " + pat[pos:])
    return r


# ------------------------------------------------------------------ reference semantics (from docs/atom_selection.rst)

KEYWORDS = {  # documented keyword table: spelling -> (kind, attribute)
    **{k: ("bool", "all") for k in ("all", "everything")}, **{k: ("bool", "none") for k in ("none", "nothing")},
    **{k: ("bool", "backbone") for k in ("backbone", "is_backbone")}, **{k: ("bool", "sidechain") for k in ("sidechain", "is_sidechain")},
    **{k: ("bool", "protein") for k in ("protein", "is_protein")}, **{k: ("bool", "water") for k in ("water", "is_water", "waters")},
    "name": ("str", "name"), "index": ("int", "index"), "n_bonds": ("int", "n_bonds"),
    **{k: ("str", "symbol") for k in ("type", "element", "symbol")}, "mass": ("float", "mass"),
    **{k: ("int", "resSeq") for k in ("residue", "resSeq")}, **{k: ("int", "resid") for k in ("resid", "resi")},
    **{k: ("str", "resname") for k in ("resname", "resn")}, **{k: ("str", "code") for k in ("rescode", "code", "resc")},
    "chainid": ("int", "chainid"), **{k: ("str", "segid") for k in ("segment_id", "segname")},
}
CMP = {"<": "<", "lt": "<", "<=": "<=", "le": "<=", "==": "==", "eq": "==", "!=": "!=", "ne": "!=", ">=": ">=", "ge": ">=", ">": ">", "gt": ">"}
AND, OR, NOT = ("and", "&&"), ("or", "||"), ("not", "!")
_TOKEN = re.compile(r"\s*(?:(\d+\.\d+|\d+)|('[^']*'|\"[^\"]*\")|(&&|\|\||<=|>=|==|!=|=~|<|>|!|\(|\))|([A-Za-z_][A-Za-z0-9_]*))")


class Reject(Exception):
    pass


class Ref:
    def __init__(self, text, atom: Atom):
        self.a = atom
        self.toks = []
        pos = 0
        text = text.rstrip()
        while pos < len(text):
            m = _TOKEN.match(text, pos)
            if not m:
                raise Reject("bad character at %d" % pos)
            num, quoted, sym, word = m.groups()
            if num is not None:
                self.toks.append(("num", float(num) if "." in num else int(num)))
            elif quoted is not None:
                self.toks.append(("str", quoted[1:-1]))
            elif sym is not None:
                self.toks.append(("sym", sym))
            else:
                self.toks.append(("word", word))
            pos = m.end()
        self.i = 0

    def peek(self):
        return self.toks[self.i] if self.i < len(self.toks) else (None, None)

    def take(self):
        t = self.peek()
        self.i += 1
        return t

    def is_op(self, names):
        k, v = self.peek()
        return k in ("sym", "word") and v in names

    def pred(self):
        if not self.toks:
            raise Reject("empty")
        p = self.or_()
        if self.i != len(self.toks):
            raise Reject("trailing tokens")
        if not z3.is_bool(p):
            raise Reject("not a boolean expression")
        return p

    def or_(self):
        vs = [self.and_()]
        while self.is_op(OR):
            self.take()
            vs.append(self.and_())
        return vs[0] if len(vs) == 1 else z3.Or([self.boolean(v) for v in vs])

    def and_(self):
        vs = [self.not_()]
        while self.is_op(AND):
            self.take()
            vs.append(self.not_())
        return vs[0] if len(vs) == 1 else z3.And([self.boolean(v) for v in vs])

    def not_(self):
        if self.is_op(NOT):
            self.take()
            return z3.Not(self.boolean(self.not_()))
        return self.cmp()

    def boolean(self, v):
        if not z3.is_bool(v):
            raise Reject("a literal or non-boolean field used as a truth value")
        return v

    def cmp(self):
        l = self.primary()
        k, v = self.peek()
        if k in ("sym", "word") and v in CMP:
            self.take()
            r = self.primary()
            return self.relate(l, CMP[v], r)
        if k == "sym" and v == "=~":
            self.take()
            r = self.primary()
            if not (isinstance(l, tuple) and l[0] == "field" and isinstance(r, tuple) and r[0] == "lit" and isinstance(r[1], str)):
                raise Reject("regex needs <field> =~ <string>")
            s = self.field(l[1])
            if not z3.is_string(s):
                raise Reject("regex on a non-string field")
            return z3.And(s != NONE, z3.InRe(s, z3.Concat(regex_to_z3(r[1]), z3.Full(z3.ReSort(z3.StringSort())))))
        if isinstance(l, tuple):
            if l[0] == "field" and KEYWORDS[l[1]][0] == "bool":
                return self.field(l[1])
            raise Reject("bare literal / non-boolean field")
        return l

    def primary(self):
        k, v = self.take()
        if k == "sym" and v == "(":
            p = self.or_()
            if self.take() != ("sym", ")"):
                raise Reject("unbalanced parenthesis")
            return p
        if k == "word" and v in KEYWORDS and KEYWORDS[v][0] != "bool":
            lits = []
            while self.peek()[0] in ("num", "str") or (self.peek()[0] == "word" and self.peek()[1] not in KEYWORDS and self.peek()[1] not in CMP
                                                        and self.peek()[1] not in AND + OR + NOT + ("to",)):
                lits.append(self.take()[1])
            if len(lits) == 1 and self.peek() == ("word", "to"):
                self.take()
                kk, hi = self.take()
                if kk not in ("num", "str", "word"):
                    raise Reject("range needs two literals")
                f = self.field(v)
                return z3.And(self.relate(("lit", lits[0]), "<=", ("field", v)), self.relate(("field", v), "<=", ("lit", hi)))
            if lits:
                f = self.field(v)
                return z3.Or([self.relate(("field", v), "==", ("lit", x)) for x in lits])
            return ("field", v)
        if k == "word" and v in KEYWORDS:
            return ("field", v)
        if k in ("num", "str"):
            return ("lit", v)
        if k == "word" and v not in CMP and v not in AND + OR + NOT + ("to",):
            return ("lit", v)
        raise Reject(f"unexpected token {v!r}")

    def field(self, kw):
        a = self.a
        attr = KEYWORDS[kw][1]
        protein = z3.Or([a.resname == S(x) for x in sorted(_rn._PROTEIN_RESIDUES)])
        bb = z3.Or([a.name == S(x) for x in ("N", "CA", "C", "O")])
        if attr == "all":
            return z3.BoolVal(True)
        if attr == "none":
            return z3.BoolVal(False)
        if attr == "protein":
            return protein
        if attr == "water":
            return z3.Or([a.resname == S(x) for x in sorted(_rn._WATER_RESIDUES)])
        if attr == "backbone":
            return z3.And(bb, protein)
        if attr == "sidechain":
            return z3.And(protein, z3.Not(z3.Or(bb, a.name == S("HA"), a.name == S("H"))))
        if attr == "code":
            out = NONE
            for k3, v1 in sorted(_rn._AMINO_ACID_CODES.items()):
                if k3 in _rn._PROTEIN_RESIDUES:
                    out = z3.If(a.resname == S(k3), S(v1) if v1 is not None else NONE, out)
            return out
        return {"name": a.name, "index": a.index, "n_bonds": a.n_bonds, "symbol": a.symbol, "mass": a.mass, "resSeq": a.resSeq,
                "resid": a.resid, "resname": a.resname, "chainid": a.chainid, "segid": a.segid}[attr]

    def value(self, x, like=None):
        kind, v = x
        if kind == "field":
            return self.field(v)
        if isinstance(v, str):
            return S(v)
        if isinstance(v, float) or (like is not None and z3.is_real(like)):
            return z3.RealVal(repr(v))
        return z3.IntVal(v)

    def relate(self, l, op, r):
        if not (isinstance(l, tuple) and isinstance(r, tuple)):
            raise Reject("comparison of boolean sub-expressions")
        if l[0] == "lit" and r[0] == "lit":
            raise Reject("comparison of two literals")
        ref = self.field(l[1]) if l[0] == "field" else self.field(r[1])
        a, b = self.value(l, ref), self.value(r, ref)
        if z3.is_bool(a) or z3.is_bool(b):
            raise Reject("comparison on a boolean keyword")
        if z3.is_string(a) != z3.is_string(b):
            if op in ("==", "!="):
                return z3.BoolVal(op == "!=")
            raise Reject("ordering between text and number")
        if z3.is_string(a) and op not in ("==", "!="):
            raise Reject("ordering on text is outside the reference subset")
        if z3.is_int(a) and z3.is_real(b):
            a = z3.ToReal(a)
        if z3.is_real(a) and z3.is_int(b):
            b = z3.ToReal(b)
        return {"<": a < b, "<=": a <= b, "==": a == b, "!=": a != b, ">=": a >= b, ">": a > b}[op]


# ------------------------------------------------------------------ queries

class Checker:
    def __init__(self, timeout_ms=20000):
        self.atom = Atom()
        self.tr = Tr(self.atom)
        self.solver = z3.Solver()
        self.solver.set("timeout", timeout_ms)
        self.solver.add(*self.atom.valid)
        self.queries = 0
        self.solver_s = 0.0

    def equivalent(self, p, q):
        self.solver.push()
        self.solver.add(p != q)
        t = time.time()
        r = self.solver.check()
        self.solver_s += time.time() - t
        self.queries += 1
        w = None
        if r == z3.sat:
            m = self.solver.model()
            a = self.atom
            ev = lambda x: m.eval(x, model_completion=True)
            w = {"name": ev(a.name).as_string(), "resname": ev(a.resname).as_string(), "segment_id": ev(a.segid).as_string(),
                 "symbol": ev(a.symbol).as_string(), "index": ev(a.index).as_long(), "resSeq": ev(a.resSeq).as_long(),
                 "resid": ev(a.resid).as_long(), "chainid": ev(a.chainid).as_long(), "n_bonds": ev(a.n_bonds).as_long()}
        self.solver.pop()
        return str(r), w

    def reachable(self, p):
        """some valid atom is selected and some is not (used by the vacuity twin on a sample of expressions)"""
        out = []
        for f in (p, z3.Not(p)):
            self.solver.push()
            self.solver.add(f)
            out.append(str(self.solver.check()))
            self.queries += 1
            self.solver.pop()
        return out
