"""E5 cxxsym — symbolic execution of C++ SOURCE through clang's JSON AST.

For rule code written against the standard containers (mdtraj/geometry/src/dssp.cpp: std::vector / deque / map, iterators, sort) the LLVM IR is
dominated by libstdc++ internals (allocators, red-black tree rebalancing in a shared library) that the IR interpreter (llsym) cannot enter.
This engine works one level higher:

  clang++ -fsyntax-only -Xclang -ast-dump=json -Xclang -ast-dump-filter=<name>      the compiler's own AST of the CURRENT source, per declaration
  Lower                   AST -> Python source, statement by statement (every node kind that is not handled raises LowerError: nothing is skipped)
  runtime                 Vec / Deque / Map / Iter / Ptr: the container operations the source uses, with C++ value semantics (copies on
                          push_back and copy construction), iterators as (container, position)
  SInt / SBool / SReal    z3 terms; a branch on a symbolic condition FORKS the path (both sides explored when the incremental solver finds both
                          feasible); `summarise` explores a side-effect-free callee completely and hands its result back as ONE ite-term, so
                          leaf predicates do not multiply the caller's paths

What is modelled rather than executed: the containers (by the classes below: std::sort as a stable sort), fvec4 / dot3 of vectorize.h, libm
(sqrtf: s >= 0, s*s = x;  acosf: an object that can only be compared with a constant, acos(c) > K  <=>  c < cos K)."""
import copy as _copy
import functools
import json
import keyword
import subprocess
import time
from fractions import Fraction

import z3


class LowerError(Exception):
    pass


class Unsupported(Exception):
    pass


# ---------------------------------------------------------------------------------------------------------------- AST

def _load_multi(s):
    dec, i, out = json.JSONDecoder(), 0, []
    while i < len(s):
        while i < len(s) and s[i].isspace():
            i += 1
        if i >= len(s):
            break
        o, i = dec.raw_decode(s, i)
        out.append(o)
    return out


def load_decls(src, names, includes=(), clang="clang++-14"):
    """{name: decl} for function definitions / records / enums called `names` in src (a definition with a body wins over a declaration)"""
    out = {}
    for name in names:
        cmd = [clang, "-fsyntax-only", "-Xclang", "-ast-dump=json", "-Xclang", "-ast-dump-filter=" + name] + ["-I" + i for i in includes] + [str(src)]
        r = subprocess.run(cmd, capture_output=True, text=True)
        if r.returncode != 0 and not r.stdout:
            raise LowerError("clang failed: " + r.stderr[-400:])
        for d in _load_multi(r.stdout):
            if d.get("name") != name:
                continue
            k = d.get("kind")
            if k == "FunctionDecl" and any(c.get("kind") == "CompoundStmt" for c in d.get("inner", [])):
                out[name] = d
            elif k in ("CXXRecordDecl", "EnumDecl") and d.get("inner") and d.get("completeDefinition", k == "EnumDecl"):
                out[name] = d
        if name not in out:
            raise LowerError(f"no definition of {name} in {src}")
    return out


_PYNAMES = set(keyword.kwlist) | {"copy", "len", "range", "print"}


def _id(n):
    return n + "_" if n in _PYNAMES else n


class Lower:
    """clang JSON AST -> Python source"""

    def __init__(self, enums=None, conc_records=()):
        self.enums = dict(enums or {})
        self.conc_records = set(conc_records)     # records whose integer fields are made concrete (case split) on construction
        self.plain_structs = set()                # C structs used by value / through a pointer: a bag of fields
        self.tmp = 0
        self.kinds = set()

    # ---- declarations
    def enum(self, d):
        v = -1
        for c in d.get("inner", []):
            if c.get("kind") != "EnumConstantDecl":
                continue
            val = None
            for cc in c.get("inner", []):
                if cc.get("kind") == "ConstantExpr" and "value" in cc:
                    val = int(cc["value"])
            v = val if val is not None else v + 1
            self.enums[c["name"]] = v

    def function(self, d, name=None):
        params = [_id(c["name"]) for c in d.get("inner", []) if c.get("kind") == "ParmVarDecl"]
        body = [c for c in d["inner"] if c.get("kind") == "CompoundStmt"][0]
        lines = [f"def {name or _id(d['name'])}({', '.join(params)}):"]
        lines += self.block(body, 1) or ["    pass"]
        return "\n".join(lines)

    def record(self, d):
        fields = [(c["name"], c["type"]["qualType"]) for c in d.get("inner", []) if c.get("kind") == "FieldDecl"]
        out = [f"class {d['name']}(Record):", f"    _fields = {tuple(_id(f) for f, _ in fields)!r}"]
        ctors = []
        for c in d.get("inner", []):
            k = c.get("kind")
            if k == "CXXConstructorDecl" and not c.get("isImplicit"):
                params = [_id(p["name"]) for p in c.get("inner", []) if p.get("kind") == "ParmVarDecl"]
                ctors.append(len(params))
                out.append(f"    def _init_{len(params)}(self, {', '.join(params)}):" if params else "    def _init_0(self):")
                inits = {}
                for ci in c.get("inner", []):
                    if ci.get("kind") == "CXXCtorInitializer":
                        inits[ci["anyInit"]["name"]] = self.expr(ci["inner"][0])
                for f, t in fields:
                    out.append(f"        self.{_id(f)} = {inits.get(f, self.default(t))}")
                    if d["name"] in self.conc_records:
                        out.append(f"        self.{_id(f)} = CONC(self.{_id(f)})")
                body = [x for x in c.get("inner", []) if x.get("kind") == "CompoundStmt"]
                if body:
                    out += ["    " + l for l in self.block(body[0], 1)]
            elif k == "CXXMethodDecl" and not c.get("isImplicit"):
                nm = {"operator<": "__lt__"}.get(c["name"], _id(c["name"]))
                if nm.startswith("operator"):
                    raise LowerError("method " + c["name"])
                params = [_id(p["name"]) for p in c.get("inner", []) if p.get("kind") == "ParmVarDecl"]
                out.append(f"    def {nm}(self{''.join(', ' + p for p in params)}):")
                body = [x for x in c.get("inner", []) if x.get("kind") == "CompoundStmt"]
                if not body:
                    raise LowerError("method without a body: " + c["name"])
                out += ["    " + l for l in (self.block(body[0], 1) or ["    pass"])]
            elif k in ("FieldDecl", "CXXRecordDecl", "CXXConstructorDecl", "CXXDestructorDecl", "CXXMethodDecl", "FullComment", "AccessSpecDecl", "DefinitionData"):
                continue
            else:
                raise LowerError("record member " + str(k))
        if ctors:
            out.append("    def __init__(self, *a):")
            out.append("        getattr(self, '_init_%d' % len(a))(*a)")
        return "\n".join(out)

    @staticmethod
    def norm_t(t):
        t = t.replace("const ", "").strip()
        for c in ("vector", "deque", "map", "pair"):
            if t.startswith(c + "<"):
                t = "std::" + t
        return t

    def default(self, t):
        t = self.norm_t(t)
        if t.startswith("std::vector"):
            return "Vec()"
        if t.startswith("std::deque"):
            return "Deque()"
        if t.startswith("std::map"):
            return "Map()"
        if t in ("int", "float", "double", "bool", "char") or t.endswith("_t"):
            return "UNINIT"
        if "(&)" in t or t.endswith("&"):
            return "UNINIT"
        import re
        m = re.match(r"^(.*?)\s*\[(\d+)\](.*)$", t)
        if m:
            inner = (m.group(1) + m.group(3)).strip()
            return f"[{self.default(inner)} for _ in range({m.group(2)})]"
        if t == "fvec4":
            return "CALL('fvec4', 0, 0, 0, 0)"
        if t in self.plain_structs:
            return "Struct()"
        raise LowerError("default construction of " + t)

    def elem_default(self, t):
        """default element of std::vector<T> (for resize / sized construction)"""
        t = t.replace("const ", "").strip().rstrip("&").strip()
        t = t.replace("class ", "").replace("struct ", "")
        if t.startswith("std::vector<") or t.startswith("vector<"):
            inner = t[t.index("<") + 1:t.rindex(">")].strip()
            if "," in inner and not inner.startswith(("std::vector", "vector", "std::pair", "pair")):
                inner = inner.split(",")[0].strip()
            if inner.startswith(("std::vector", "vector")):
                return "Vec()"
            if inner.startswith(("std::pair", "pair")):
                return "None"
            return "0"
        return "0"

    # ---- statements
    def block(self, n, ind):
        out = []
        for c in (n.get("inner", []) if n.get("kind") == "CompoundStmt" else [n]):
            out += self.stmt(c, ind)
        return out

    def stmt(self, n, ind):
        P = "    " * ind
        k = n.get("kind")
        self.kinds.add(k)
        if k == "CompoundStmt":
            return self.block(n, ind) or [P + "pass"]
        if k == "NullStmt":
            return [P + "pass"]
        if k == "DeclStmt":
            out = []
            for v in n["inner"]:
                if v.get("kind") != "VarDecl":
                    raise LowerError("declaration " + str(v.get("kind")))
                init = [c for c in v.get("inner", []) if c.get("kind") not in ("FullComment",)]
                out.append(P + f"{_id(v['name'])} = " + (self.expr(init[0]) if init else self.default(v["type"]["qualType"])))
            return out
        if k == "IfStmt":
            inner = n["inner"]
            out = [P + f"if {self.expr(inner[0])}:"] + (self.block(inner[1], ind + 1) or [P + "    pass"])
            if len(inner) > 2:
                out += [P + "else:"] + (self.block(inner[2], ind + 1) or [P + "    pass"])
            return out
        if k == "ForStmt":
            init, _condvar, cond, inc, body = n["inner"]
            self.tmp += 1
            f = f"_first{self.tmp}"
            out = (self.stmt(init, ind) if init else []) + [P + f"{f} = True", P + "while True:"]
            if inc:
                out += [P + f"    if not {f}:"] + self.stmt(inc, ind + 2)
            out += [P + f"    {f} = False"]
            if cond:
                out += [P + f"    if not ({self.expr(cond)}):", P + "        break"]
            out += self.block(body, ind + 1)
            return out
        if k == "WhileStmt":
            cond, body = n["inner"][-2], n["inner"][-1]
            return [P + f"while {self.expr(cond)}:"] + (self.block(body, ind + 1) or [P + "    pass"])
        if k and k.startswith("OMP") and k.endswith("Directive"):
            def find(x):
                if isinstance(x, dict):
                    if x.get("kind") == "ForStmt":
                        return x
                    for c in x.get("inner", []):
                        r = find(c)
                        if r:
                            return r
                return None
            f = find(n)
            if not f:
                raise LowerError("OpenMP directive without a loop")
            return [P + "# (OpenMP directive: iterations executed in order)"] + self.stmt(f, ind)
        if k == "ReturnStmt":
            return [P + "return" + (" " + self.expr(n["inner"][0]) if n.get("inner") else "")]
        if k == "BreakStmt":
            return [P + "break"]
        if k == "ContinueStmt":
            return [P + "continue"]
        if k == "SwitchStmt":
            cond, body = n["inner"][-2], n["inner"][-1]
            self.tmp += 1
            v = f"_sw{self.tmp}"
            out = [P + f"{v} = {self.expr(cond)}"]
            items = body.get("inner", [])
            i, first = 0, True
            while i < len(items):
                c = items[i]
                if c.get("kind") != "CaseStmt":
                    raise LowerError("switch body: " + str(c.get("kind")))
                val = self.expr(c["inner"][0])
                stmts = [c["inner"][1]]
                i += 1
                while i < len(items) and items[i].get("kind") not in ("CaseStmt", "BreakStmt"):
                    stmts.append(items[i])
                    i += 1
                if i >= len(items) or items[i].get("kind") != "BreakStmt":
                    raise LowerError("case without break (fall-through is not lowered)")
                i += 1
                out.append(P + ("if" if first else "elif") + f" {v} == {val}:")
                first = False
                for s in stmts:
                    out += self.stmt(s, ind + 1)
            return out
        if k in ("ExprWithCleanups",) and n.get("inner"):
            return self.stmt(n["inner"][0], ind)
        # expression statements
        if k == "BinaryOperator" and n.get("opcode") == "=":
            rhs = self.strip(n["inner"][1])
            if rhs.get("kind") == "BinaryOperator" and rhs.get("opcode") == "=":          # a = b = c
                return self.stmt(rhs, ind) + [P + self.assign(n["inner"][0], self.expr(rhs["inner"][0]))]
            return [P + self.assign(n["inner"][0], self.expr(n["inner"][1]))]
        if k == "CompoundAssignOperator":
            op = n["opcode"][:-1]
            return [P + self.assign(n["inner"][0], f"({self.expr(n['inner'][0])} {op} {self.expr(n['inner'][1])})")]
        if k == "UnaryOperator" and n.get("opcode") in ("++", "--"):
            return [P + self.assign(n["inner"][0], f"({self.expr(n['inner'][0])} {n['opcode'][0]} 1)")]
        if k == "CXXOperatorCallExpr" and self.opname(n) in ("operator++", "operator--"):
            a = n["inner"][1]
            return [P + self.assign(a, f"({self.expr(a)} {self.opname(n)[-1]} 1)")]
        if k == "CXXOperatorCallExpr" and self.opname(n) in ("operator-=", "operator+=", "operator*="):
            a = n["inner"][1]
            return [P + self.assign(a, f"({self.expr(a)} {self.opname(n)[8]} {self.expr(n['inner'][2])})")]
        if k == "CXXOperatorCallExpr" and self.opname(n) == "operator=":
            return [P + self.assign(n["inner"][1], f"COPY({self.expr(n['inner'][2])})")]
        if k in ("CXXMemberCallExpr", "CallExpr"):
            return [P + self.expr(n)]
        raise LowerError("statement " + str(k) + " " + str(n.get("opcode", "")))

    # ---- expressions
    def opname(self, n):
        c = n["inner"][0]
        while c.get("kind") == "ImplicitCastExpr":
            c = c["inner"][0]
        return c["referencedDecl"]["name"]

    def strip(self, n):
        while n.get("kind") in ("ImplicitCastExpr", "ParenExpr", "MaterializeTemporaryExpr", "ExprWithCleanups", "CXXBindTemporaryExpr", "ConstantExpr", "CStyleCastExpr", "CXXStaticCastExpr", "CXXFunctionalCastExpr") and n.get("inner"):
            n = n["inner"][0]
        return n

    def assign(self, lhs, rhs):
        l = self.strip(lhs)
        k = l.get("kind")
        if k == "DeclRefExpr":
            return f"{_id(l['referencedDecl']['name'])} = {rhs}"
        if k == "MemberExpr":
            return f"{self.expr(l['inner'][0])}.{_id(l['name'])} = {rhs}"
        if k == "ArraySubscriptExpr":
            return f"SET({self.expr(l['inner'][0])}, {self.expr(l['inner'][1])}, {rhs})"
        if k == "CXXOperatorCallExpr" and self.opname(l) == "operator[]":
            return f"SET({self.expr(l['inner'][1])}, {self.expr(l['inner'][2])}, {rhs})"
        raise LowerError("assignment to " + str(k))

    def expr(self, n):
        k = n.get("kind")
        self.kinds.add(k)
        t = n.get("type", {}).get("qualType", "")
        if k in ("ParenExpr",):
            return "(" + self.expr(n["inner"][0]) + ")"
        if k in ("MaterializeTemporaryExpr", "ExprWithCleanups", "CXXBindTemporaryExpr", "ConstantExpr"):
            return self.expr(n["inner"][0])
        if k in ("ImplicitCastExpr", "CStyleCastExpr", "CXXStaticCastExpr", "CXXFunctionalCastExpr"):
            ck = n.get("castKind")
            e = self.expr(n["inner"][0])
            if ck in ("FloatingToIntegral",):
                return f"F2I({e})"
            if ck in ("LValueToRValue", "NoOp", "IntegralCast", "FunctionToPointerDecay", "ArrayToPointerDecay", "IntegralToBoolean", "IntegralToFloating", "FloatingCast", "ConstructorConversion",
                      "UncheckedDerivedToBase", "DerivedToBase", "BuiltinFnToFnPtr", "FloatingToBoolean", "PointerToBoolean", "NullToPointer"):
                return e
            raise LowerError("cast " + str(ck))
        if k == "IntegerLiteral":
            return str(int(n["value"]))
        if k == "CharacterLiteral":
            return str(int(n["value"]))
        if k == "FloatingLiteral":
            return f"FLT({n['value']!r})"
        if k == "CXXBoolLiteralExpr":
            return "True" if n["value"] else "False"
        if k == "DeclRefExpr":
            rd = n["referencedDecl"]
            if rd.get("kind") == "EnumConstantDecl":
                if rd["name"] not in self.enums:
                    raise LowerError("enum constant " + rd["name"])
                return str(self.enums[rd["name"]])
            return _id(rd["name"])
        if k == "CXXThisExpr":
            return "self"
        if k in ("GNUNullExpr", "CXXNullPtrLiteralExpr"):
            return "None"
        if k == "MemberExpr":
            return f"{self.expr(n['inner'][0])}.{_id(n['name'])}"
        if k == "ArraySubscriptExpr":
            return f"IDX({self.expr(n['inner'][0])}, {self.expr(n['inner'][1])})"
        if k == "ConditionalOperator":
            c, a, b = n["inner"]
            return f"({self.expr(a)} if {self.expr(c)} else {self.expr(b)})"
        if k == "UnaryOperator":
            op = n["opcode"]
            a = n["inner"][0]
            if op == "!":
                return f"NOT({self.expr(a)})"
            if op == "-":
                return f"(-{self.expr(a)})"
            if op == "+":
                return self.expr(a)
            if op == "&":
                s = self.strip(a)
                if s.get("kind") == "CXXOperatorCallExpr" and self.opname(s) == "operator[]":
                    return f"ADDR({self.expr(s['inner'][1])}, {self.expr(s['inner'][2])})"
                if s.get("kind") == "ArraySubscriptExpr":
                    return f"ADDR({self.expr(s['inner'][0])}, {self.expr(s['inner'][1])})"
                if s.get("kind") == "DeclRefExpr" and self.norm_t(s.get("type", {}).get("qualType", "")) in self.plain_structs:
                    return self.expr(s)                 # pointer to a struct variable: the object itself
                raise LowerError("address of " + str(s.get("kind")))
            if op == "*":
                return f"IDX({self.expr(a)}, 0)"
            raise LowerError("unary " + op + " in an expression")
        if k == "BinaryOperator":
            op = n["opcode"]
            a, b = self.expr(n["inner"][0]), self.expr(n["inner"][1])
            if op == "&&":
                return f"({a} and {b})"
            if op == "||":
                return f"({a} or {b})"
            if op in ("+", "-", "*", "<", "<=", ">", ">=", "==", "!="):
                return f"({a} {op} {b})"
            if op == "/":
                isint = t in ("int", "long", "unsigned int", "unsigned long", "size_t")
                return f"IDIV({a}, {b})" if isint else f"FDIV({a}, {b})"
            if op == "%":
                return f"IMOD({a}, {b})"
            raise LowerError("binary " + op + " in an expression")
        if k == "CallExpr":
            callee = self.strip(n["inner"][0])
            if callee.get("kind") != "DeclRefExpr":
                raise LowerError("indirect call")
            name = callee["referencedDecl"]["name"]
            args = [self.expr(a) for a in n["inner"][1:] if a.get("kind") != "CXXDefaultArgExpr"]
            return f"CALL({name!r}, {', '.join(args)})"
        if k == "CXXMemberCallExpr":
            m = n["inner"][0]
            if m.get("kind") != "MemberExpr":
                raise LowerError("member call through " + str(m.get("kind")))
            args = [self.expr(a) for a in n["inner"][1:] if a.get("kind") != "CXXDefaultArgExpr"]
            if m["name"] == "resize" and len(args) == 1:
                ty = m["inner"][0].get("type", {})
                args.append("lambda: " + self.elem_default(ty.get("desugaredQualType", ty.get("qualType", ""))))
            return f"{self.expr(m['inner'][0])}.{_id(m['name'])}({', '.join(args)})"
        if k == "CXXOperatorCallExpr":
            op = self.opname(n)
            args = [self.expr(a) for a in n["inner"][1:]]
            if op == "operator[]":
                return f"IDX({args[0]}, {args[1]})"
            if op == "operator->" or (op == "operator*" and len(args) == 1):
                return f"DEREF({args[0]})"
            if op in ("operator!=", "operator==", "operator<", "operator>", "operator<=", "operator>=", "operator+", "operator-", "operator*", "operator/"):
                return f"({args[0]} {op[8:]} {args[1]})"
            raise LowerError("overloaded " + op + " in an expression")
        if k in ("CXXConstructExpr", "CXXTemporaryObjectExpr"):
            args = [a for a in n.get("inner", []) if a.get("kind") != "CXXDefaultArgExpr"]
            tt = self.norm_t(t)
            ea = [self.expr(a) for a in args]
            if len(args) == 1 and (self.norm_t(args[0].get("type", {}).get("qualType", "")) == tt or "iterator" in tt):
                return f"COPY({ea[0]})"
            if not ea and "[" in tt:
                return self.default(tt)
            if tt.startswith("std::vector"):
                if not ea:
                    return "Vec()"
                if len(ea) == 2:
                    return f"Vec.filled({ea[0]}, {ea[1]})"
                if len(ea) == 1:
                    return f"Vec.sized({ea[0]}, lambda: {self.elem_default(tt)})"
                raise LowerError("vector constructor with " + str(len(ea)) + " arguments")
            if tt.startswith("std::deque") and not ea:
                return "Deque()"
            if tt.startswith("std::map") and not ea:
                return "Map()"
            if tt.startswith("std::"):
                raise LowerError("constructor of " + tt)
            return f"CALL({tt!r}, {', '.join(ea)})"
        raise LowerError("expression " + str(k))


# ---------------------------------------------------------------------------------------------------------------- symbolic values

class Infeasible(Exception):
    pass


class Ctx:
    """one incremental solver for a whole exploration: a push level per branch decision, popped back to the common prefix between paths"""

    def __init__(self, timeout_ms=20000, base=()):
        self.solver = z3.Solver()
        self.solver.set("timeout", timeout_ms)
        self.timeout_ms = timeout_ms
        self.fresh_checks = False
        self.base = list(base)
        self.solver.add(*self.base)
        self.levels = []            # [cond, pushed, [constraints assumed after this decision]]
        self.pre = []               # constraints assumed before the first decision
        self.live_pos = -1
        self.base_solver = z3.Solver()          # base constraints only: decisions forced by them alone are remembered across paths
        self.base_solver.set("timeout", 2000)
        self.base_solver.add(*self.base)
        self.forced = {}
        self.values = {}
        self.defs = set()
        self.runs = 0
        self.path = []
        self.trail, self.pos, self.new_alts = [], 0, []
        self.queries, self.solver_s, self.n = 0, 0.0, 0
        self.known = {}

    def begin(self, trail):
        keep = min(max(len(trail) - 1, 0), len(self.levels))
        for lv in reversed(self.levels[keep:]):
            if lv[1]:
                self.solver.pop()
        del self.levels[keep:]
        self.live_pos = keep if self.runs else -1
        self.runs += 1
        self.known = {}
        for lv in self.levels:
            self._note(lv[0])
        self.trail, self.pos, self.new_alts, self.path, self.n = list(trail), 0, [], [], 0

    def _note(self, c):
        if z3.is_not(c):
            self.known[c.arg(0).get_id()] = False
        else:
            self.known[c.get_id()] = True

    def fresh(self, name, sort="int"):
        self.n += 1
        return (z3.Int if sort == "int" else z3.Real if sort == "real" else z3.Bool)(f"{name}!{self.n}")

    def check(self, *extra):
        t = time.time()
        if self.fresh_checks:
            # nonlinear real arithmetic: the incremental core answers unknown where a fresh solver (nlsat) decides
            sv = z3.Solver()
            sv.set("timeout", self.timeout_ms)
            sv.add(*self.solver.assertions(), *extra)
            r = sv.check()
        else:
            self.solver.push()
            self.solver.add(*extra)
            r = self.solver.check()
            self.solver.pop()
        self.solver_s += time.time() - t
        self.queries += 1
        return r

    def assume(self, c):
        """a defining / side constraint met while running (sqrt, quotient): part of the path"""
        self.path.append(c)
        if self.pos <= self.live_pos:
            return                          # asserted by the previous path inside a level that is still on the stack
        self.solver.add(c)
        (self.levels[-1][2] if self.levels else self.pre).append(c)

    def add_base(self, c):
        """a definition that must outlive every path (summaries): re-base the solver stack"""
        for lv in reversed(self.levels):
            if lv[1]:
                self.solver.pop()
        self.solver.add(c)
        self.base.append(c)
        self.base_solver.add(c)
        for lv in self.levels:
            if lv[1]:
                self.solver.push()
                self.solver.add(lv[0])
            self.solver.add(*lv[2])

    def choose(self, e):
        """make a symbolic integer concrete: case split over its feasible values (each value one branch)"""
        while True:
            pos = self.pos
            if pos < len(self.levels):                       # replay of the shared prefix
                lv = self.levels[pos]
                self.pos += 1
                self.path.append(lv[0])
                if self.trail[pos]:
                    return self.values[pos]
                continue
            if pos < len(self.trail):                        # the flipped decision: "not the value taken before"
                v = self.values[pos]
                c = e != v
                self.solver.push()
                self.solver.add(c)
                self.levels.append([c, True, []])
                self.path.append(c)
                self.pos += 1
                continue
            t = time.time()
            r = self.solver.check()
            self.solver_s += time.time() - t
            self.queries += 1
            if r == z3.unsat:
                raise Infeasible()
            if r != z3.sat:
                raise Unsupported("concretisation: solver unknown")
            v = self.solver.model().eval(e, model_completion=True).as_long()
            self.values[pos] = v
            other = self.check(e != v)
            if other == z3.unknown:
                raise Unsupported("concretisation: solver unknown")
            forked = other == z3.sat
            if forked:
                self.new_alts.append(self.trail[:pos] + [False])
            self.trail = self.trail[:pos] + [True]
            c = e == v
            if forked:
                self.solver.push()
                self.solver.add(c)
            self.levels.append([c, forked, []])
            self.path.append(c)
            self.pos += 1
            return v

    def decide(self, e):
        if self.pos < len(self.levels):
            v = self.trail[self.pos]            # replay of the prefix shared with the previous path: already asserted
            c = self.levels[self.pos][0]
            self.pos += 1
            self.path.append(c)
            return v
        k = self.known.get(e.get_id())
        if k is None:
            k = self.forced.get(e.get_id())
        pushed = False
        if k is not None:
            v = k
            if self.pos >= len(self.trail):
                self.trail = self.trail[:self.pos] + [v]
        elif self.pos < len(self.trail):
            v = self.trail[self.pos]
            pushed = True
        else:
            rt = self.check(e)
            rf = self.check(z3.Not(e)) if rt != z3.unsat else z3.sat      # the path so far is feasible: one side is
            if z3.unknown in (rt, rf):
                raise Unsupported("branch feasibility unknown: " + str(e)[:160])
            if rt == z3.unsat and rf == z3.unsat:
                raise Infeasible()
            if rt == z3.sat and rf == z3.sat:
                v = True
                self.new_alts.append(self.trail[:self.pos] + [False])
                pushed = True
            else:
                v = rt == z3.sat
                if not self.fresh_checks:
                    self.base_solver.push()
                    self.base_solver.add(z3.Not(e) if v else e)
                    if self.base_solver.check() == z3.unsat:
                        self.forced[e.get_id()] = v
                    self.base_solver.pop()
                    self.queries += 1
            self.trail = self.trail[:self.pos] + [v]
        self.pos += 1
        c = e if v else z3.Not(e)
        self.path.append(c)
        if pushed:
            self.solver.push()
            self.solver.add(c)
        self.levels.append([c, pushed, []])
        self._note(c)
        return v


CTX = Ctx()


def explore(fn, base=(), max_paths=100000, timeout_ms=20000, fresh_checks=False):
    """run fn() on every feasible path; yields (path_conditions, result, context, stats)"""
    global CTX
    work, n = [[]], 0
    ctx = Ctx(timeout_ms, base)
    ctx.fresh_checks = fresh_checks
    stats = {"queries": 0, "solver_s": 0.0}
    while work:
        trail = work.pop()
        CTX = ctx
        ctx.begin(trail)
        try:
            r = fn()
        except Infeasible:
            continue
        finally:
            stats["queries"], stats["solver_s"] = ctx.queries, ctx.solver_s
        work.extend(ctx.new_alts)
        n += 1
        if n > max_paths:
            raise Unsupported("path budget exceeded")
        yield [c for c in ctx.path], r, ctx, stats


def summarise(fn, *args, memo=None, key=None, name="sum", summary_base=None):
    """all paths of a side-effect-free fn(*args), merged into one term (ints / bools only).  The paths are explored under the BASE constraints
    only (not the caller's path): the summary is valid on every path, is memoised per argument tuple, and enters the caller's solver as a
    DEFINITION  v = ite-term  of a fresh variable v at base level"""
    global CTX
    outer = CTX
    if memo is not None and key in memo:
        d = memo.get(("def", key))
        if d is not None and d.get_id() not in outer.defs:
            outer.defs.add(d.get_id())
            outer.add_base(d)
        return memo[key]
    results = []
    work = [[]]
    inner = Ctx(base=summary_base if summary_base is not None else outer.base)
    try:
        CTX = inner
        while work:
            tr = work.pop()
            inner.begin(tr)
            try:
                r = fn(*args)
                results.append((list(inner.path), r))
                work.extend(inner.new_alts)
            except Infeasible:
                pass
    finally:
        CTX = outer
        outer.queries += inner.queries
        outer.solver_s += inner.solver_s
    if not results:
        raise Infeasible()
    if all(not isinstance(r, (SInt, SBool)) for _, r in results) and len({(type(r), r) for _, r in results}) == 1:
        out = results[0][1]
    else:
        isbool = all(isinstance(r, (bool, SBool)) for _, r in results)
        groups = {}
        for conds, r in results:
            groups.setdefault(str(tz(r, isbool)), [tz(r, isbool), []])[1].append(z3.And(*conds) if conds else z3.BoolVal(True))
        items = list(groups.values())
        term = items[-1][0]
        for val, cs in reversed(items[:-1]):
            term = z3.If(z3.Or(*cs), val, term)
        term = z3.simplify(term)
        summarise.count = getattr(summarise, "count", 0) + 1
        v = (z3.Bool if isbool else z3.Int)(f"{name}!{summarise.count}")
        d = v == term
        outer.defs.add(d.get_id())
        outer.add_base(d)
        out = SBool(v) if isbool else SInt(v)
        if memo is not None:
            memo[("term", key)] = term
            memo[("def", key)] = d
    if memo is not None:
        memo[key] = out
    return out


def tz(x, as_bool=False):
    if isinstance(x, (SInt, SBool, SReal)):
        return x.e
    if as_bool or isinstance(x, bool):
        return z3.BoolVal(bool(x))
    if isinstance(x, int):
        return z3.IntVal(x)
    if isinstance(x, Fraction):
        return z3.RealVal(str(x))
    if isinstance(x, float):
        return z3.RealVal(str(Fraction(x)))
    raise Unsupported("cannot turn into a term: " + repr(x)[:80])


class SBool:
    __slots__ = ("e",)

    def __init__(self, e):
        self.e = e

    def __bool__(self):
        return CTX.decide(self.e)

    def __eq__(self, o):
        return SBool(self.e == tz(o, True))

    def __ne__(self, o):
        return SBool(self.e != tz(o, True))
    __hash__ = None

    def __repr__(self):
        return f"SBool({self.e})"


def _ib(x):
    """a bool used as an int"""
    if isinstance(x, SBool):
        return z3.If(x.e, z3.IntVal(1), z3.IntVal(0))
    if isinstance(x, bool):
        return z3.IntVal(int(x))
    return tz(x)


def _lit(x):
    """a term that simplifies to a numeral is a number (x * 0, k - k ...)"""
    e = z3.simplify(x.e)
    if z3.is_int_value(e):
        return e.as_long()
    if z3.is_rational_value(e):
        return Fraction(e.numerator_as_long(), e.denominator_as_long())
    x.e = e
    return x


class SInt:
    __slots__ = ("e",)

    def __init__(self, e):
        self.e = e

    def _b(self, o, f, r=False):
        if isinstance(o, (SReal, float, Fraction)):
            return SReal(z3.ToReal(self.e))._b(o, f, r)
        b = _ib(o)
        return _lit(SInt(f(b, self.e) if r else f(self.e, b)))

    def __add__(self, o): return self._b(o, lambda a, b: a + b)
    def __radd__(self, o): return self._b(o, lambda a, b: a + b, True)
    def __sub__(self, o): return self._b(o, lambda a, b: a - b)
    def __rsub__(self, o): return self._b(o, lambda a, b: a - b, True)
    def __mul__(self, o): return self._b(o, lambda a, b: a * b)
    def __rmul__(self, o): return self._b(o, lambda a, b: a * b, True)
    def __neg__(self): return SInt(-self.e)
    def _c(self, o, f): return SBool(f(self.e, _ib(o)))
    def __lt__(self, o): return self._c(o, lambda a, b: a < b)
    def __le__(self, o): return self._c(o, lambda a, b: a <= b)
    def __gt__(self, o): return self._c(o, lambda a, b: a > b)
    def __ge__(self, o): return self._c(o, lambda a, b: a >= b)
    def __eq__(self, o): return self._c(o, lambda a, b: a == b)
    def __ne__(self, o): return self._c(o, lambda a, b: a != b)
    __hash__ = None

    def __bool__(self):
        return CTX.decide(self.e != 0)

    def __index__(self):
        raise Unsupported("a symbolic integer is used as an index / loop bound")

    def __repr__(self):
        return f"SInt({self.e})"


class SReal:
    __slots__ = ("e",)

    def __init__(self, e):
        self.e = e

    def _b(self, o, f, r=False):
        b = o.e if isinstance(o, SReal) else z3.ToReal(o.e) if isinstance(o, SInt) else tz(Fraction(o))
        return _lit(SReal(f(b, self.e) if r else f(self.e, b)))

    def __add__(self, o): return self._b(o, lambda a, b: a + b)
    def __radd__(self, o): return self._b(o, lambda a, b: a + b, True)
    def __sub__(self, o): return self._b(o, lambda a, b: a - b)
    def __rsub__(self, o): return self._b(o, lambda a, b: a - b, True)
    def __mul__(self, o): return self._b(o, lambda a, b: a * b)
    def __rmul__(self, o): return self._b(o, lambda a, b: a * b, True)
    def __neg__(self): return SReal(-self.e)
    def _c(self, o, f):
        b = o.e if isinstance(o, SReal) else z3.ToReal(o.e) if isinstance(o, SInt) else tz(Fraction(o))
        return SBool(f(self.e, b))
    def __lt__(self, o): return self._c(o, lambda a, b: a < b)
    def __le__(self, o): return self._c(o, lambda a, b: a <= b)
    def __gt__(self, o): return self._c(o, lambda a, b: a > b)
    def __ge__(self, o): return self._c(o, lambda a, b: a >= b)
    def __eq__(self, o): return self._c(o, lambda a, b: a == b)
    def __ne__(self, o): return self._c(o, lambda a, b: a != b)
    __hash__ = None

    def __repr__(self):
        return f"SReal({self.e})"


def is_sym(x):
    return isinstance(x, (SInt, SBool, SReal))


class ACos:
    """acosf(c): only comparisons with a constant are meaningful: acos is decreasing on [-1, 1]"""

    def __init__(self, c):
        self.c = c

    def __gt__(self, k):
        import math
        return self.c < Fraction(math.cos(float(k)))

    def __lt__(self, k):
        import math
        return self.c > Fraction(math.cos(float(k)))
    __ge__ = __gt__
    __le__ = __lt__


# ---------------------------------------------------------------------------------------------------------------- containers

class _Uninit:
    """an indeterminate value (uninitialised variable): arithmetic on it stays indeterminate; a branch on it is recorded (the compiled code reads
    garbage there) and taken as false"""
    branched = 0

    def __repr__(self):
        return "UNINIT"

    def __bool__(self):
        _Uninit.branched += 1
        return False

    def _p(self, *a):
        return self
    __add__ = __radd__ = __sub__ = __rsub__ = __mul__ = __rmul__ = __neg__ = __truediv__ = __rtruediv__ = _p
    __lt__ = __le__ = __gt__ = __ge__ = __eq__ = __ne__ = _p
    __hash__ = None


UNINIT = _Uninit()


def COPY(x):
    if isinstance(x, (Vec, Deque, Map, Record, Pair)):
        return x.copy()
    return x


class Struct:
    """a plain C struct: fields appear on assignment"""

    def copy(self):
        o = Struct()
        o.__dict__.update({k: COPY(v) for k, v in self.__dict__.items()})
        return o


class Record:
    _fields = ()

    def copy(self):
        o = object.__new__(type(self))
        for f in self._fields:
            setattr(o, f, COPY(getattr(self, f)))
        return o


class Iter:
    __slots__ = ("c", "pos")

    def __init__(self, c, pos):
        self.c, self.pos = c, pos

    def __add__(self, k): return Iter(self.c, self.pos + k)
    def __sub__(self, k): return self.pos - k.pos if isinstance(k, Iter) else Iter(self.c, self.pos - k)
    def __eq__(self, o): return self.c is o.c and self.pos == o.pos
    def __ne__(self, o): return not (self == o)
    def __lt__(self, o): return self.pos < o.pos
    __hash__ = None


class _Pair:
    def __init__(self, first, second):
        self.first, self.second = first, second


def DEREF(it):
    if isinstance(it, Iter):
        if isinstance(it.c, Map):
            k = it.c.keys()[it.pos]
            return _Pair(k, it.c.d[k])
        if not 0 <= it.pos < len(it.c.a):
            raise Unsupported("dereference of an iterator outside its container (undefined behaviour)")
        return it.c.a[it.pos]
    raise Unsupported("dereference of " + repr(it)[:60])


class Vec:
    def __init__(self, a=None):
        self.a = a if a is not None else []

    @classmethod
    def filled(cls, n, v):
        return cls([COPY(v) for _ in range(n)])

    @classmethod
    def sized(cls, n, factory):
        return cls([factory() for _ in range(n)])

    def resize(self, n, factory=lambda: 0):
        n = CONC(n)
        if n < len(self.a):
            del self.a[n:]
        else:
            self.a.extend(factory() for _ in range(n - len(self.a)))

    def assign(self, first, last):
        if isinstance(first, Ptr):
            self.a = [COPY(x) for x in first.a[first.off:last.off]]
        else:
            self.a = [COPY(x) for x in first.c.a[first.pos:last.pos]]

    def copy(self): return type(self)([COPY(x) for x in self.a])
    def size(self): return len(self.a)
    def empty(self): return not self.a
    def begin(self): return Iter(self, 0)
    def end(self): return Iter(self, len(self.a))
    def push_back(self, x): self.a.append(COPY(x))
    def push_front(self, x): self.a.insert(0, COPY(x))

    def front(self):
        if not self.a:
            raise Unsupported("front() of an empty container (undefined behaviour)")
        return self.a[0]

    def back(self):
        if not self.a:
            raise Unsupported("back() of an empty container (undefined behaviour)")
        return self.a[-1]

    def insert(self, pos, first, last=None):
        if last is None:
            self.a.insert(pos.pos, COPY(first))
        else:
            self.a[pos.pos:pos.pos] = [COPY(x) for x in first.c.a[first.pos:last.pos]]

    def erase(self, it):
        if not 0 <= it.pos < len(self.a):
            raise Unsupported("erase outside the container (undefined behaviour)")
        del self.a[it.pos]
        return Iter(self, it.pos)

    def clear(self): self.a = []


class Deque(Vec):
    pass


class Map:
    def __init__(self):
        self.d = {}

    def copy(self):
        m = Map()
        m.d = {k: COPY(v) for k, v in self.d.items()}
        return m

    def keys(self):
        return sorted(self.d)

    def begin(self): return Iter(self, 0)
    def end(self): return Iter(self, len(self.d))
    def size(self): return len(self.d)


class Ptr:
    """pointer into a Python list: (list, offset)"""
    __slots__ = ("a", "off")

    def __init__(self, a, off=0):
        self.a, self.off = a, off

    def __add__(self, k):
        if is_sym(k):
            raise Unsupported("symbolic pointer arithmetic")
        return Ptr(self.a, self.off + k)
    __radd__ = __add__

    def __eq__(self, o): return isinstance(o, Ptr) and self.a is o.a and self.off == o.off
    __hash__ = None


def _cidx(i):
    if isinstance(i, SInt):
        return CONC(i)
    if is_sym(i):
        raise Unsupported("symbolic index")
    return int(i)


def IDX(c, i):
    if isinstance(c, Map):
        if is_sym(i):
            raise Unsupported("symbolic map key")
        if i not in c.d:
            c.d[i] = Vec()
        return c.d[i]
    i = _cidx(i)
    if isinstance(c, F4):
        return c.v[i]
    a, off = (c.a, c.off) if isinstance(c, Ptr) else (c.a, 0) if isinstance(c, Vec) else (c, 0)
    if not 0 <= off + i < len(a):
        raise OutOfBounds(f"read at index {off + i} of an array of {len(a)}")
    return a[off + i]


def SET(c, i, v):
    i = _cidx(i)
    a, off = (c.a, c.off) if isinstance(c, Ptr) else (c.a, 0) if isinstance(c, Vec) else (c, 0)
    if not 0 <= off + i < len(a):
        raise OutOfBounds(f"write at index {off + i} of an array of {len(a)}")
    a[off + i] = COPY(v)


def ADDR(c, i):
    i = _cidx(i)
    if isinstance(c, Ptr):
        return Ptr(c.a, c.off + i)
    return Ptr(c.a if isinstance(c, Vec) else c, i)


class OutOfBounds(Exception):
    pass


def NOT(x):
    if isinstance(x, SBool):
        return SBool(z3.Not(x.e))
    if isinstance(x, SInt):
        return SBool(x.e == 0)
    return not x


def IDIV(a, b):
    if is_sym(a) or is_sym(b):
        raise Unsupported("symbolic integer division")
    q = abs(a) // abs(b)
    return q if (a >= 0) == (b >= 0) else -q


def IMOD(a, b):
    return a - b * IDIV(a, b)


def FDIV(a, b):
    if a is UNINIT or b is UNINIT:
        return UNINIT
    if isinstance(a, (SReal, SInt)) or isinstance(b, (SReal, SInt)):
        q = SReal(CTX.fresh("quot", "real"))
        be = b if isinstance(b, (SReal, SInt)) else Fraction(b)
        CTX.assume((q * be == a).e)
        if is_sym(be):
            CTX.assume((be != 0).e)
        return q
    return Fraction(a) / Fraction(b)


def FLT(s):
    return Fraction(float(s))


def F2I(x):
    if isinstance(x, SInt):
        return x
    if isinstance(x, SReal):
        k = CTX.fresh("trunc")                       # C conversion: truncation toward zero
        kr = z3.ToReal(k)
        CTX.assume(z3.Or(z3.And(x.e >= 0, kr <= x.e, x.e < kr + 1), z3.And(x.e < 0, kr - 1 < x.e, x.e <= kr)))
        return SInt(k)
    if is_sym(x):
        raise Unsupported("symbolic value converted to int")
    return int(x)


class F4(Record):
    """fvec4 of vectorize.h: four lanes"""
    _fields = ("v",)

    def __init__(self, a, b=None, c=None, d=None):
        self.v = [a, a, a, a] if b is None else [a, b, c, d]

    def copy(self):
        return F4(*self.v)

    def __sub__(self, o): return F4(*[x - y for x, y in zip(self.v, o.v)])
    def __add__(self, o): return F4(*[x + y for x, y in zip(self.v, o.v)])

    def __mul__(self, o):
        if isinstance(o, F4):
            return F4(*[x * y for x, y in zip(self.v, o.v)])
        return F4(*[x * o for x in self.v])
    __rmul__ = __mul__


def _dot3(a, b):
    return a.v[0] * b.v[0] + a.v[1] * b.v[1] + a.v[2] * b.v[2]


def _sqrtf(x):
    if is_sym(x):
        s = SReal(CTX.fresh("sqrt", "real"))
        for c in (s >= 0, s * s == x):
            CTX.assume(c.e)
        return s
    import math
    return Fraction(math.sqrt(float(x)))


def CONC(x):
    if isinstance(x, SInt):
        if z3.is_int_value(x.e):
            return x.e.as_long()
        return CTX.choose(x.e)
    return x


def _ite(c, a, b, real):
    return (SReal if real else SInt)(z3.If(c, a, b))


def _num_e(x):
    """(z3 term, is_real) of a number"""
    if isinstance(x, SReal):
        return x.e, True
    if isinstance(x, SInt):
        return x.e, False
    if isinstance(x, bool):
        return z3.IntVal(int(x)), False
    if isinstance(x, int):
        return z3.IntVal(x), False
    return tz(Fraction(x)), True


def _sel(a, b, take_a_if_less):
    """min / max without forking"""
    if isinstance(a, F4) or isinstance(b, F4):
        return F4(*[_sel(x, y, take_a_if_less) for x, y in zip(a.v, b.v)])
    if not is_sym(a) and not is_sym(b):
        return (a if a < b else b) if take_a_if_less else (a if a > b else b)
    (ea, ra), (eb, rb) = _num_e(a), _num_e(b)
    real = ra or rb
    if real:
        ea = z3.ToReal(ea) if not ra else ea
        eb = z3.ToReal(eb) if not rb else eb
    return _ite(ea < eb if take_a_if_less else ea > eb, ea, eb, real)


def _abs(x):
    if isinstance(x, F4):
        return F4(*[_abs(v) for v in x.v])
    if is_sym(x):
        e, real = _num_e(x)
        return _ite(e >= 0, e, -e, real)
    return abs(x)


def _floor(x):
    if isinstance(x, SInt):
        return x
    if isinstance(x, SReal):
        k = CTX.fresh("floor")
        CTX.assume(z3.ToReal(k) <= x.e)
        CTX.assume(x.e < z3.ToReal(k) + 1)
        return SInt(k)
    import math
    return math.floor(Fraction(x))


def _ceil(x):
    r = _floor(-x)
    return -r


def _round(x):
    if isinstance(x, F4):
        return F4(*[_round(v) for v in x.v])
    if isinstance(x, SInt):
        return x
    if isinstance(x, SReal):
        k = CTX.fresh("round")
        CTX.assume(x.e - z3.ToReal(k) <= tz(Fraction(1, 2)))
        CTX.assume(z3.ToReal(k) - x.e <= tz(Fraction(1, 2)))
        return SInt(k)
    import math
    f = Fraction(x)
    return math.floor(f + Fraction(1, 2)) if f >= 0 else -math.floor(-f + Fraction(1, 2))


class Pair:
    __slots__ = ("first", "second")

    def __init__(self, first, second):
        self.first, self.second = first, second

    def copy(self):
        return Pair(self.first, self.second)

    def __lt__(self, o):
        return bool(self.first < o.first) or (not bool(o.first < self.first) and bool(self.second < o.second))


class Quad:
    """sum of squares (dot3 of a vector with itself) compared with a constant: when one lane is symbolic and LINEAR the comparison is a bound
    on that lane's absolute value — no nonlinear term reaches the solver"""

    def __init__(self, lanes):
        self.lanes = lanes

    def _split(self):
        sym = [x for x in self.lanes if is_sym(x)]
        c0 = sum((Fraction(x) * Fraction(x) for x in self.lanes if not is_sym(x)), Fraction(0))
        return sym, c0

    def _cmp(self, c, gt):
        import math
        sym, c0 = self._split()
        c = Fraction(c)
        if not sym:
            return (c0 > c) if gt else (c0 < c)
        if len(sym) != 1:
            e = sum((x * x for x in sym[1:]), sym[0] * sym[0]) + c0
            return (e > c) if gt else (e < c)
        rest = c - c0
        if rest < 0:
            return gt
        r = Fraction(math.sqrt(float(rest)))
        a = _abs(sym[0])
        return (a > r) if gt else (a < r)

    def __gt__(self, c): return self._cmp(c, True)
    def __lt__(self, c): return self._cmp(c, False)
    __ge__ = __gt__
    __le__ = __lt__


def _dot3q(a, b):
    if a is b or all((x is y) or (not is_sym(x) and not is_sym(y) and x == y) for x, y in zip(a.v[:3], b.v[:3])):
        return Quad(list(a.v[:3]))
    return _dot3(a, b)


class Program:
    """the lowered declarations of one source file, executable"""

    def __init__(self, src, functions, records=(), enums=(), includes=(), conc_records=(), merge_minmax=False, plain_structs=()):
        decls = load_decls(src, list(functions) + list(records) + list(enums), includes)
        self.lower = Lower(conc_records=conc_records)
        self.lower.plain_structs = set(plain_structs)
        for e in enums:
            self.lower.enum(decls[e])
        self.enums = dict(self.lower.enums)
        parts = [self.lower.record(decls[r]) for r in records] + [self.lower.function(decls[f]) for f in functions]
        self.source = "\n\n\n".join(parts)
        self.stubs = {}
        self.summarised = set()
        self.summary_base = None  # constraints under which summaries are computed (None: the caller's base); weaker than every caller's base
        self.memo = {}            # summaries: valid while the argument OBJECTS (arrays) live and the base constraints are the same
        self.env = {"Vec": Vec, "Deque": Deque, "Map": Map, "Record": Record, "COPY": COPY, "IDX": IDX, "SET": SET, "ADDR": ADDR, "DEREF": DEREF, "NOT": NOT, "IDIV": IDIV, "IMOD": IMOD,
                    "FDIV": FDIV, "FLT": FLT, "F2I": F2I, "UNINIT": UNINIT, "CALL": self.call, "CONC": CONC, "Struct": Struct}
        exec(compile(self.source, "<lowered " + str(src) + ">", "exec"), self.env)
        self.builtins = {"fvec4": F4, "dot3": _dot3, "sqrtf": _sqrtf, "sqrt": _sqrtf, "acosf": ACos, "acos": ACos, "min": lambda a, b: b if b < a else a, "max": lambda a, b: b if a < b else a,
                         "sort": self._sort}
        if merge_minmax:
            self.builtins.update({"min": lambda a, b: _sel(a, b, True), "max": lambda a, b: _sel(a, b, False), "abs": _abs, "fabs": _abs, "floorf": _floor, "floor": _floor, "ceil": _ceil, "ceilf": _ceil,
                                  "roundf": _round, "round": _round, "make_pair": Pair, "dot3": _dot3q})
        self.n_nodes = len(self.lower.kinds)

    def _sort(self, first, last):
        a = first.c.a
        a[first.pos:last.pos] = sorted(a[first.pos:last.pos], key=functools.cmp_to_key(lambda x, y: -1 if x < y else (1 if y < x else 0)))

    def call(self, name, *args):
        if name in self.stubs:
            return self.stubs[name](*args)
        if name in self.env and callable(self.env[name]) and name not in ("Vec", "Deque", "Map"):
            f = self.env[name]
            if name in self.summarised:
                return summarise(f, *args, memo=self.memo, key=(name,) + tuple(a if isinstance(a, int) else id(a) for a in args), name=name, summary_base=self.summary_base)
            return f(*args)
        if name in self.builtins:
            return self.builtins[name](*args)
        raise Unsupported("call of " + name + " (not lowered, no stub)")
