"""Core of the /verif framework: obligations, runners, replay, known findings, evidence.

An *obligation* is one solver-decided claim about named functions of the real code under
stated bounds.  Two kinds of runner exist:

  xh  - a CrossHair condition (a function in a harness file whose PEP316 postcondition
        CrossHair tries to refute by symbolic execution of the real bytecode with z3);
  py  - a harness function that builds an SMT query itself (E2 symnum / E3 llsym /
        E4 selz3) and returns a verdict dict.

Verdicts:  holds | cex | inconclusive | error.   Exit codes of a check: 0 / 1 / 2.
"""
from __future__ import annotations

import ast
import hashlib
import json
import os
import re
import shutil
import subprocess
import sys
import tempfile
import time
from concurrent.futures import ThreadPoolExecutor
from dataclasses import dataclass, field, replace
from pathlib import Path

VERIF = Path(__file__).resolve().parent.parent
REPO = Path(os.environ.get("VT_REPO", "/repo"))
PY = str(VERIF / ".venv" / "bin" / "python")
NCPU = int(os.environ.get("VT_JOBS", "16"))


@dataclass
class Obl:
    id: str                       # e.g. C18.netcdf.read_n
    kind: str                     # 'xh' | 'py'
    module: str                   # harness module, e.g. harness.c18_netcdf
    func: str                     # function inside it
    encodes: list = field(default_factory=list)   # real functions executed symbolically
    bounds: str = ""
    desc: str = ""
    timeout: int = 60             # per-condition CrossHair budget (CPU s) or py wall budget
    params: dict = field(default_factory=dict)    # for kind 'py'
    tiers: tuple = ("quick", "thorough")
    twin: bool = True             # reachability twin (xh)
    pre: str | None = None        # extra precondition in every tier (used to split one harness into parallel obligations)
    quick_pre: str | None = None  # extra precondition (tighter bounds) applied in the quick tier only
    thorough_pre: str | None = None  # extra precondition applied in the thorough tier (a larger but still exhaustible bound)
    timeout_thorough: int | None = None
    replay: str | None = None     # "module:func" real-API replay taking the cex
    classify: str | None = None   # "module:func" cex -> finding key suffix


@dataclass
class Verdict:
    obl: Obl
    status: str                   # holds | cex | inconclusive | error
    detail: str = ""
    cex: dict | None = None
    solver_s: float = 0.0
    queries: int = 0
    twin_ok: bool | None = None
    reproduced: bool | None = None
    finding_key: str | None = None
    known: bool = False
    replay_path: str | None = None
    extra: dict = field(default_factory=dict)


# ------------------------------------------------------------------ harness file handling

def _func_span(src: str, name: str):
    tree = ast.parse(src)
    for node in tree.body:
        if isinstance(node, ast.FunctionDef) and node.name == name:
            return node
    raise KeyError(name)


def prepare_xh_file(module: str, func: str, workdir: Path, extra_pre: list[str]):
    """Copy the harness module into workdir as a *new* module with (a) extra `pre:` lines
    injected into func's docstring (known-finding exclusions) and (b) a reachability twin
    `<func>__twin` whose postcondition is negated.  Returns (path, line_main, line_twin)."""
    path = VERIF / (module.replace(".", "/") + ".py")
    src = path.read_text()
    node = _func_span(src, func)
    lines = src.split("\n")
    fsrc = lines[node.lineno - 1: node.end_lineno]
    if node.decorator_list:
        fsrc = lines[node.decorator_list[0].lineno - 1: node.end_lineno]
    ftxt = "\n".join(fsrc)
    if "post: __return__" not in ftxt:
        raise RuntimeError(f"{module}.{func}: harness must carry 'post: __return__'")
    if extra_pre:
        inj = "".join(f"pre: {p}\n    " for p in extra_pre)
        ftxt = ftxt.replace("post: __return__", inj + "post: __return__", 1)
    twin = ftxt.replace(f"def {func}(", f"def {func}__twin(", 1).replace(
        "post: __return__", "post: not __return__", 1)
    start = (node.decorator_list[0].lineno if node.decorator_list else node.lineno) - 1
    new = lines[:start] + ftxt.split("\n") + lines[node.end_lineno:] + ["", ""] + twin.split("\n") + [""]
    out = workdir / (module.split(".")[-1] + "__" + func + ".py")
    out.write_text("\n".join(new))
    tree = ast.parse(out.read_text())
    l_main = l_twin = None
    for n in tree.body:
        if isinstance(n, ast.FunctionDef) and n.name == func:
            l_main = n.lineno + 1
        if isinstance(n, ast.FunctionDef) and n.name == func + "__twin":
            l_twin = n.lineno + 1
    return out, l_main, l_twin


_CEX_RE = re.compile(r"error: (.*?) when calling (\w+)\(", re.S)


def parse_cex(out: str):
    """Extract (why, func, args-text, result-text) from a CrossHair error line; the argument list is
    delimited by balanced parentheses (string literals respected)."""
    m = _CEX_RE.search(out)
    if not m:
        return None
    i = m.end()
    depth, j, q = 1, i, None
    while j < len(out) and depth:
        ch = out[j]
        if q:
            if ch == "\\":
                j += 1
            elif ch == q:
                q = None
        elif ch in "'\"":
            q = ch
        elif ch in "([{":
            depth += 1
        elif ch in ")]}":
            depth -= 1
        j += 1
    if depth:
        return None
    rest = out[j:].strip()
    mr = re.match(r"\(which (?:returns|raises) (.*)\)\s*$", rest, re.S)
    return {"why": m.group(1), "func": m.group(2), "args": out[i:j - 1], "result": mr.group(1) if mr else rest[:200]}


def _env():
    e = dict(os.environ)
    e["PYTHONPATH"] = f"{VERIF}:{REPO}" + (":" + e["PYTHONPATH"] if e.get("PYTHONPATH") else "")
    e["MDTRAJ_VERIF"] = "1"
    e["PYTHONHASHSEED"] = "0"
    e.setdefault("OMP_NUM_THREADS", "1")
    return e


def run_crosshair(path: Path, line: int, timeout: int, workdir: Path):
    """Returns (status, detail, cex_call, seconds)."""
    t0 = time.time()
    cmd = [PY, "-m", "crosshair", "check", "--report_all", "--per_condition_timeout", str(timeout),
           "--per_path_timeout", str(max(5, timeout // 4)), f"{path}:{line}"]
    try:
        p = subprocess.run(cmd, capture_output=True, text=True, timeout=timeout * 3 + 60, env=_env(), cwd=workdir)
    except subprocess.TimeoutExpired:
        return "inconclusive", "crosshair wall timeout", None, time.time() - t0
    out = (p.stdout + p.stderr).strip()
    dt = time.time() - t0
    if "Confirmed over all paths" in out:
        return "holds", "Confirmed over all paths", None, dt
    cex = parse_cex(out) if ": error:" in out else None
    if cex:
        return "cex", out[-600:], cex, dt
    if "Not confirmed" in out or "Unable to meet precondition" in out:
        return "inconclusive", out[-300:], None, dt
    return "error", out[-1500:] or f"crosshair exit {p.returncode} without output", None, dt


def run_py(module: str, func: str, params: dict, timeout: int):
    """Run harness `module.func(**params)` in a subprocess; it prints one JSON verdict line."""
    t0 = time.time()
    code = ("import json,sys,importlib\n"
            f"m=importlib.import_module({module!r})\n"
            f"r=getattr(m,{func!r})(**json.loads(sys.argv[1]))\n"
            "print('@@VERDICT@@'+json.dumps(r,default=str))\n")
    try:
        p = subprocess.run([PY, "-c", code, json.dumps(params)], capture_output=True, text=True,
                           timeout=timeout, env=_env(), cwd=VERIF)
    except subprocess.TimeoutExpired:
        return {"status": "inconclusive", "detail": f"wall timeout {timeout}s"}, time.time() - t0
    for ln in p.stdout.splitlines():
        if ln.startswith("@@VERDICT@@"):
            return json.loads(ln[len("@@VERDICT@@"):]), time.time() - t0
    return {"status": "error", "detail": (p.stdout + p.stderr)[-2000:]}, time.time() - t0


def call_hook(spec: str, payload, timeout=300):
    """Run "module:func"(payload) in a subprocess and return its JSON result."""
    module, func = spec.split(":")
    r, _ = run_py(module, func, {"cex": payload}, timeout)
    return r


# ------------------------------------------------------------------ known findings

def load_known():
    p = VERIF / "known_findings.json"
    if not p.exists():
        return []
    return json.loads(p.read_text())["findings"]


def known_for(obl_id: str):
    return [k for k in load_known() if k.get("status") == "known" and k.get("obligation") == obl_id]


# ------------------------------------------------------------------ running one obligation

def replay_xh_concrete(path: Path, cex: dict, workdir: Path, tag: str):
    """Concrete re-execution of the harness function on the counterexample's arguments, in a
    fresh interpreter, with the real (unpatched-by-crosshair) code.  Writes a replay script."""
    script = (f"import sys; sys.path[:0]=[{str(VERIF)!r},{str(REPO)!r},{str(path.parent)!r}]\n"
              f"import importlib.util as u\n"
              f"spec=u.spec_from_file_location('h',{str(path)!r}); h=u.module_from_spec(spec); spec.loader.exec_module(h)\n"
              f"ns=dict(vars(h))\n"
              f"try:\n    code=compile({(cex['func'] + '(' + cex['args'] + ')')!r}, '<cex>', 'eval')\n"
              f"except SyntaxError as e:\n    print('replay machinery error', e); sys.exit(2)\n"
              f"try:\n    r=eval(code, ns)\n"
              f"except Exception as e:\n    import traceback; traceback.print_exc(); r=('raised',repr(e))\n"
              f"print('harness returned', r)\n"
              f"sys.exit(0 if r is True else 1)\n")
    return script


def write_replay(prop: str, obl: Obl, body: str, harness_path: Path | None):
    d = Path(os.environ.get("VT_REPLAY_DIR") or (VERIF / "replays"))
    d.mkdir(exist_ok=True, parents=True)
    name = re.sub(r"[^A-Za-z0-9_.-]", "_", obl.id)
    if harness_path is not None:
        hp = d / (name + "__harness.py")
        shutil.copy(harness_path, hp)
        body = body.replace(str(harness_path), str(hp)).replace(str(harness_path.parent), str(d))
    p = d / (name + ".py")
    p.write_text(f"# replay for obligation {obl.id} (property {prop}); exit 1 = violation reproduces\n" + body)
    return p


def run_obligation(prop: str, obl: Obl, workroot: Path, tier: str = "quick") -> Verdict:
    tpre = ([obl.pre] if obl.pre else []) + ([obl.quick_pre] if (tier == "quick" and obl.quick_pre) else []) + ([obl.thorough_pre] if (tier == "thorough" and obl.thorough_pre) else [])
    if tier == "thorough" and obl.timeout_thorough:
        obl = replace(obl, timeout=obl.timeout_thorough)
    wd = Path(tempfile.mkdtemp(prefix=re.sub(r"\W", "_", obl.id) + "_", dir=workroot))
    v = Verdict(obl, "error")
    try:
        if obl.kind == "xh":
            excl = [k["exclude_pre"] for k in known_for(obl.id) if k.get("exclude_pre")]
            path0, l_main, l_twin = prepare_xh_file(obl.module, obl.func, wd, tpre)
            st, detail, cex, dt = run_crosshair(path0, l_main, obl.timeout, wd)
            v.status, v.detail, v.cex, v.solver_s, v.queries = st, detail, cex, dt, 1
            if st == "cex":
                _triage_xh(prop, obl, v, path0, wd)
                if v.known and excl:
                    # re-run with the known input class excluded: anything else must hold
                    path1, l1, _ = prepare_xh_file(obl.module, obl.func, wd, tpre + excl)
                    st2, detail2, cex2, dt2 = run_crosshair(path1, l1, obl.timeout, wd)
                    v.solver_s += dt2
                    v.queries += 1
                    v.extra["rerun_excluding_known"] = st2
                    if st2 == "cex":
                        v2 = Verdict(obl, "cex", detail2, cex2)
                        _triage_xh(prop, obl, v2, path1, wd)
                        if v2.reproduced and not v2.known:
                            v2.extra["first_known"] = v.finding_key
                            v2.solver_s, v2.queries = v.solver_s, v.queries
                            v = v2
                    elif st2 != "holds":
                        v.extra["rerun_detail"] = detail2
                        v.status = "inconclusive"
                        v.detail = "known finding matched, but re-run excluding it was inconclusive: " + detail2
            if obl.twin and v.status == "holds":
                st3, d3, _, dt3 = run_crosshair(path0, l_twin, min(obl.timeout, 30), wd)
                v.solver_s += dt3
                v.queries += 1
                v.twin_ok = (st3 == "cex")
                if not v.twin_ok:
                    v.status = "inconclusive"
                    v.detail = f"reachability twin not violated ({st3}): vacuous or unreachable harness"
        elif obl.kind == "py":
            r, dt = run_py(obl.module, obl.func, obl.params, obl.timeout)
            v.status = r.get("status", "error")
            v.detail = str(r.get("detail", ""))[:3000]
            v.cex = r.get("cex")
            v.solver_s = r.get("solver_s", dt)
            v.queries = r.get("queries", 1)
            v.twin_ok = r.get("twin_ok")
            v.extra = {k: r[k] for k in r if k not in ("status", "detail", "cex", "solver_s", "queries", "twin_ok")}
            if v.status == "holds" and obl.twin and v.twin_ok is not True:
                v.status = "inconclusive"
                v.detail = "py obligation did not report a successful reachability twin"
            if v.status == "cex":
                _triage_py(prop, obl, v)
        else:
            v.detail = "unknown kind " + obl.kind
    except Exception as e:  # harness error
        import traceback
        v.status = "error"
        v.detail = traceback.format_exc()[-2000:]
    finally:
        shutil.rmtree(wd, ignore_errors=True)
    return v


def _match_known(obl: Obl, v: Verdict, key: str):
    v.finding_key = key
    for k in known_for(obl.id):
        if k.get("key") in (key, "*") or key.endswith(":" + str(k.get("key"))):
            v.known = True
            v.extra["known_what"] = k.get("what", "")


def _triage_xh(prop, obl, v, path, wd):
    body = replay_xh_concrete(path, v.cex, wd, obl.id)
    rp = write_replay(prop, obl, body, path)
    v.replay_path = str(rp)
    p = subprocess.run([PY, str(rp)], capture_output=True, text=True, env=_env(), timeout=600)
    v.reproduced = (p.returncode == 1)
    v.extra["replay_output"] = (p.stdout + p.stderr)[-800:]
    key = v.cex["args"]
    if obl.classify:
        r = call_hook(obl.classify, v.cex)
        key = r.get("key", key) if isinstance(r, dict) else key
    _match_known(obl, v, f"{obl.id}:{key}")
    if obl.replay and v.reproduced:
        r = call_hook(obl.replay, v.cex)
        v.extra["real_api_replay"] = r
        if isinstance(r, dict) and r.get("reproduced") is False:
            v.reproduced = False
            v.extra["note"] = "harness-level counterexample did not reproduce through the public API"
        if isinstance(r, dict) and r.get("script"):
            rp.write_text(rp.read_text() + "\n# ---- real-API replay ----\n" + r["script"])


def _triage_py(prop, obl, v):
    c = v.cex or {}
    v.reproduced = bool(c.get("reproduced"))
    script = c.get("replay_script") or ("# no replay script was produced\nimport sys; sys.exit(2)\n")
    rp = write_replay(prop, obl, script, None)
    v.replay_path = str(rp)
    _match_known(obl, v, f"{obl.id}:{c.get('key', 'any')}")


# ------------------------------------------------------------------ running a property

def src_hashes(files):
    out = {}
    for f in files:
        p = REPO / f
        if p.exists():
            out[f] = hashlib.sha256(p.read_bytes()).hexdigest()[:16]
    return out


def run_property(prop: str, obls: list[Obl], tier: str, meta: dict) -> int:
    t0 = time.time()
    seed = int(os.environ.get("VERIF_SEED", "0") or 0)
    obls = [o for o in obls if tier in o.tiers]
    workroot = Path(tempfile.mkdtemp(prefix=f"vt_{prop}_"))
    try:
        with ThreadPoolExecutor(NCPU) as ex:
            verdicts = list(ex.map(lambda o: run_obligation(prop, o, workroot, tier), obls))
    finally:
        shutil.rmtree(workroot, ignore_errors=True)
    code = 0
    lines = []
    n_hold = n_known = n_viol = n_inc = 0
    for v in verdicts:
        if v.status == "holds":
            n_hold += 1
        elif v.status == "cex" and v.reproduced and v.known:
            n_known += 1
            lines.append(f"KNOWN-FINDING: property={prop} {v.finding_key} {v.extra.get('known_what', '')}")
        elif v.status == "cex" and v.reproduced:
            n_viol += 1
            lines.append(f"VIOLATION property={prop} replay={v.replay_path}")
            lines.append(f"  obligation {v.obl.id}: {v.detail[-300:]}")
        else:
            n_inc += 1
            why = v.detail if v.status != "cex" else "counterexample did not reproduce on the real code: " + json.dumps(v.cex)[:400]
            lines.append(f"INCONCLUSIVE obligation={v.obl.id} status={v.status} {why[-700:]}")
    if n_viol:
        code = 1
    elif n_inc:
        code = 2
    wall = time.time() - t0
    write_evidence(prop, tier, seed, verdicts, meta, wall, n_viol)
    for ln in lines:
        print(ln)
    print(f"[{prop} {tier}] obligations={len(verdicts)} hold={n_hold} known={n_known} violations={n_viol} "
          f"inconclusive={n_inc} solver_s={sum(v.solver_s for v in verdicts):.1f} wall_s={wall:.1f} exit={code}")
    return code


def write_evidence(prop, tier, seed, verdicts, meta, wall, n_viol):
    encodes = sorted({e for v in verdicts for e in v.obl.encodes})
    discharged = [v for v in verdicts if v.status == "holds"]
    nontrivial = {v.obl.id for v in discharged if v.twin_ok}
    samples = []
    for v in verdicts[:400]:
        samples.append({"obligation": v.obl.id, "kind": v.obl.kind, "harness": f"{v.obl.module}.{v.obl.func}",
                        "encodes": v.obl.encodes, "bounds": v.obl.bounds + (f" [quick tier additionally: {v.obl.quick_pre}]" if tier == "quick" and v.obl.quick_pre else "") + (f" [thorough tier additionally: {v.obl.thorough_pre}]" if tier == "thorough" and v.obl.thorough_pre else ""), "claim": v.obl.desc, "verdict": v.status,
                        "solver_s": round(v.solver_s, 2), "queries": v.queries, "reachability_twin_violated": v.twin_ok,
                        **({"cex": v.cex, "reproduced": v.reproduced, "known": v.known, "key": v.finding_key} if v.cex else {}),
                        **({"detail": v.detail[-400:]} if v.status not in ("holds",) else {}),
                        **({"extra": v.extra} if v.extra else {})})
    ev = {
        "property_id": prop, "tier": tier, "seed": seed, "level": "model_checking",
        "coverage": {
            "evaluations": sum(max(1, v.queries) for v in verdicts),
            "distinct_nontrivial": len(nontrivial),
            "rule": "one evaluation = one solver-decided query (a CrossHair condition explored over all paths, or an SMT "
                    "check-sat); an obligation is counted non-trivial when it was discharged AND its reachability twin "
                    "(same harness, final assertion negated) was refuted by the solver, i.e. the assertion is reachable under "
                    "the assumptions; distinct = distinct obligation ids",
            "samples": samples,
            "obligations": len(verdicts), "discharged": len(discharged),
            "inconclusive": [v.obl.id for v in verdicts if v.status in ("inconclusive", "error") or (v.status == "cex" and not v.reproduced)],
            "known_findings_matched": [v.finding_key for v in verdicts if v.known],
            "functions_encoded": encodes,
            "source_hashes": src_hashes(meta.get("files", [])),
            "solver_seconds": round(sum(v.solver_s for v in verdicts), 1),
            "explanation": meta.get("explanation", ""),
            "checker_cmd": f"./vt check {prop} --tier {tier}",
            "trusted_base": meta.get("trusted_base", []),
            "out_of_scope": meta.get("out", []),
            "exhaustive": False,
        },
        "assumptions": meta.get("assumptions", []),
        "wall_s": round(wall, 2),
        "violations": n_viol,
    }
    d = Path(os.environ.get("VT_EVIDENCE_DIR") or (VERIF / "evidence"))
    d.mkdir(exist_ok=True, parents=True)
    (d / f"{prop}.json").write_text(json.dumps(ev, indent=1, default=str))
