"""In-memory stand-ins for I/O back ends (trusted base of the E1 harnesses).

Frames are represented by their *ids* (0..total-1).  A FakeNode/FakeVar indexes ids with
Python's own slice semantics, which is what numpy, pytables and netCDF4 implement for basic
slices.  Atom subsets are carried along as a second component so that the harness can check
which atoms were requested.
"""
import numpy as _np


class FakeArr:
    """What a back end returns for node[frame_slice, atom_slice, :]: the selected frame ids."""

    def __init__(self, ids, atoms=None):
        self.ids = list(ids)
        self.atoms = atoms
        self.flags = {"WRITEABLE": True}
        self.shape = (len(self.ids),)

    def __len__(self):
        return len(self.ids)

    def __mul__(self, f):      # unit conversion factor: frame identity is unaffected
        return self

    __rmul__ = __imul__ = __mul__

    def __eq__(self, o):
        return isinstance(o, FakeArr) and self.ids == o.ids


def _sel(total, key):
    atoms = None
    if isinstance(key, tuple):
        if len(key) > 1 and not (isinstance(key[1], slice) and key[1] == slice(None)):
            atoms = [int(a) for a in key[1]]
        key = key[0]
    return FakeArr(list(range(total))[key], atoms)


class FakeAttrs:
    def __init__(self, units):
        self.units = units


class FakeNode:
    """pytables EArray holding frames 0..total-1."""

    def __init__(self, total, units="nanometers", n_atoms=4):
        self.total = total
        self.attrs = FakeAttrs(units)
        self.shape = (total, n_atoms, 3)

    def __len__(self):
        return self.total

    def __getitem__(self, key):
        return _sel(self.total, key)


class NoSuchNodeError(Exception):
    pass


class FakeTables:
    NoSuchNodeError = NoSuchNodeError


class _Root:
    pass


class FakeH5Handle:
    def __init__(self, total, fields=("coordinates", "time"), n_atoms=4):
        units = {"coordinates": "nanometers", "time": "picoseconds", "cell_lengths": "nanometers",
                 "cell_angles": "degrees"}
        self.nodes = {f: FakeNode(total, units.get(f, "dimensionless"), n_atoms) for f in fields}
        self.root = _Root()
        for k, v in self.nodes.items():
            setattr(self.root, k, v)

    def get_node(self, where, name):
        if name in self.nodes:
            return self.nodes[name]
        raise NoSuchNodeError(name)

    def close(self):
        pass

    def flush(self):
        pass


class FakeDim:
    def __init__(self, n):
        self.size = n


class FakeVar:
    """netCDF variable holding frames 0..total-1."""

    def __init__(self, total, n_atoms=4):
        self.total = total
        self.shape = (total, n_atoms, 3)

    def __getitem__(self, key):
        return _sel(self.total, key)


class FakeNCHandle:
    def __init__(self, total, fields=("coordinates", "time"), n_atoms=4):
        self.variables = {f: FakeVar(total, n_atoms) for f in fields}
        self.dimensions = {"atom": FakeDim(n_atoms), "frame": None}

    def close(self):
        pass

    def sync(self):
        pass

    flush = sync


class NPInt:
    """`np` facade for modules under CrossHair: np.inf becomes 2**62 (an integer above every frame
    count in any bound), everything else is numpy's own.  Stub, listed in evidence."""
    inf = 1 << 62

    def __getattr__(self, n):
        return getattr(_np, n)


# ---------------------------------------------------------------- real-array back ends (C02/C19)

def frames_array(total, n_atoms=4, scale=1.0):
    """coordinates (total, n_atoms, 3): atom j of frame i sits at (i, j, 0)*scale."""
    a = _np.zeros((total, n_atoms, 3), dtype=_np.float32)
    a[:, :, 0] = _np.arange(total, dtype=_np.float32)[:, None]
    a[:, :, 1] = _np.arange(n_atoms, dtype=_np.float32)[None, :]
    return a * scale


class ArrNode:
    """pytables EArray / netCDF variable over a real numpy array (numpy's own indexing)."""

    def __init__(self, data, units="dimensionless"):
        self.data = data
        self.attrs = FakeAttrs(units)

    @property
    def shape(self):
        return self.data.shape

    def __len__(self):
        return len(self.data)

    def __getitem__(self, key):
        return _np.array(self.data[key])


def h5_handle_arrays(total, n_atoms=4, cell=True):
    h = FakeH5Handle(0, fields=())
    h.nodes = {"coordinates": ArrNode(frames_array(total, n_atoms), "nanometers"),
               "time": ArrNode(_np.arange(total, dtype=_np.float32) * 2.0, "picoseconds")}
    if cell:
        h.nodes["cell_lengths"] = ArrNode(_np.arange(total, dtype=_np.float32)[:, None] + _np.array([[5.0, 6.0, 7.0]], dtype=_np.float32), "nanometers")
        h.nodes["cell_angles"] = ArrNode(_np.full((total, 3), 90.0, dtype=_np.float32), "degrees")
    for k, v in h.nodes.items():
        setattr(h.root, k, v)
    return h


def nc_handle_arrays(total, n_atoms=4, cell=True):
    h = FakeNCHandle(0, fields=())
    h.variables = {"coordinates": ArrNode(frames_array(total, n_atoms, 10.0)),
                   "time": ArrNode(_np.arange(total, dtype=_np.float32) * 2.0)}
    if cell:
        h.variables["cell_lengths"] = ArrNode((_np.arange(total, dtype=_np.float32)[:, None] + _np.array([[5.0, 6.0, 7.0]], dtype=_np.float32)) * 10)
        h.variables["cell_angles"] = ArrNode(_np.full((total, 3), 90.0, dtype=_np.float32))
    h.dimensions = {"atom": FakeDim(n_atoms)}
    return h
