#!/usr/bin/env python3
"""Evaluate seeded mutants.  usage: tools_seeded.py <mutant_dir> [...]  [--no-suite]
For each dir (patch.diff, demo.py, meta.json{property}): scratch worktree of /repo HEAD, demo must pass clean and fail mutated,
baseline suite must still match stable_pass, then the property's quick check is run against the mutated worktree (VT_REPO).
Writes <mutant_dir>/result.json; removes the worktree."""
import json, os, subprocess, sys, tempfile, shutil, time, xml.etree.ElementTree as ET
from concurrent.futures import ThreadPoolExecutor
VERIF = os.path.dirname(os.path.abspath(__file__))
NOSUITE = "--no-suite" in sys.argv
TIER = "thorough" if "--thorough" in sys.argv else "quick"
dirs = [a for a in sys.argv[1:] if not a.startswith("--")]
B = json.load(open('/root/.vp/BASELINE.json'))


def sh(cmd, **kw):
    return subprocess.run(cmd, shell=True, capture_output=True, text=True, **kw)


def one(d):
    d = os.path.abspath(d)
    meta = json.load(open(d + "/meta.json"))
    prop = meta["property"]
    wt = tempfile.mkdtemp(prefix="sd_", dir="/tmp/wt"); os.rmdir(wt)
    res = {"dir": d, "property": prop}
    if NOSUITE and os.path.exists(d + "/result.json"):          # keep the suite verdict of an earlier full evaluation
        try:
            old = json.load(open(d + "/result.json"))
            if "suite_missing" in old:
                res["suite_missing"] = old["suite_missing"]
        except Exception:
            pass
    try:
        sh(f"{VERIF}/tools_mkwt.sh {wt}")
        env = dict(os.environ, PYTHONPATH=wt, OMP_NUM_THREADS="1", MDTRAJ_SRC=wt)
        r0 = subprocess.run(["/venv/bin/python", d + "/demo.py"], capture_output=True, text=True, env=env, cwd=wt)
        res["demo_clean_exit"] = r0.returncode
        a = sh(f"git -C {wt} apply {d}/patch.diff")
        res["apply"] = a.returncode
        r1 = subprocess.run(["/venv/bin/python", d + "/demo.py"], capture_output=True, text=True, env=env, cwd=wt)
        res["demo_mutant_exit"] = r1.returncode
        res["demo_mutant_tail"] = (r1.stdout + r1.stderr)[-300:]
        if not NOSUITE:
            out = tempfile.mktemp(suffix=".xml")
            cmd = B["cmd"].replace("cd /repo", f"cd {wt}").replace("<file>", out)
            sh(cmd, env=env)
            passed = set()
            for tc in ET.parse(out).getroot().iter("testcase"):
                if not any(c.tag in ("failure", "error", "skipped") for c in tc):
                    passed.add(f"{tc.get('classname')}::{tc.get('name')}")
            os.unlink(out)
            res["suite_missing"] = [t for t in B["stable_pass"] if t not in passed]
        evd = tempfile.mkdtemp(prefix="ev_")
        t0 = time.time()
        c = sh(f"cd {VERIF} && VT_REPO={wt} VT_EVIDENCE_DIR={evd} VT_REPLAY_DIR={evd}/replays VT_JOBS={os.environ.get('VT_JOBS','8')} ./vt check {prop} --tier {TIER}")
        res["check_exit"] = c.returncode
        res["check_wall_s"] = round(time.time() - t0, 1)
        res["check_lines"] = [l[:300] for l in c.stdout.splitlines() if l.startswith(("VIOLATION", "KNOWN", "INCONCLUSIVE", "  obligation", "["))][:20]
        res["detected"] = c.returncode == 1 and any(l.startswith("VIOLATION") for l in c.stdout.splitlines())
        shutil.rmtree(evd, ignore_errors=True)
    finally:
        sh(f"git -C /repo worktree remove --force {wt}")
        shutil.rmtree(wt, ignore_errors=True)
    json.dump(res, open(d + "/result.json", "w"), indent=1)
    print(json.dumps({k: res.get(k) for k in ("dir", "demo_clean_exit", "demo_mutant_exit", "suite_missing", "check_exit", "detected", "check_wall_s")}))
    return res


with ThreadPoolExecutor(int(os.environ.get("SEED_PAR", "3"))) as ex:
    list(ex.map(one, dirs))
